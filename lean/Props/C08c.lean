import Gen.au_acn
import Gen.au_abn
import Gen.pe_cui
import Gen.pe_ruc
import Gen.in__gstin
import Gen.in__pan
import Gen.fr_siren
import Gen.fr_tva
import Gen.ie_vat
import Props.C08p
/-!
# C08 (part c) — national identifiers: `au.acn.to_abn`, `pe.cui.to_ruc` / `pe.ruc.to_dni`, `in_.gstin.to_pan`,
`fr.siren.to_tva`, `ie.vat.convert`
-/
namespace Props.C08
open Py Spec.Checksum Lemmas.Refine Lemmas.Fold Props.C06 Props.C06Gen Props.C17 Props.C07

/-! ## ACN → ABN -/

theorem acn_shape {x v : Str} (h : Gen.au_acn.validate x = .ok v) :
    v = strip (cleanP x [32]) ∧ AllIn isAsciiDigit v ∧ v.length = 9 := by
  unfold Gen.au_acn.validate Gen.au_acn.compact at h
  simp only [clean_eq, isdigits_eq, bind_ok, pure_ok] at h
  generalize strip (cleanP x [32]) = n at h
  cases hd : isDigitsB n with
  | false => simp [hd] at h
  | true =>
    have hD := (isDigitsB_iff n).mp hd
    simp only [hd, Bool.not_true, Bool.false_eq_true, if_false] at h
    split at h
    · cases h
    · rename_i hlen
      have hl : n.length = 9 := by
        apply Classical.byContradiction
        intro hh
        apply hlen
        simp only [bne_iff_ne, ne_eq]
        omega
      cases hc : Gen.au_acn.calc_check_digit n with
      | error e => rw [hc] at h; cases h
      | ok cs =>
        rw [hc] at h
        cases hg : Py.getItem n (-1) with
        | error e => rw [hg] at h; cases h
        | ok g =>
          rw [hg] at h
          simp only [bind_ok] at h
          split at h
          · cases h
          · cases h
            exact ⟨rfl, hD.2, hl⟩

/-- `abn.calc_check_digits` on a digit string: two digits -/
theorem abn_calc (p : Str) (hp : AllIn isAsciiDigit p) :
    ∃ a b, Gen.au_abn.calc_check_digits p = .ok [a, b] ∧ isAsciiDigit a = true ∧ isAsciiDigit b = true := by
  unfold Gen.au_abn.calc_check_digits
  dsimp only
  rw [mapM_zip_digits _ (fun w d => (-w) * (d : Int)) (fun w c hc => by
    simp only [intOf_singleton_digit c hc, bind_ok, pure_ok]
    have hb := digit_bounds hc
    have : (c : Int) - 48 = ((c - 48 : Nat) : Int) := by omega
    rw [this]) _ p hp]
  simp only [bind_ok, pure_ok]
  generalize Py.sumInt _ = S
  have h0 : 0 ≤ (S - 1) % 89 := Int.emod_nonneg _ (by decide)
  have h88 : (S - 1) % 89 < 89 := Int.emod_lt_of_pos _ (by decide)
  obtain ⟨a, b, hab, ha, hb⟩ := strOfInt_two (11 + (S - 1) % 89) ⟨by omega, by omega⟩
  exact ⟨a, b, by rw [hab], ha, hb⟩

/-- nine digits with the two computed check digits in front are a valid ABN -/
theorem abn_check_complete (p : Str) (hp : AllIn isAsciiDigit p) (hl : p.length = 9) :
    ∃ cd, Gen.au_abn.calc_check_digits p = .ok cd ∧ cd.length = 2 ∧
      Gen.au_abn.validate (cd ++ p) = .ok (cd ++ p) := by
  obtain ⟨a, b, hab, ha, hb⟩ := abn_calc p hp
  refine ⟨[a, b], hab, rfl, ?_⟩
  have hw : AllIn isAsciiDigit ([a, b] ++ p) := allIn_append (allIn_cons ha (allIn_cons hb (fun _ h => by simp at h))) hp
  unfold Gen.au_abn.validate Gen.au_abn.compact
  simp only [clean_eq, isdigits_eq, bind_ok, pure_ok]
  rw [digits_compact hw _ (by decide)]
  have hd : isDigitsB ([a, b] ++ p) = true := (isDigitsB_iff _).mpr ⟨by simp, hw⟩
  have hlen : ((([a, b] ++ p).length : Int) != 11) = false := by simp [hl]
  have hs1 : slice ([a, b] ++ p) (some 2) none = p := by
    rw [slice_nonneg_none _ (by decide)]; rfl
  have hs2 : slice ([a, b] ++ p) none (some 2) = [a, b] := by
    rw [slice_none_nonneg _ (by decide)]; rfl
  simp only [hd, hlen, hs1, hs2, hab, Bool.not_true, Bool.false_eq_true, if_false, bind_ok]
  simp

/-- `au.acn.to_abn`: the ABN is `check(2) + acn` (identity: `abn[2:] = acn`) and `abn.validate` accepts it -/
theorem acn_to_abn (x v : Str) (h : Gen.au_acn.validate x = .ok v) :
    ∃ cd, cd.length = 2 ∧ Gen.au_acn.to_abn x = .ok (cd ++ v) ∧ Gen.au_abn.validate (cd ++ v) = .ok (cd ++ v) := by
  obtain ⟨hv, hD, hl⟩ := acn_shape h
  obtain ⟨cd, hcd, hcl, hval⟩ := abn_check_complete v hD hl
  refine ⟨cd, hcl, ?_, hval⟩
  unfold Gen.au_acn.to_abn Gen.au_acn.compact
  simp only [clean_eq, bind_ok, pure_ok, ← hv, hcd]

/-! ## CUI → RUC → DNI (Peru) -/

theorem cui_shape {x v : Str} (h : Gen.pe_cui.validate x = .ok v) :
    v = upper (strip (cleanP x [32, 45])) ∧ (v.length = 8 ∨ v.length = 9) ∧ AllIn isAsciiDigit (v.take 8) := by
  unfold Gen.pe_cui.validate Gen.pe_cui.compact at h
  simp only [clean_eq, isdigits_eq, bind_ok, pure_ok] at h
  generalize upper (strip (cleanP x [32, 45])) = n at h
  split at h
  · cases h
  · rename_i hlen
    have hl : n.length = 8 ∨ n.length = 9 := by
      have : ([(8 : Int), 9].contains (n.length : Int)) = true := not_not_true hlen
      simp only [List.contains_cons, List.contains_nil, Bool.or_false, Bool.or_eq_true, beq_iff_eq] at this
      omega
    rw [slice_none_nonneg n (by decide)] at h
    have h8 : (8 : Int).toNat = 8 := rfl
    rw [h8] at h
    cases hd : isDigitsB (n.take 8) with
    | false => simp [hd] at h
    | true =>
      have hD := (isDigitsB_iff _).mp hd
      simp only [hd, Bool.not_true, Bool.false_eq_true, if_false] at h
      obtain ⟨b, _, h⟩ := bind_ok_inv h
      split at h
      · cases h
      · cases h
        exact ⟨rfl, hl, hD.2⟩

/-- `ruc.calc_check_digit` on a digit string: one digit -/
theorem ruc_calc (p : Str) (hp : AllIn isAsciiDigit p) :
    ∃ k, Gen.pe_ruc.calc_check_digit p = .ok [k] ∧ isAsciiDigit k = true := by
  unfold Gen.pe_ruc.calc_check_digit
  dsimp only
  rw [mapM_zip_digits _ (fun w d => w * (d : Int)) (fun w c hc => by
    simp only [intOf_singleton_digit c hc, bind_ok, pure_ok]
    have hb := digit_bounds hc
    have : (c : Int) - 48 = ((c - 48 : Nat) : Int) := by omega
    rw [this]) _ p hp]
  simp only [bind_ok, pure_ok]
  generalize Py.sumInt _ = S
  have h0 : 0 ≤ (11 - S % 11) % 10 := Int.emod_nonneg _ (by decide)
  have h9 : (11 - S % 11) % 10 ≤ 9 := by omega
  refine ⟨48 + ((11 - S % 11) % 10).toNat, by rw [strOfInt_digit _ ⟨h0, h9⟩], ?_⟩
  simp only [isAsciiDigit, Bool.and_eq_true, decide_eq_true_eq]
  omega

/-- `ruc.calc_check_digit` reads the first ten characters only -/
theorem ruc_calc_append (p q : Str) (hl : p.length = 10) :
    Gen.pe_ruc.calc_check_digit (p ++ q) = Gen.pe_ruc.calc_check_digit p := by
  unfold Gen.pe_ruc.calc_check_digit
  dsimp only
  have : Py.chars (p ++ q) = Py.chars p ++ Py.chars q := by simp [Py.chars]
  rw [this, zip_append_of_le _ _ _ (by simp [Py.chars, hl])]

theorem ruc_shape {x r : Str} (h : Gen.pe_ruc.validate x = .ok r) :
    r = strip (cleanP x [32]) ∧ r.length = 11 ∧ AllIn isAsciiDigit r ∧
      ([([49, 48] : Str), [49, 53], [49, 55], [50, 48]].contains (r.take 2)) = true ∧
      ∃ cs, Gen.pe_ruc.calc_check_digit r = .ok cs ∧ endswith r cs = true := by
  unfold Gen.pe_ruc.validate Gen.pe_ruc.compact at h
  simp only [clean_eq, isdigits_eq, bind_ok, pure_ok] at h
  generalize strip (cleanP x [32]) = n at h
  split at h
  · cases h
  · rename_i hlen
    have hl : n.length = 11 := by
      apply Classical.byContradiction
      intro hh
      apply hlen
      simp only [bne_iff_ne, ne_eq]
      omega
    cases hd : isDigitsB n with
    | false => simp [hd] at h
    | true =>
      have hD := (isDigitsB_iff n).mp hd
      simp only [hd, Bool.not_true, Bool.false_eq_true, if_false] at h
      rw [slice_none_nonneg n (by decide)] at h
      have h2 : (2 : Int).toNat = 2 := rfl
      rw [h2] at h
      split at h
      · cases h
      · rename_i hcc
        cases hc : Gen.pe_ruc.calc_check_digit n with
        | error e => rw [hc] at h; cases h
        | ok cs =>
          rw [hc] at h
          simp only [bind_ok] at h
          split at h
          · cases h
          · rename_i hend
            have hnv : n = r := by cases h; rfl
            subst hnv
            exact ⟨rfl, hl, hD.2, not_not_true hcc, cs, hc, not_not_true hend⟩

/-- ten digits that begin with one of the RUC prefixes, followed by the computed check digit, are a valid RUC -/
theorem ruc_check_complete (p : Str) (hp : AllIn isAsciiDigit p) (hl : p.length = 10)
    (hcc : ([([49, 48] : Str), [49, 53], [49, 55], [50, 48]].contains (p.take 2)) = true) :
    ∃ k, Gen.pe_ruc.calc_check_digit p = .ok [k] ∧ Gen.pe_ruc.validate (p ++ [k]) = .ok (p ++ [k]) := by
  obtain ⟨k, hk, hkd⟩ := ruc_calc p hp
  refine ⟨k, hk, ?_⟩
  have hw : AllIn isAsciiDigit (p ++ [k]) := allIn_append hp (allIn_cons hkd (fun _ h => by simp at h))
  unfold Gen.pe_ruc.validate Gen.pe_ruc.compact
  simp only [clean_eq, isdigits_eq, bind_ok, pure_ok]
  rw [digits_compact hw _ (by decide)]
  have hd : isDigitsB (p ++ [k]) = true := (isDigitsB_iff _).mpr ⟨by simp, hw⟩
  have hlen : (((p ++ [k]).length : Int) != 11) = false := by simp [hl]
  have htk : (p ++ [k]).take 2 = p.take 2 := by rw [List.take_append_of_le_length (by omega)]
  have hend : endswith (p ++ [k]) [k] = true := endswith_iff.mpr ⟨p, rfl⟩
  rw [slice_none_nonneg _ (by decide)]
  have h2 : (2 : Int).toNat = 2 := rfl
  simp only [hd, hlen, h2, htk, hcc, ruc_calc_append p [k] hl, hk, hend, Bool.not_true, Bool.false_eq_true, if_false,
    bind_ok]

/-- `pe.cui.to_ruc`: the RUC is `'10' + cui[:8] + check` (identity) and `ruc.validate` accepts it (target-valid);
`ruc.to_dni` gives the eight digits back (inverse) -/
theorem cui_to_ruc (x v : Str) (h : Gen.pe_cui.validate x = .ok v) :
    ∃ k, Gen.pe_cui.to_ruc x = .ok ([49, 48] ++ v.take 8 ++ [k]) ∧
      Gen.pe_ruc.validate ([49, 48] ++ v.take 8 ++ [k]) = .ok ([49, 48] ++ v.take 8 ++ [k]) ∧
      Gen.pe_ruc.to_dni ([49, 48] ++ v.take 8 ++ [k]) = .ok (v.take 8) := by
  obtain ⟨hv, hl, hD⟩ := cui_shape h
  have hp : AllIn isAsciiDigit ([49, 48] ++ v.take 8) := allIn_append (by decide) hD
  have ht : (v.take 8).length = 8 := by rw [List.length_take]; omega
  have hpl : ([49, 48] ++ v.take 8).length = 10 := by simp [ht]
  obtain ⟨k, hk, hval⟩ := ruc_check_complete _ hp hpl
    (by rw [show (([49, 48] : Str) ++ v.take 8).take 2 = [49, 48] from rfl]; decide)
  refine ⟨k, ?_, hval, ?_⟩
  · unfold Gen.pe_cui.to_ruc Gen.pe_cui.compact
    simp only [clean_eq, bind_ok, pure_ok, ← hv]
    rw [slice_none_nonneg v (by decide)]
    have h8 : (8 : Int).toNat = 8 := rfl
    rw [h8, hk]
    rfl
  · unfold Gen.pe_ruc.to_dni
    simp only [hval, bind_ok, pure_ok]
    have hst : startswith ([49, 48] ++ v.take 8 ++ [k]) [49, 48] = true :=
      startswith_iff.mpr ⟨v.take 8 ++ [k], by simp⟩
    simp only [hst, Bool.not_true, Bool.false_eq_true, if_false]
    rw [slice_nonneg_nonneg _ (by decide) (by decide)]
    have : ((([49, 48] : Str) ++ v.take 8 ++ [k]).drop (2 : Int).toNat).take ((10 : Int).toNat - (2 : Int).toNat) = v.take 8 := by
      show ((v.take 8 ++ [k])).take 8 = v.take 8
      rw [List.take_append_of_le_length (by omega), List.take_of_length_le (by omega)]
    rw [this]

/-- eight digits are a valid CUI (a DNI without check digit) -/
theorem cui_validate_dni (d : Str) (hd : AllIn isAsciiDigit d) (hl : d.length = 8) :
    Gen.pe_cui.validate d = .ok d := by
  unfold Gen.pe_cui.validate Gen.pe_cui.compact
  simp only [clean_eq, isdigits_eq, bind_ok, pure_ok]
  rw [digits_compact_upper hd _ (by decide), slice_none_nonneg d (by decide)]
  have h8 : (8 : Int).toNat = 8 := rfl
  have ht : d.take 8 = d := List.take_of_length_le (by omega)
  have hdig : isDigitsB d = true := (isDigitsB_iff _).mpr ⟨by intro h0; subst h0; simp at hl, hd⟩
  have hc : ([(8 : Int), 9].contains (d.length : Int)) = true := by rw [hl]; decide
  have hgt : decide ((d.length : Int) > 8) = false := by simp [hl]
  simp only [h8, ht, hdig, hc, hgt, Bool.not_true, Bool.false_eq_true, if_false, bind_ok]

/-- `pe.ruc.to_dni` on the RUC of a natural person (prefix 10): the DNI is `ruc[2:10]`, a valid CUI, and
`cui.to_ruc` gives the RUC back (inverse) -/
theorem ruc_to_dni (x r : Str) (h : Gen.pe_ruc.validate x = .ok r) (h10 : r.take 2 = [49, 48]) :
    Gen.pe_ruc.to_dni x = .ok ((r.drop 2).take 8) ∧
      Gen.pe_cui.validate ((r.drop 2).take 8) = .ok ((r.drop 2).take 8) ∧
      Gen.pe_cui.to_ruc ((r.drop 2).take 8) = .ok r := by
  obtain ⟨_, hl, hD, _, cs, hcs, hend⟩ := ruc_shape h
  have hdD : AllIn isAsciiDigit ((r.drop 2).take 8) :=
    fun c hc => hD c (List.mem_of_mem_drop (List.mem_of_mem_take hc))
  have hdl : ((r.drop 2).take 8).length = 8 := by simp [hl]
  have hval := cui_validate_dni _ hdD hdl
  refine ⟨?_, hval, ?_⟩
  · unfold Gen.pe_ruc.to_dni
    simp only [h, bind_ok, pure_ok]
    have hst : startswith r [49, 48] = true := startswith_eq_take.mpr ⟨h10, by simp [hl]⟩
    simp only [hst, Bool.not_true, Bool.false_eq_true, if_false]
    rw [slice_nonneg_nonneg _ (by decide) (by decide)]
    rfl
  · obtain ⟨k, hk, _, _⟩ := cui_to_ruc _ _ hval
    have ht : ((r.drop 2).take 8).take 8 = (r.drop 2).take 8 := List.take_of_length_le (by omega)
    rw [ht] at hk
    rw [hk]
    -- `'10' + ruc[2:10]` are the first ten digits of the RUC, the recomputed check digit is the eleventh
    have hpre : [49, 48] ++ (r.drop 2).take 8 = r.take 10 := by
      rw [← h10]
      have : r.take 2 ++ (r.drop 2).take 8 = r.take (2 + 8) := by rw [List.take_add]
      rw [this]
    have hk' : Gen.pe_ruc.calc_check_digit (r.take 10) = .ok [k] := by
      have hto := hk
      unfold Gen.pe_cui.to_ruc Gen.pe_cui.compact at hto
      simp only [clean_eq, bind_ok, pure_ok] at hto
      rw [digits_compact_upper hdD _ (by decide), slice_none_nonneg _ (by decide)] at hto
      have h8 : (8 : Int).toNat = 8 := rfl
      rw [h8, ht, hpre] at hto
      obtain ⟨k2, hk2, _⟩ := ruc_calc (r.take 10) (fun c hc => hD c (List.mem_of_mem_take hc))
      rw [hk2] at hto ⊢
      simp only [bind_ok] at hto
      have : r.take 10 ++ [k2] = r.take 10 ++ [k] := by
        have := Except.ok.inj hto
        simpa using this
      have := List.append_cancel_left this
      rw [this]
    have hcalc : Gen.pe_ruc.calc_check_digit r = .ok [k] := by
      conv => lhs; rw [← List.take_append_drop 10 r]
      rw [ruc_calc_append _ _ (by simp [hl]), hk']
    rw [hcalc] at hcs
    have hcs' : cs = [k] := (Except.ok.inj hcs).symm
    subst hcs'
    obtain ⟨t, ht'⟩ := endswith_iff.mp hend
    have htl : t.length = 10 := by
      have := congrArg List.length ht'
      simp [hl] at this; omega
    have : r.take 10 = t := by rw [ht', List.take_append_of_le_length (by omega), List.take_of_length_le (by omega)]
    rw [hpre, this, ← ht']

/-- the RUC of a company (prefix 15, 17, 20) has no DNI: `to_dni` raises `InvalidComponent` -/
theorem ruc_to_dni_company (x r : Str) (h : Gen.pe_ruc.validate x = .ok r) (h10 : r.take 2 ≠ [49, 48]) :
    Gen.pe_ruc.to_dni x = .error .invalidComponent := by
  unfold Gen.pe_ruc.to_dni
  simp only [h, bind_ok, pure_ok]
  have hst : startswith r [49, 48] = false := by
    cases hs : startswith r [49, 48] with
    | false => rfl
    | true => exact absurd (startswith_eq_take.mp hs).1 h10
  simp only [hst, Bool.not_false, if_true]
  rfl

/-! ## GSTIN → PAN (India) -/

theorem gen_luhn_validate_mem {w a r : Str} (h : Gen.luhn.validate w a = .ok r) : ∀ c ∈ w, c ∈ a := by
  rw [Props.C06Gen.luhn_validate_eq] at h
  unfold Luhn.validate at h
  split at h
  · cases h
  · have h2 := (validateBody_ok h).2
    unfold Luhn.checksum at h2
    obtain ⟨ws, hws, _⟩ := bind_ok_inv h2
    intro c hc
    obtain ⟨i, hi⟩ := mapM_ok_forall _ _ _ hws c (List.mem_reverse.mpr hc)
    exact index_ok_mem hi

/-- what `pan.validate` returns -/
theorem pan_validate_result {y r : Str} (h : Gen.in__pan.validate y = .ok r) :
    r = strip (upper (cleanP y [32, 45])) := by
  unfold Gen.in__pan.validate Gen.in__pan.compact at h
  simp only [clean_eq, bind_ok, pure_ok] at h
  generalize strip (upper (cleanP y [32, 45])) = n at h
  split at h
  · cases h
  · split at h
    · cases h
    · obtain ⟨_, _, h⟩ := bind_ok_inv h
      split at h
      · cases h
      · cases h; rfl

theorem gstin_shape {x v : Str} (h : Gen.in__gstin.validate x = .ok v) :
    v = strip (upper (cleanP x [32, 45])) ∧ v.length = 15 ∧ AllIn isDU v ∧
      ∃ r, Gen.in__pan.validate (slice v (some 2) (some 12)) = .ok r := by
  unfold Gen.in__gstin.validate Gen.in__gstin.compact at h
  simp only [clean_eq, bind_ok, pure_ok] at h
  generalize strip (upper (cleanP x [32, 45])) = n at h
  split at h
  · cases h
  · rename_i hlen
    have hl : n.length = 15 := by
      apply Classical.byContradiction
      intro hh
      apply hlen
      simp only [bne_iff_ne, ne_eq]
      omega
    split at h
    · cases h
    · obtain ⟨b, _, h⟩ := bind_ok_inv h
      split at h
      · cases h
      · obtain ⟨r, hr, h⟩ := bind_ok_inv h
        obtain ⟨r2, hr2, h⟩ := bind_ok_inv h
        cases h
        refine ⟨rfl, hl, ?_, r, hr⟩
        intro c hc
        exact C17.mem_alpha36.mp (gen_luhn_validate_mem hr2 c hc)

/-- `in_.gstin.to_pan`: the PAN is `gstin[2:12]` (identity) and `pan.validate` accepts it unchanged (target-valid) -/
theorem gstin_to_pan (x v : Str) (h : Gen.in__gstin.validate x = .ok v) :
    Gen.in__gstin.to_pan x = .ok ((v.drop 2).take 10) ∧
      Gen.in__pan.validate ((v.drop 2).take 10) = .ok ((v.drop 2).take 10) := by
  obtain ⟨hv, hl, hDU, r, hr⟩ := gstin_shape h
  have hs : slice v (some 2) (some 12) = (v.drop 2).take 10 := by
    rw [slice_nonneg_nonneg _ (by decide) (by decide)]; rfl
  rw [hs] at hr
  have hyDU : AllIn isDU ((v.drop 2).take 10) :=
    fun c hc => hDU c (List.mem_of_mem_drop (List.mem_of_mem_take hc))
  refine ⟨?_, ?_⟩
  · unfold Gen.in__gstin.to_pan Gen.in__gstin.compact
    simp only [clean_eq, bind_ok, pure_ok, ← hv, hs]
  · have := pan_validate_result hr
    rw [du_compact_upper' hyDU _ (by decide)] at this
    rw [this] at hr
    exact hr

/-! ## SIREN → TVA (France) -/

theorem siren_shape {x v : Str} (h : Gen.fr_siren.validate x = .ok v) :
    v = strip (cleanP x [32, 46]) ∧ AllIn isAsciiDigit v ∧ v.length = 9 ∧ Gen.fr_siren.validate v = .ok v := by
  have h0 := h
  unfold Gen.fr_siren.validate Gen.fr_siren.compact at h
  simp only [clean_eq, isdigits_eq, bind_ok, pure_ok] at h
  obtain ⟨n, hn⟩ : ∃ n, n = strip (cleanP x [32, 46]) := ⟨_, rfl⟩
  rw [← hn] at h
  cases hd : isDigitsB n with
  | false => simp [hd] at h
  | true =>
    have hD := (isDigitsB_iff n).mp hd
    simp only [hd, Bool.not_true, Bool.false_eq_true, if_false] at h
    split at h
    · cases h
    · rename_i hlen
      have hl : n.length = 9 := by
        apply Classical.byContradiction
        intro hh
        apply hlen
        simp only [bne_iff_ne, ne_eq]
        omega
      obtain ⟨r, _, h⟩ := bind_ok_inv h
      have hnv : n = v := by cases h; rfl
      subst hnv
      refine ⟨hn, hD.2, hl, ?_⟩
      rw [← h0]
      unfold Gen.fr_siren.validate Gen.fr_siren.compact
      simp only [clean_eq, bind_ok, pure_ok, ← hn, digits_compact hD.2 _ (by decide : ∀ c ∈ ([32, 46] : Str), isAsciiAlnum c = false)]

/-- deleting more separators: `clean(x, ' -.')` is `clean(x, ' .')` without its hyphens -/
theorem cleanP_more (x : Str) : cleanP x [32, 45, 46] = (cleanP x [32, 46]).filter (fun c => c != 45) := by
  unfold cleanP
  rw [List.filter_filter]
  apply List.filter_congr
  intro c _
  simp only [List.contains_cons, List.contains_nil, Bool.or_false, Bool.not_or, bne]
  cases (c == 32) <;> cases (c == 45) <;> cases (c == 46) <;> rfl

/-- the two check digits of the TVA number computed from a SIREN `v` -/
def tvaKey (v : Str) : Str := Py.fmtD 2 true (Py.digitsVal (v ++ [49, 50]) % 97)

theorem tvaKey_spec (v : Str) : AllIn isAsciiDigit (tvaKey v) ∧ (tvaKey v).length = 2 ∧
    Py.digitsVal (tvaKey v) = Py.digitsVal (v ++ [49, 50]) % 97 := by
  have h0 : 0 ≤ Py.digitsVal (v ++ [49, 50]) % 97 := Int.emod_nonneg _ (by decide)
  have h97 : Py.digitsVal (v ++ [49, 50]) % 97 < 97 := Int.emod_lt_of_pos _ (by decide)
  exact ⟨fmtD_allDigits_of_nonneg 2 h0, fmtD_length_eq 2 (by decide) h0 (by omega), digitsVal_fmtD_of_nonneg 2 h0⟩

/-- `tva.validate` on a presentation whose cleaned form is `key + siren` -/
theorem tva_validate_key (w v : Str) (hD : AllIn isAsciiDigit v) (hl : v.length = 9)
    (hval : Gen.fr_siren.validate v = .ok v) (hw : cleanP w [32, 45, 46] = tvaKey v ++ v) :
    Gen.fr_tva.validate w = .ok (tvaKey v ++ v) := by
  obtain ⟨hkD, hkl, hkv⟩ := tvaKey_spec v
  obtain ⟨a, b, hab⟩ : ∃ a b, tvaKey v = [a, b] := by
    match tvaKey v, hkl with
    | [a, b], _ => exact ⟨a, b, rfl⟩
  rw [hab] at hw hkD hkv ⊢
  have hnD : AllIn isAsciiDigit ([a, b] ++ v) := allIn_append hkD hD
  have hA : AllIn isAsciiAlnum ([a, b] ++ v) := fun c hc => digit_alnum (hnD c hc)
  unfold Gen.fr_tva.validate Gen.fr_tva.compact
  simp only [clean_eq, isdigits_eq, bind_ok, pure_ok, all_strIn, hw]
  rw [upper_of_asciiDigits hnD, strip_eq_self_of_asciiDigit _ hnD,
    digits_not_startswith hnD ⟨70, by simp, by decide⟩]
  have hs1 : slice ([a, b] ++ v) none (some 2) = [a, b] := by
    rw [slice_none_nonneg _ (by decide)]; rfl
  have hs2 : slice ([a, b] ++ v) (some 2) none = v := by
    rw [slice_nonneg_none _ (by decide)]; rfl
  have hs3 : slice ([a, b] ++ v) (some 2) (some 5) = v.take 3 := by
    rw [slice_nonneg_nonneg _ (by decide) (by decide)]; rfl
  have hal : ([a, b] : Str).all (fun c =>
      ([48, 49, 50, 51, 52, 53, 54, 55, 56, 57, 65, 66, 67, 68, 69, 70, 71, 72, 74, 75, 76, 77, 78, 80, 81, 82, 83, 84,
        85, 86, 87, 88, 89, 90] : Str).contains c) = true := by
    apply all_iff_allIn.mpr
    intro c hc
    have hb := digit_bounds (hkD c hc)
    have : c = 48 ∨ c = 49 ∨ c = 50 ∨ c = 51 ∨ c = 52 ∨ c = 53 ∨ c = 54 ∨ c = 55 ∨ c = 56 ∨ c = 57 := by omega
    rcases this with rfl | rfl | rfl | rfl | rfl | rfl | rfl | rfl | rfl | rfl <;> rfl
  have hdv : isDigitsB v = true := (isDigitsB_iff _).mpr ⟨by intro h0; subst h0; simp at hl, hD⟩
  have hdn : isDigitsB ([a, b] ++ v) = true := (isDigitsB_iff _).mpr ⟨by simp, hnD⟩
  have hlen : ((([a, b] ++ v).length : Int) != 11) = false := by simp [hl]
  have hi1 : Py.intOf [a, b] = .ok (Py.digitsVal [a, b]) := intOf_of_asciiDigits _ (by simp) hkD (by simp)
  have hi2 : Py.intOf (v ++ [49, 50]) = .ok (Py.digitsVal (v ++ [49, 50])) :=
    intOf_of_asciiDigits _ (by simp) (allIn_append hD (by decide)) (by simp [hl])
  simp only [Bool.false_eq_true, if_false, hs1, hs2, hs3, hal, hdv, hdn, hlen, Bool.not_true, hi1, hi2, bind_ok, hkv,
    bne_self_eq_false]
  split
  · simp only [hval, bind_ok, ↓reduceIte]
  · rfl

/-- `fr.siren.to_tva` for an input whose cleaned form needs no `strip()` (`clean(x, ' .') = v`, in particular for
the compact number itself and for every presentation made of digits, spaces and dots): the result is
`key + (' ' if ' ' in x) + x`, and `tva.validate` compacts it to `key + siren` (identity: `tva[2:] = siren`) -/
theorem siren_to_tva_partial (x v : Str) (h : Gen.fr_siren.validate x = .ok v) (hc : cleanP x [32, 46] = v) :
    Gen.fr_siren.to_tva x = .ok (tvaKey v ++ (if x.contains 32 then [32] else []) ++ x) ∧
      Gen.fr_tva.validate (tvaKey v ++ (if x.contains 32 then [32] else []) ++ x) = .ok (tvaKey v ++ v) := by
  obtain ⟨hv, hD, hl, hval⟩ := siren_shape h
  obtain ⟨hkD, _, _⟩ := tvaKey_spec v
  refine ⟨?_, ?_⟩
  · unfold Gen.fr_siren.to_tva Gen.fr_siren.compact
    simp only [clean_eq, bind_ok, pure_ok, ← hv, strIn_single]
    rw [intOf_of_asciiDigits _ (by simp) (allIn_append hD (by decide)) (by simp [hl])]
    simp only [bind_ok]
    rfl
  · apply tva_validate_key _ v hD hl hval
    rw [cleanP_append, cleanP_append, cleanP_more x, hc]
    have h1 : cleanP (tvaKey v) [32, 45, 46] = tvaKey v :=
      cleanP_of_alnum (fun c hc => digit_alnum (hkD c hc)) (by decide)
    have h2 : cleanP (if x.contains 32 then [32] else []) [32, 45, 46] = [] := by
      split
      · unfold cleanP
        rw [List.map_singleton, cm_of_ascii_ne (by decide) (by decide)]
        rfl
      · rfl
    have h3 : v.filter (fun c => c != 45) = v := by
      apply List.filter_eq_self.mpr
      intro c hc
      have := digit_bounds (hD c hc)
      simp only [bne_iff_ne, ne_eq]
      omega
    rw [h1, h2, h3, List.append_nil]

/-- the compact number itself -/
theorem siren_to_tva_compact (x v : Str) (h : Gen.fr_siren.validate x = .ok v) :
    Gen.fr_siren.to_tva v = .ok (tvaKey v ++ v) ∧ Gen.fr_tva.validate (tvaKey v ++ v) = .ok (tvaKey v ++ v) := by
  obtain ⟨_, hD, _, hval⟩ := siren_shape h
  have hc : cleanP v [32, 46] = v := cleanP_of_alnum (fun c hc => digit_alnum (hD c hc)) (by decide)
  have h32 : v.contains 32 = false := contains_of_allIn_false hD (by decide)
  have := siren_to_tva_partial v v hval hc
  rw [h32] at this
  simp only [Bool.false_eq_true, if_false, List.append_nil] at this
  exact this

theorem sepOK_sp_dot : SepOK [32, 46] := by
  intro c hc
  have : c = 32 ∨ c = 46 := by simpa using hc
  rcases this with rfl | rfl
  · exact ⟨cm_of_ascii_ne (by decide) (by decide), rfl⟩
  · exact ⟨cm_of_ascii_ne (by decide) (by decide), rfl⟩

/-- every presentation made of ASCII letters/digits, spaces and dots (wherever they are) -/
theorem siren_to_tva_pres (x v : Str) (hP : Pres [32, 46] x) (h : Gen.fr_siren.validate x = .ok v) :
    Gen.fr_siren.to_tva x = .ok (tvaKey v ++ (if x.contains 32 then [32] else []) ++ x) ∧
      Gen.fr_tva.validate (tvaKey v ++ (if x.contains 32 then [32] else []) ++ x) = .ok (tvaKey v ++ v) := by
  apply siren_to_tva_partial x v h
  have hv := (siren_shape h).1
  rw [pres_cleanP sepOK_sp_dot hP, strip_eq_self_of_asciiAlnum _ (body_alnum x)] at hv
  rw [pres_cleanP sepOK_sp_dot hP, hv]

/-- Full statement, false:
  `∀ x v, siren.validate x = ok v → ∃ w r, siren.to_tva x = ok w ∧ tva.validate w = ok r`
`siren.compact` strips white space that `clean` leaves (a tab in front of the number); `to_tva` puts its two digits
in front of the unstripped input and `tva.validate` then finds the tab inside the number. -/
theorem siren_to_tva_witness :
    Gen.fr_siren.validate (9 :: str% "552008443") = .ok (str% "552008443") ∧
    Gen.fr_siren.to_tva (9 :: str% "552008443") = .ok (str% "19" ++ 9 :: str% "552008443") ∧
    Gen.fr_tva.validate (str% "19" ++ 9 :: str% "552008443") = .error .invalidFormat := by
  decide +kernel

theorem siren_to_tva_full_false :
    ¬ (∀ x v, Gen.fr_siren.validate x = .ok v →
        ∃ w r, Gen.fr_siren.to_tva x = .ok w ∧ Gen.fr_tva.validate w = .ok r) := by
  intro hall
  obtain ⟨h1, h2, h3⟩ := siren_to_tva_witness
  obtain ⟨w, r, hw, hr⟩ := hall _ _ h1
  rw [h2] at hw
  cases hw
  rw [h3] at hr
  cases hr

/-! ## Non-vacuity: the docstring numbers -/
section Examples
open Props.C17

theorem ex_acn : Gen.au_acn.validate (str% "004 085 616") = .ok (str% "004085616") := by decide +kernel
example : ∃ cd, cd.length = 2 ∧ Gen.au_acn.to_abn (str% "004 085 616") = .ok (cd ++ str% "004085616") ∧
    Gen.au_abn.validate (cd ++ str% "004085616") = .ok (cd ++ str% "004085616") := acn_to_abn _ _ ex_acn
example : Gen.au_acn.to_abn (str% "004 085 616") = .ok (str% "53004085616") := by decide +kernel

theorem ex_cui : Gen.pe_cui.validate (str% "10117410-2") = .ok (str% "101174102") := by decide +kernel
example : ∃ k, Gen.pe_cui.to_ruc (str% "10117410-2") = .ok (str% "1010117410" ++ [k]) ∧
    Gen.pe_ruc.validate (str% "1010117410" ++ [k]) = .ok (str% "1010117410" ++ [k]) ∧
    Gen.pe_ruc.to_dni (str% "1010117410" ++ [k]) = .ok (str% "10117410") := cui_to_ruc _ _ ex_cui
example : Gen.pe_cui.to_ruc (str% "10117410-2") = .ok (str% "10101174102") := by decide +kernel
theorem ex_ruc : Gen.pe_ruc.validate (str% "10101174102") = .ok (str% "10101174102") := by decide +kernel
example : Gen.pe_ruc.to_dni (str% "10101174102") = .ok (str% "10117410") ∧
    Gen.pe_cui.validate (str% "10117410") = .ok (str% "10117410") ∧
    Gen.pe_cui.to_ruc (str% "10117410") = .ok (str% "10101174102") := ruc_to_dni _ _ ex_ruc rfl
theorem ex_ruc20 : Gen.pe_ruc.validate (str% "20512333797") = .ok (str% "20512333797") := by decide +kernel
example : Gen.pe_ruc.to_dni (str% "20512333797") = .error .invalidComponent :=
  ruc_to_dni_company _ _ ex_ruc20 (by decide)

theorem ex_gstin : Gen.in__gstin.validate (str% "27AAPFU0939F1ZV") = .ok (str% "27AAPFU0939F1ZV") := by
  decide +kernel
example : Gen.in__gstin.to_pan (str% "27AAPFU0939F1ZV") = .ok (str% "AAPFU0939F") ∧
    Gen.in__pan.validate (str% "AAPFU0939F") = .ok (str% "AAPFU0939F") := gstin_to_pan _ _ ex_gstin

theorem ex_siren' : Gen.fr_siren.validate (str% "443 121 975") = .ok (str% "443121975") := by decide +kernel
example : Gen.fr_siren.to_tva (str% "443 121 975") = .ok (tvaKey (str% "443121975") ++ str% " 443 121 975") ∧
    Gen.fr_tva.validate (tvaKey (str% "443121975") ++ str% " 443 121 975") =
      .ok (tvaKey (str% "443121975") ++ str% "443121975") :=
  siren_to_tva_pres _ _ (by intro c hc; revert c; decide) ex_siren'
example : tvaKey (str% "443121975") = str% "46" := by decide +kernel

end Examples

end Props.C08
