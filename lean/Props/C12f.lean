import Gen.be_nn
import Gen.be_bis
import Props.C12c
/-!
# C12 (value consistency, part 3, continued) — be.nn / be.bis: birth date, year and month agree
-/
namespace Props.C12
open Py Lemmas.Refine Props.C17 Props.C08

set_option linter.unusedVariables false
set_option linter.unusedSimpArgs false

/-! ## be.nn : `get_birth_year`, `get_birth_month` and `get_birth_date` read the same parts -/

/-- whenever `get_birth_date` returns a date (for any argument and any `today`), it is a real calendar date and the
separately returned year and month are its year and month -/
theorem be_nn_year_month_agree (t : Date) (n : Str) (d : Date) (hd : Gen.be_nn.get_birth_date t n = .ok (some d)) :
    d.Valid ∧ Gen.be_nn.get_birth_year t n = .ok (some d.year) ∧
      Gen.be_nn.get_birth_month t n = .ok (some d.month) := by
  unfold Gen.be_nn.get_birth_date at hd
  unfold Gen.be_nn.get_birth_year Gen.be_nn.get_birth_month
  cases hc : Gen.be_nn.compact n with
  | error e => rw [hc] at hd; cases hd
  | ok c =>
    rw [hc] at hd
    simp only [bind_ok] at hd ⊢
    cases hp : Gen.be_nn._get_birth_date_parts t c with
    | error e => rw [hp] at hd; cases hd
    | ok p =>
      obtain ⟨oy, om, od⟩ := p
      rw [hp] at hd
      simp only [bind_ok, pure_ok] at hd ⊢
      cases oy <;> cases om <;> cases od <;> simp only [bind_ok, pure_ok] at hd <;> try (cases hd; done)
      rename_i y m dd
      obtain ⟨r, hr, hd⟩ := bind_ok_inv hd
      cases hd
      obtain ⟨hv, hyr, hmo, hdd⟩ := mkDate_valid hr
      exact ⟨hv, by rw [hyr], by rw [hmo]⟩

/-- a search loop `for x in l: if cond(x): return key(x)` returns nothing or the key of an element -/
theorem forIn_find {α : Type} (f : Int × α → Option Int × Unit → R (ForInStep (Option Int × Unit)))
    (hf : ∀ x s r, f x s = .ok r → r = .done (some x.1, ()) ∨ r = .yield (none, ())) :
    ∀ (l : List (Int × α)) (s : Option Int × Unit), forIn l (none, ()) f = .ok s →
      s.1 = none ∨ ∃ x ∈ l, s.1 = some x.1
  | [], s, h => by
    simp only [List.forIn_nil, pure_ok, Except.ok.injEq] at h
    subst h; exact Or.inl rfl
  | x :: xs, s, h => by
    rw [List.forIn_cons] at h
    obtain ⟨r, hr, h⟩ := bind_ok_inv h
    rcases hf x _ r hr with rfl | rfl
    · simp only [pure_ok, Except.ok.injEq] at h
      subst h
      exact Or.inr ⟨x, List.mem_cons_self, rfl⟩
    · rcases forIn_find f hf xs s h with h1 | ⟨y, hy, h1⟩
      · exact Or.inl h1
      · exact Or.inr ⟨y, List.mem_cons_of_mem _ hy, h1⟩

/-- the century `_checksum` returns is 1900 or 2000 -/
theorem be_nn_checksum_closed (t : Date) (n : Str) (c : Int) (h : Gen.be_nn._checksum t n = .ok c) :
    c = 1900 ∨ c = 2000 := by
  unfold Gen.be_nn._checksum at h
  obtain ⟨a, _, h⟩ := bind_ok_inv h
  split at h <;>
  ( dsimp only at h
    obtain ⟨s, hs, hk⟩ := bind_ok_inv h
    have := forIn_find _ (by
      intro x s r hr
      obtain ⟨century, n'⟩ := x
      simp only at hr
      obtain ⟨_, _, hr⟩ := bind_ok_inv hr
      obtain ⟨_, _, hr⟩ := bind_ok_inv hr
      split at hr
      · cases hr; exact Or.inl rfl
      · cases hr; exact Or.inr rfl) _ s hs
    rcases this with h0 | ⟨x, hx, h1⟩
    · rw [h0] at hk; cases hk
    · rw [h1] at hk
      simp only [pure_ok, Except.ok.injEq] at hk
      subst hk
      have := (List.of_mem_zip hx).1
      simpa using this )

theorem be_nn_ok {t : Date} {x v : Str} (h : Gen.be_nn.validate t x = .ok v) :
    AllIn isAsciiDigit v ∧ v.length = 11 := by
  unfold Gen.be_nn.validate Gen.be_nn.compact at h
  invert_validate h
  obtain ⟨hd, hl, _, _, _, _, _, rfl⟩ := h
  simp only [Bool.or_eq_false_iff, Bool.not_eq_false'] at hd
  exact ⟨((isDigitsB_iff _).mp hd.1).2, by omega⟩

/-- the parts `_get_birth_date_parts` reads from an 11-digit number -/
theorem be_nn_parts {t : Date} {v : Str} (hD : AllIn isAsciiDigit v) (hl : v.length = 11) {y m dd : Int}
    (hp : Gen.be_nn._get_birth_date_parts t v = .ok (some y, some m, some dd)) :
    (y = fld v 0 2 + 1900 ∨ y = fld v 0 2 + 2000) ∧ m = fld v 2 4 % 20 ∧ dd = fld v 4 6 := by
  unfold Gen.be_nn._get_birth_date_parts at hp
  have h02 : slice v none (some 2) = slice v (some 0) (some 2) := by
    rw [slice_none_nonneg v (by decide), slice_nonneg_nonneg v (by decide) (by decide)]; rfl
  obtain ⟨c, hc, hp⟩ := bind_ok_inv hp
  have hcc := be_nn_checksum_closed t v c hc
  simp only [h02, bind_ok, intOf_fld hD 0 2 0 2 rfl rfl (by omega) (by omega),
    intOf_fld hD 2 4 2 4 rfl rfl (by omega) (by omega), intOf_fld hD 4 6 4 6 rfl rfl (by omega) (by omega)] at hp
  invert_validate hp
  simp only [Prod.mk.injEq, Option.some.injEq, reduceCtorEq, false_and, and_false, or_false, false_or] at hp
  grind

theorem be_nn_compact_digits {v : Str} (hD : AllIn isAsciiDigit v) : Gen.be_nn.compact v = .ok v := by
  unfold Gen.be_nn.compact
  simp only [clean_eq, bind_ok, pure_ok, digits_clean_strip hD [32, 45, 46] (by decide)]

/-- core: for an 11-digit number, a returned birth date agrees with the digits and with the year/month getters -/
theorem be_nn_date_core (t : Date) (v : Str) (hD : AllIn isAsciiDigit v) (hl : v.length = 11) (d : Date)
    (hd : Gen.be_nn.get_birth_date t v = .ok (some d)) :
    d.Valid ∧ d.day = fld v 4 6 ∧ d.month = fld v 2 4 % 20 ∧ d.year % 100 = fld v 0 2 ∧
      (d.year = fld v 0 2 + 1900 ∨ d.year = fld v 0 2 + 2000) ∧
      Gen.be_nn.get_birth_year t v = .ok (some d.year) ∧ Gen.be_nn.get_birth_month t v = .ok (some d.month) := by
  obtain ⟨hv, hY, hM⟩ := be_nn_year_month_agree t v d hd
  have hy := fld2 hD 0 2
  unfold Gen.be_nn.get_birth_date at hd
  rw [be_nn_compact_digits hD] at hd
  simp only [bind_ok] at hd
  cases hp : Gen.be_nn._get_birth_date_parts t v with
  | error e => rw [hp] at hd; cases hd
  | ok p =>
    obtain ⟨oy, om, od⟩ := p
    rw [hp] at hd
    simp only [bind_ok, pure_ok] at hd
    cases oy <;> cases om <;> cases od <;> simp only [bind_ok, pure_ok] at hd <;> try (cases hd; done)
    rename_i y m dd
    obtain ⟨r, hr, hd⟩ := bind_ok_inv hd
    cases hd
    obtain ⟨_, hyr, hmo, hdd⟩ := mkDate_valid hr
    obtain ⟨h1, h2, h3⟩ := be_nn_parts hD hl hp
    exact ⟨hv, by rw [hdd, h3], by rw [hmo, h2], by omega, by omega, hY, hM⟩

/-- **be.nn**: a birth date returned for an accepted number (any `today` for either call) is a real calendar date,
agrees with the digits (`YYMMDD`, month `+20`/`+40` when the gender is unknown; century 1900 or 2000 as the check
digits say) and with `get_birth_year` / `get_birth_month` -/
theorem be_nn_birth_date (t t' : Date) (x v : Str) (d : Date) (h : Gen.be_nn.validate t x = .ok v)
    (hd : Gen.be_nn.get_birth_date t' v = .ok (some d)) :
    d.Valid ∧ d.day = fld v 4 6 ∧ d.month = fld v 2 4 % 20 ∧ d.year % 100 = fld v 0 2 ∧
      (d.year = fld v 0 2 + 1900 ∨ d.year = fld v 0 2 + 2000) ∧
      Gen.be_nn.get_birth_year t' v = .ok (some d.year) ∧ Gen.be_nn.get_birth_month t' v = .ok (some d.month) := by
  obtain ⟨hD, hl⟩ := be_nn_ok h
  exact be_nn_date_core t' v hD hl d hd

example : Gen.be_nn.validate ⟨2026, 9, 27⟩ (str% "85.07.30-033 28") = .ok (str% "85073003328") ∧
    Gen.be_nn.get_birth_date ⟨2026, 9, 27⟩ (str% "85073003328") = .ok (some ⟨1985, 7, 30⟩) ∧
    Gen.be_nn.get_birth_year ⟨2026, 9, 27⟩ (str% "85073003328") = .ok (some 1985) ∧
    Gen.be_nn.get_birth_month ⟨2026, 9, 27⟩ (str% "85073003328") = .ok (some 7) := by decide +kernel

/-! ## be.bis : same number layout, month `+20` or `+40`; the getters delegate to `be.nn` -/

theorem be_bis_ok {t : Date} {x v : Str} (h : Gen.be_bis.validate t x = .ok v) :
    AllIn isAsciiDigit v ∧ v.length = 11 := by
  unfold Gen.be_bis.validate Gen.be_bis.compact Gen.be_nn.compact at h
  invert_validate h
  obtain ⟨hd, hl, hh⟩ := h
  have hv : strip (cleanP x [32, 45, 46]) = v := by grind
  subst hv
  simp only [Bool.or_eq_false_iff, Bool.not_eq_false'] at hd
  exact ⟨((isDigitsB_iff _).mp hd.1).2, by omega⟩

theorem be_bis_birth_date (t t' : Date) (x v : Str) (d : Date) (h : Gen.be_bis.validate t x = .ok v)
    (hd : Gen.be_bis.get_birth_date t' v = .ok (some d)) :
    d.Valid ∧ d.day = fld v 4 6 ∧ d.month = fld v 2 4 % 20 ∧ d.year % 100 = fld v 0 2 ∧
      (d.year = fld v 0 2 + 1900 ∨ d.year = fld v 0 2 + 2000) ∧
      Gen.be_bis.get_birth_year t' v = .ok (some d.year) ∧ Gen.be_bis.get_birth_month t' v = .ok (some d.month) := by
  obtain ⟨hD, hl⟩ := be_bis_ok h
  have hr : Gen.be_nn.get_birth_date t' v = .ok (some d) := by
    have e : Gen.be_bis.get_birth_date t' v = Gen.be_nn.get_birth_date t' v := by
      unfold Gen.be_bis.get_birth_date
      generalize Gen.be_nn.get_birth_date t' v = r
      cases r <;> rfl
    rw [← e]; exact hd
  obtain ⟨h1, h2, h3, h4, h5, h6, h7⟩ := be_nn_date_core t' v hD hl d hr
  refine ⟨h1, h2, h3, h4, h5, ?_, ?_⟩
  · unfold Gen.be_bis.get_birth_year; rw [h6]
  · unfold Gen.be_bis.get_birth_month; rw [h7]

example : Gen.be_bis.validate ⟨2026, 9, 27⟩ (str% "98.47.28-997.65") = .ok (str% "98472899765") ∧
    Gen.be_bis.get_birth_date ⟨2026, 9, 27⟩ (str% "98472899765") = .ok (some ⟨1998, 7, 28⟩) := by decide +kernel

end Props.C12

#print axioms Props.C12.be_nn_year_month_agree
#print axioms Props.C12.forIn_find
#print axioms Props.C12.be_nn_checksum_closed
#print axioms Props.C12.be_nn_ok
#print axioms Props.C12.be_nn_parts
#print axioms Props.C12.be_nn_date_core
#print axioms Props.C12.be_nn_birth_date
#print axioms Props.C12.be_bis_ok
#print axioms Props.C12.be_bis_birth_date
