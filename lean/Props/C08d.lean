import Gen.ie_vat
import Gen.it_aic
import Gen.meid
import Props.C08p
/-!
# C08 (part d) — `ie.vat.convert` (old → new Irish VAT numbers), `it.aic` (base-32 → base-10), `meid` (decimal → hex)
-/
namespace Props.C08
open Py Spec.Checksum Lemmas.Refine Lemmas.Fold Props.C06 Props.C06Gen Props.C17 Props.C07

/-! ## Irish VAT: old format `dLdddddC` → new format `0dddddd C` -/

/-- `ie.vat.compact` -/
def ieC (x : Str) : Str :=
  if startswith (strip (upper (cleanP x [32, 45]))) [73, 69] = true then
    slice (strip (upper (cleanP x [32, 45]))) (some 2) none
  else strip (upper (cleanP x [32, 45]))

theorem ie_compact_eq (x : Str) : Gen.ie_vat.compact x = .ok (ieC x) := by
  unfold Gen.ie_vat.compact ieC
  simp only [clean_eq, bind_ok, pure_ok]
  split <;> rfl

theorem ie_compact_du {w : Str} (hw : AllIn isDU w) (h : startswith w [73, 69] = false) : ieC w = w := by
  unfold ieC
  rw [du_compact_upper' hw _ (by decide), h]
  rfl

/-- `'WABCDEFGHIJKLMNOPQRSTUV'` -/
abbrev ieAlpha : Str := [87, 65, 66, 67, 68, 69, 70, 71, 72, 73, 74, 75, 76, 77, 78, 79, 80, 81, 82, 83, 84, 85, 86]

theorem ieAlpha_du : ∀ c ∈ ieAlpha, isDU c = true := by decide

/-- the check letter of six digits is the check letter of the same digits with a zero in front -/
theorem ie_calc_zero (a : Str) (ha : AllIn isAsciiDigit a) (hl : a.length = 6) :
    Gen.ie_vat.calc_check_digit (48 :: a) = Gen.ie_vat.calc_check_digit a := by
  have h0 : AllIn isAsciiDigit (48 :: a) := allIn_cons (by decide) ha
  have hc1 : ieC a = a :=
    ie_compact_du (fun c hc => du_of_digit (ha c hc)) (digits_not_startswith ha ⟨73, by simp, by decide⟩)
  have hc2 : ieC (48 :: a) = 48 :: a :=
    ie_compact_du (fun c hc => du_of_digit (h0 c hc)) (digits_not_startswith h0 ⟨73, by simp, by decide⟩)
  unfold Gen.ie_vat.calc_check_digit
  simp only [ie_compact_eq, bind_ok, hc1, hc2]
  rw [zfill_of_digits ha, zfill_eq_self (by simp [hl])]
  simp [hl]

/-- what `ie.vat.validate` checks, on the compact number `n = compact(x)` -/
theorem ie_validate_ok {x v : Str} (h : Gen.ie_vat.validate x = .ok v) :
    v = ieC x ∧ isDigitsB (slice v none (some 1)) = true ∧ isDigitsB (slice v (some 2) (some 7)) = true ∧
      (slice v (some 7) none).all (fun c => ieAlpha.contains c) = true ∧ (v.length = 8 ∨ v.length = 9) ∧
      (isDigitsB (slice v none (some 7)) = false →
        ∃ c1 c7 c0, Py.getItem v 1 = .ok c1 ∧ Py.getItem v 7 = .ok c7 ∧ Py.getItem v 0 = .ok c0 ∧
          Gen.ie_vat.calc_check_digit (slice v (some 2) (some 7) ++ c0) = .ok c7) := by
  unfold Gen.ie_vat.validate at h
  simp only [ie_compact_eq, isdigits_eq, bind_ok, pure_ok, all_strIn] at h
  generalize ieC x = n at h
  cases h1 : isDigitsB (slice n none (some 1)) with
  | false =>
    simp only [h1, Bool.not_false, if_true, bind_ok, raise_error, bind_error] at h
    cases h
  | true =>
  cases h2 : isDigitsB (slice n (some 2) (some 7)) with
  | false =>
    simp only [h1, h2, Bool.not_false, Bool.not_true, Bool.false_eq_true, if_true, if_false, bind_ok, raise_error,
      bind_error] at h
    cases h
  | true =>
  cases h3 : (slice n (some 7) none).all (fun c => ieAlpha.contains c) with
  | false =>
    simp only [h1, h2, h3, Bool.not_false, Bool.not_true, Bool.false_eq_true, if_true, if_false, bind_ok, raise_error,
      bind_error] at h
    cases h
  | true =>
  cases h4 : ([(8 : Int), 9].contains (n.length : Int)) with
  | false =>
    simp only [h1, h2, h3, h4, Bool.not_false, Bool.not_true, Bool.false_eq_true, if_true, if_false, bind_ok,
      raise_error, bind_error] at h
    cases h
  | true =>
  have hl : n.length = 8 ∨ n.length = 9 := by
    simp only [List.contains_cons, List.contains_nil, Bool.or_false, Bool.or_eq_true, beq_iff_eq] at h4
    omega
  simp only [h1, h2, h3, h4, Bool.not_true, Bool.false_eq_true, if_false, bind_ok] at h
  cases hd7 : isDigitsB (slice n none (some 7)) with
  | true =>
    simp only [hd7, if_true] at h
    obtain ⟨c7, _, h⟩ := bind_ok_inv h
    obtain ⟨cs, _, h⟩ := bind_ok_inv h
    split at h
    · cases h
    · cases h
      exact ⟨rfl, h1, h2, h3, hl, fun hc => by rw [hd7] at hc; cases hc⟩
  | false =>
    simp only [hd7, Bool.false_eq_true, if_false] at h
    obtain ⟨c1, hc1, h⟩ := bind_ok_inv h
    split at h
    · obtain ⟨c7, hc7, h⟩ := bind_ok_inv h
      obtain ⟨c0, hc0, h⟩ := bind_ok_inv h
      obtain ⟨cs, hcs, h⟩ := bind_ok_inv h
      split at h
      · cases h
      · rename_i hne
        cases h
        refine ⟨rfl, h1, h2, h3, hl, fun _ => ⟨c1, c7, c0, hc1, hc7, hc0, ?_⟩⟩
        have : c7 = cs := by
          cases hb : (c7 != cs) with
          | true => rw [hb] at hne; exact absurd rfl hne
          | false => simpa using hb
        rw [this]; exact hcs
    · cases h

/-- a digit string with the computed check letter behind it is a valid (new-style) number -/
theorem ie_validate_new (d0 d1 d2 d3 d4 d5 d6 c7 : Nat) (hD : AllIn isAsciiDigit [d0, d1, d2, d3, d4, d5, d6])
    (h7 : ieAlpha.contains c7 = true)
    (hc : Gen.ie_vat.calc_check_digit [d0, d1, d2, d3, d4, d5, d6] = .ok [c7]) :
    Gen.ie_vat.validate [d0, d1, d2, d3, d4, d5, d6, c7] = .ok [d0, d1, d2, d3, d4, d5, d6, c7] := by
  have hDU : AllIn isDU [d0, d1, d2, d3, d4, d5, d6, c7] := by
    intro c hc'
    have : c ∈ [d0, d1, d2, d3, d4, d5, d6] ∨ c = c7 := by
      simp only [List.mem_cons, List.not_mem_nil, or_false] at hc' ⊢
      omega
    rcases this with h | rfl
    · exact du_of_digit (hD c h)
    · exact ieAlpha_du c (by simpa using h7)
  have hst : startswith [d0, d1, d2, d3, d4, d5, d6, c7] [73, 69] = false := by
    cases hs : startswith [d0, d1, d2, d3, d4, d5, d6, c7] [73, 69] with
    | false => rfl
    | true =>
      have := (startswith_eq_take.mp hs).1
      have h0 : d0 = 73 := by simpa using congrArg List.head? this
      have := digit_bounds (hD d0 (by simp))
      omega
  unfold Gen.ie_vat.validate
  simp only [ie_compact_eq, isdigits_eq, bind_ok, pure_ok, all_strIn, ie_compact_du hDU hst]
  have s1 : slice [d0, d1, d2, d3, d4, d5, d6, c7] none (some 1) = [d0] := rfl
  have s2 : slice [d0, d1, d2, d3, d4, d5, d6, c7] (some 2) (some 7) = [d2, d3, d4, d5, d6] := rfl
  have s3 : slice [d0, d1, d2, d3, d4, d5, d6, c7] (some 7) none = [c7] := rfl
  have s4 : slice [d0, d1, d2, d3, d4, d5, d6, c7] none (some 7) = [d0, d1, d2, d3, d4, d5, d6] := rfl
  have s5 : slice [d0, d1, d2, d3, d4, d5, d6, c7] (some 8) none = [] := rfl
  have g7 : Py.getItem [d0, d1, d2, d3, d4, d5, d6, c7] 7 = .ok [c7] := rfl
  have e1 : isDigitsB [d0] = true := (isDigitsB_iff _).mpr ⟨by simp, fun c hc => hD c (by simp at hc; simp [hc])⟩
  have e2 : isDigitsB [d2, d3, d4, d5, d6] = true :=
    (isDigitsB_iff _).mpr ⟨by simp, fun c hc => hD c (by simp at hc ⊢; omega)⟩
  have e3 : isDigitsB [d0, d1, d2, d3, d4, d5, d6] = true := (isDigitsB_iff _).mpr ⟨by simp, hD⟩
  have e4 : ([c7] : Str).all (fun c => ieAlpha.contains c) = true := by
    rw [List.all_cons, h7]; rfl
  have e5 : ([(8 : Int), 9].contains (([d0, d1, d2, d3, d4, d5, d6, c7] : Str).length : Int)) = true := rfl
  simp only [s1, s2, s3, s4, s5, g7, e1, e2, e3, e4, e5, List.append_nil, hc, Bool.not_true, Bool.false_eq_true,
    if_false, if_true, bind_ok, bne_self_eq_false]

/-- `ie.vat.convert` on an old-style number (eight characters, the second one not a digit):
`d L ddddd C` becomes `0 ddddd d C` (identity: the same six digits and check letter), a valid new-style number -/
theorem ie_vat_convert_old (x v : Str) (h : Gen.ie_vat.validate x = .ok v) (hl : v.length = 8)
    (h1 : ∀ c, v[1]? = some c → isAsciiDigit c = false) :
    ∃ c0 c1 m c7, v = c0 :: c1 :: m ++ [c7] ∧ m.length = 5 ∧
      Gen.ie_vat.convert x = .ok (48 :: m ++ [c0, c7]) ∧
      Gen.ie_vat.validate (48 :: m ++ [c0, c7]) = .ok (48 :: m ++ [c0, c7]) := by
  obtain ⟨hv, hd1, hd2, hal, _, hold⟩ := ie_validate_ok h
  obtain ⟨c0, c1, m0, m1, m2, m3, m4, c7, rfl⟩ : ∃ c0 c1 m0 m1 m2 m3 m4 c7, v = [c0, c1, m0, m1, m2, m3, m4, c7] := by
    match v, hl with
    | [c0, c1, m0, m1, m2, m3, m4, c7], _ => exact ⟨c0, c1, m0, m1, m2, m3, m4, c7, rfl⟩
  have hc1 : isAsciiDigit c1 = false := h1 c1 rfl
  have s1 : slice [c0, c1, m0, m1, m2, m3, m4, c7] none (some 1) = [c0] := rfl
  have s2 : slice [c0, c1, m0, m1, m2, m3, m4, c7] (some 2) (some 7) = [m0, m1, m2, m3, m4] := rfl
  have s3 : slice [c0, c1, m0, m1, m2, m3, m4, c7] (some 7) none = [c7] := rfl
  have s4 : slice [c0, c1, m0, m1, m2, m3, m4, c7] none (some 7) = [c0, c1, m0, m1, m2, m3, m4] := rfl
  rw [s1] at hd1
  rw [s2] at hd2
  rw [s3] at hal
  have hc0 : isAsciiDigit c0 = true := by rw [← isdigits_single']; exact hd1
  have hm : AllIn isAsciiDigit [m0, m1, m2, m3, m4] := ((isDigitsB_iff _).mp hd2).2
  have h7 : ieAlpha.contains c7 = true := by simpa using hal
  have hnd : isDigitsB (slice [c0, c1, m0, m1, m2, m3, m4, c7] none (some 7)) = false := by
    rw [s4, isDigitsB_eq_false_iff]
    intro hh
    have := hh.2 c1 (by simp)
    rw [hc1] at this; cases this
  obtain ⟨g1, g7, g0, hg1, hg7, hg0, hcalc⟩ := hold hnd
  have e7 : g7 = [c7] := by
    have : Py.getItem [c0, c1, m0, m1, m2, m3, m4, c7] 7 = .ok [c7] := rfl
    rw [this] at hg7; exact (Except.ok.inj hg7).symm
  have e0 : g0 = [c0] := by
    have : Py.getItem [c0, c1, m0, m1, m2, m3, m4, c7] 0 = .ok [c0] := rfl
    rw [this] at hg0; exact (Except.ok.inj hg0).symm
  rw [s2, e7, e0] at hcalc
  have hD6 : AllIn isAsciiDigit [m0, m1, m2, m3, m4, c0] := by
    intro c hc
    simp only [List.mem_cons, List.not_mem_nil, or_false] at hc
    rcases hc with rfl | rfl | rfl | rfl | rfl | rfl
    · exact hm _ (by simp)
    · exact hm _ (by simp)
    · exact hm _ (by simp)
    · exact hm _ (by simp)
    · exact hm _ (by simp)
    · exact hc0
  refine ⟨c0, c1, [m0, m1, m2, m3, m4], c7, rfl, rfl, ?_, ?_⟩
  · unfold Gen.ie_vat.convert
    simp only [ie_compact_eq, isdigits_eq, bind_ok, pure_ok, ← hv]
    have g1' : Py.getItem [c0, c1, m0, m1, m2, m3, m4, c7] 1 = .ok [c1] := rfl
    have g0' : Py.getItem [c0, c1, m0, m1, m2, m3, m4, c7] 0 = .ok [c0] := rfl
    have e8 : ((([c0, c1, m0, m1, m2, m3, m4, c7] : Str).length : Int) == 8) = true := rfl
    simp only [e8, if_true, g1', g0', bind_ok, isdigits_single', hc1, Bool.not_false, s2, s3]
    rfl
  · apply ie_validate_new 48 m0 m1 m2 m3 m4 c0 c7 (allIn_cons (by decide) hD6) h7
    rw [ie_calc_zero _ hD6 rfl]
    exact hcalc

/-- `ie.vat.convert` leaves every other valid number (new style, or nine characters) alone -/
theorem ie_vat_convert_new (x v : Str) (h : Gen.ie_vat.validate x = .ok v)
    (hnew : v.length ≠ 8 ∨ ∃ c, v[1]? = some c ∧ isAsciiDigit c = true) :
    Gen.ie_vat.convert x = .ok v := by
  obtain ⟨hv, _, _, _, hl, _⟩ := ie_validate_ok h
  unfold Gen.ie_vat.convert
  simp only [ie_compact_eq, isdigits_eq, bind_ok, pure_ok, ← hv]
  rcases hnew with h8 | ⟨c, hc, hcd⟩
  · have e8 : ((v.length : Int) == 8) = false := by
      simp only [beq_eq_false_iff_ne, ne_eq]; omega
    simp only [e8, Bool.false_eq_true, if_false, bind_ok]
  · by_cases h8 : v.length = 8
    · have e8 : ((v.length : Int) == 8) = true := by simp [h8]
      have g1 : Py.getItem v 1 = .ok [c] := by
        rw [getItem_of_nonneg v (by decide) (by simp [h8])]
        have h1' : v[(1 : Int).toNat]? = some c := hc
        rw [List.getElem?_eq_getElem (by simp [h8])] at h1'
        rw [Option.some.inj h1']
      simp only [e8, if_true, g1, bind_ok, isdigits_single', hcd, Bool.not_true, Bool.false_eq_true, if_false]
    · have e8 : ((v.length : Int) == 8) = false := by
        simp only [beq_eq_false_iff_ne, ne_eq]; omega
      simp only [e8, Bool.false_eq_true, if_false, bind_ok]

/-! ## AIC (Italy): base 32 → base 10 (`it.aic.from_base32`; `to_base32` is not translated: `while` loop) -/

/-- `'0123456789BCDFGHJKLMNPQRSTUVWXYZ'` -/
abbrev b32 : Str := [48, 49, 50, 51, 52, 53, 54, 55, 56, 57, 66, 67, 68, 70, 71, 72, 74, 75, 76, 77, 78, 80, 81, 82, 83,
  84, 85, 86, 87, 88, 89, 90]

theorem b32_du : ∀ c ∈ b32, isDU c = true := by decide

/-- `it.aic.compact` of a string of digits and hyphens (what `zfill(str(s), 9)` can produce) -/
theorem aic_compact_dh {w : Str} (hw : AllIn (fun c => isAsciiDigit c || c == 45) w) :
    strip (upper (cleanP w [32])) = w := by
  have hb : ∀ c ∈ w, (48 ≤ c ∧ c ≤ 57) ∨ c = 45 := by
    intro c hc
    have := hw c hc
    simp only [isAsciiDigit, Bool.or_eq_true, Bool.and_eq_true, decide_eq_true_eq, beq_iff_eq] at this
    exact this
  have h1 : cleanP w [32] = w := by
    apply cleanP_eq_self
    intro c hc
    refine ⟨cm_of_ascii_ne (by have := hb c hc; omega) (by have := hb c hc; omega), ?_⟩
    have := hb c hc
    simp only [List.contains_cons, List.contains_nil, Bool.or_false, beq_eq_false_iff_ne, ne_eq]
    omega
  have hA : AllIn isAscii w := by
    intro c hc
    have := hb c hc
    simp only [isAscii, decide_eq_true_eq]
    omega
  have h2 : upper w = w := by
    apply upper_eq_self_of_no_lower hA
    intro c hc
    have := hb c hc
    simp only [isAsciiLower, Bool.and_eq_false_iff, decide_eq_false_iff_not]
    omega
  have h3 : strip w = w := by
    apply strip_eq_self_of_no_space
    intro c hc
    have := hb c hc
    rw [Uni.isSpace_ascii (by omega)]
    simp only [Bool.or_eq_false_iff, Bool.and_eq_false_iff, decide_eq_false_iff_not]
    omega
  rw [h1, h2, h3]

theorem aic_compact_eq (x : Str) : Gen.it_aic.compact x = .ok (strip (upper (cleanP x [32]))) := by
  unfold Gen.it_aic.compact
  simp only [clean_eq, bind_ok, pure_ok]

/-- what `from_base32` returns is a string of digits and hyphens -/
theorem aic_from_base32_shape {n w : Str} (h : Gen.it_aic.from_base32 n = .ok w) :
    AllIn (fun c => isAsciiDigit c || c == 45) w := by
  unfold Gen.it_aic.from_base32 at h
  simp only [aic_compact_eq, bind_ok, pure_ok] at h
  split at h
  · cases h
  · obtain ⟨l, _, h⟩ := bind_ok_inv h
    cases h
    apply AllIn.zfill (strOfInt_allIn _) (by decide)

/-- a six-character base-32 AIC: `validate` returns the base-10 number `from_base32` computes (identity: the value
`Σ digit·32^i` written with nine digits), and that number is itself valid (target-valid) -/
theorem aic_base32_to_base10 (n v : Str) (hn : ∀ c ∈ n, c ∈ b32) (hl : n.length = 6)
    (h : Gen.it_aic.validate n = .ok v) :
    Gen.it_aic.from_base32 n = .ok v ∧ Gen.it_aic.validate_base10 v = .ok v ∧ Gen.it_aic.validate v = .ok v := by
  have hDU : AllIn isDU n := fun c hc => b32_du c (hn c hc)
  have hc : strip (upper (cleanP n [32])) = n := du_compact_upper' hDU _ (by decide)
  unfold Gen.it_aic.validate Gen.it_aic.validate_base32 at h
  simp only [aic_compact_eq, bind_ok, hc] at h
  have e6 : ((n.length : Int) == 6) = true := by simp [hl]
  have e6' : ((n.length : Int) != 6) = false := by simp [hl]
  simp only [e6, e6', if_true, Bool.false_eq_true, if_false] at h
  obtain ⟨w, hw, h⟩ := bind_ok_inv h
  have hwc := aic_compact_dh (aic_from_base32_shape hw)
  -- `validate_base10 w = ok v` returns `compact w = w`
  have hvw : v = w := by
    have h' := h
    unfold Gen.it_aic.validate_base10 at h'
    simp only [aic_compact_eq, bind_ok, pure_ok, hwc, isdigits_eq] at h'
    split at h'
    · cases h'
    · split at h'
      · cases h'
      · obtain ⟨_, _, h'⟩ := bind_ok_inv h'
        split at h'
        · cases h'
        · obtain ⟨_, _, h'⟩ := bind_ok_inv h'
          obtain ⟨_, _, h'⟩ := bind_ok_inv h'
          split at h'
          · cases h'
          · cases h'; rfl
  subst hvw
  refine ⟨hw, h, ?_⟩
  have h9 : v.length = 9 := by
    have h' := h
    unfold Gen.it_aic.validate_base10 at h'
    simp only [aic_compact_eq, bind_ok, pure_ok, hwc] at h'
    split at h'
    · cases h'
    · rename_i hlen
      apply Classical.byContradiction
      intro hh
      apply hlen
      simp only [bne_iff_ne, ne_eq]
      omega
  unfold Gen.it_aic.validate
  simp only [aic_compact_eq, bind_ok, hwc]
  have e6v : ((v.length : Int) == 6) = false := by simp [h9]
  simp only [e6v, Bool.false_eq_true, if_false, h]

/-! ## Non-vacuity: the docstring numbers -/
section Examples

theorem ex_ievat_old : Gen.ie_vat.validate (str% "IE 8Z49289F") = .ok (str% "8Z49289F") := by decide +kernel
example : ∃ c0 c1 m c7, str% "8Z49289F" = c0 :: c1 :: m ++ [c7] ∧ m.length = 5 ∧
    Gen.ie_vat.convert (str% "IE 8Z49289F") = .ok (48 :: m ++ [c0, c7]) ∧
    Gen.ie_vat.validate (48 :: m ++ [c0, c7]) = .ok (48 :: m ++ [c0, c7]) :=
  ie_vat_convert_old _ _ ex_ievat_old rfl (by intro c hc; cases hc; decide)
example : Gen.ie_vat.convert (str% "IE 8Z49289F") = .ok (str% "0492898F") := by decide +kernel
theorem ex_ievat_new : Gen.ie_vat.validate (str% "IE 6433435F") = .ok (str% "6433435F") := by decide +kernel
example : Gen.ie_vat.convert (str% "IE 6433435F") = .ok (str% "6433435F") :=
  ie_vat_convert_new _ _ ex_ievat_new (Or.inr ⟨52, rfl, rfl⟩)

theorem ex_aic32 : Gen.it_aic.validate (str% "009CVD") = .ok (str% "000307052") := by decide +kernel
example : Gen.it_aic.from_base32 (str% "009CVD") = .ok (str% "000307052") ∧
    Gen.it_aic.validate_base10 (str% "000307052") = .ok (str% "000307052") ∧
    Gen.it_aic.validate (str% "000307052") = .ok (str% "000307052") :=
  aic_base32_to_base10 _ _ (by decide) rfl ex_aic32

end Examples

end Props.C08
