import Lemmas.Util
import Lemmas.Unicode
/-!
# C14 — character clean-up never changes the value of a number

Theorems about the *generated* `Gen.util.clean` / `Gen.util._char_map` (regenerated from
`stdnum/util.py` on every run).  `Py.cm` is the per-character function denoted by the generated table,
`Py.cleanP s d = (s.map cm).filter (· ∉ d)`; `Py.clean_eq` (Lemmas.Util) proves that the translated
`clean` computes exactly `cleanP` for every string.  The Unicode facts (`Uni.decimal?`, `Uni.isZs`) are
the oracle tables generated from the running interpreter (trusted base).

All statements quantify over every code point / every string / every delete set.
-/
open Py

namespace Props.C14

/-- kernel-evaluated over the whole generated table: a digit value only for a character whose Unicode
decimal value is that digit; a space only for a `Zs` character; no value is a letter -/
theorem table_facts : ∀ p ∈ Gen.util._char_map, ∀ k ∈ p.1, ∀ v ∈ p.2,
    (isAsciiDigit v = true → Uni.decimal? k = some (v - 48)) ∧
    (v = 32 → Uni.isZs k = true) ∧
    isAsciiAlpha v = false := by decide +kernel

theorem cm_table (c : Nat) (h : cm c ≠ c) :
    (isAsciiDigit (cm c) = true → Uni.decimal? c = some (cm c - 48)) ∧
    (cm c = 32 → Uni.isZs c = true) ∧ isAsciiAlpha (cm c) = false := by
  rcases cm_cases c with h' | h'
  · exact absurd h' h
  · exact table_facts _ h' c (by simp) (cm c) (by simp)

/-- a character is turned into digit `d` only if Unicode assigns it the decimal value `d` -/
theorem digit_only_from_decimal (c : Nat) (h : isAsciiDigit (cm c) = true) :
    Uni.decimal? c = some (cm c - 48) := by
  by_cases hc : cm c = c
  · rw [hc] at h ⊢; exact Uni.decimal?_of_asciiDigit h
  · exact (cm_table c hc).1 h

/-- only Unicode space separators become a space -/
theorem space_only_from_Zs (c : Nat) (h : cm c = 32) : Uni.isZs c = true := by
  by_cases hc : cm c = c
  · have : c = 32 := by rw [← hc, h]
    subst this; decide
  · exact (cm_table c hc).2.1 h

/-- ASCII letters and digits are never altered -/
theorem ascii_alnum_fixed (c : Nat) (h : isAsciiAlnum c = true) : cm c = c := cm_ascii_alnum h

/-- no letter is ever produced from another character -/
theorem no_new_letter (c : Nat) (h : isAsciiAlpha (cm c) = true) : cm c = c := by
  by_cases hc : cm c = c
  · exact hc
  · have := (cm_table c hc).2.2; rw [h] at this; cases this

/-- no digit is ever produced from a non-digit -/
theorem no_new_digit (c : Nat) (h : isAsciiDigit (cm c) = true) : Uni.decimal? c ≠ none := by
  rw [digit_only_from_decimal c h]; simp

/-- cleaned values are fixed points -/
theorem cm_idempotent (c : Nat) : cm (cm c) = cm c := cm_idem c

/-- the translated `clean` never raises on a string and computes `cleanP` -/
theorem clean_total (s d : Str) : Gen.util.clean s d = .ok (cleanP s d) := clean_eq s d

/-- order and count: the result is the image of a sub-sequence of the input -/
theorem clean_order (s d : Str) : (cleanP s d).Sublist (s.map cm) := cleanP_sublist s d

theorem clean_length (s d : Str) : (cleanP s d).length ≤ s.length := cleanP_length_le s d

/-- without delete set the count of characters is kept exactly -/
theorem clean_length_nodelete (s : Str) : (cleanP s []).length = s.length := by
  unfold cleanP
  rw [List.filter_eq_self.mpr (by intro a _; simp), List.length_map]

/-- the result contains none of the characters asked to be deleted -/
theorem clean_none_deleted (s d : Str) : ∀ c ∈ cleanP s d, c ∉ d := fun _ h => not_mem_of_mem_cleanP h

/-- cleaning twice equals cleaning once -/
theorem clean_idempotent (s d : Str) : cleanP (cleanP s d) d = cleanP s d := cleanP_idem s d

theorem clean_idempotent_gen (s d : Str) :
    (do let a ← Gen.util.clean s d; Gen.util.clean a d) = Gen.util.clean s d := by
  simp [clean_eq, bind, Except.bind, cleanP_idem]

/-- two spellings with the same character-wise clean-up clean to the same string -/
theorem clean_congr (s t d : Str) (h : s.map cm = t.map cm) : Gen.util.clean s d = Gen.util.clean t d := by
  simp [clean_eq, cleanP, h]

/-- a look-alike spelling: every character replaced by one with the same clean-up -/
theorem clean_lookalike (s t d : Str) (hl : s.length = t.length)
    (h : ∀ i (h1 : i < s.length) (h2 : i < t.length), cm s[i] = cm t[i]) :
    Gen.util.clean s d = Gen.util.clean t d := by
  apply clean_congr
  apply List.ext_getElem (by simpa using hl)
  intro i h1 h2
  simp only [List.getElem_map]
  exact h i (by simpa using h1) (by simpa using h2)

/-! non-vacuity: FULLWIDTH DIGIT THREE, EN DASH, IDEOGRAPHIC SPACE -/
example : cm 0xFF13 = 51 ∧ cm 0x2013 = 45 ∧ cm 0x3000 = 32 ∧ cm 65 = 65 := by decide +kernel
example : Gen.util.clean [0xFF11, 0x2013, 50, 0x3000, 51] [32, 45] = .ok [49, 50, 51] := by
  rw [clean_eq]; congr 1
example : Uni.decimal? 0xFF13 = some 3 := by decide +kernel

end Props.C14

#print axioms Props.C14.table_facts
#print axioms Props.C14.digit_only_from_decimal
#print axioms Props.C14.space_only_from_Zs
#print axioms Props.C14.ascii_alnum_fixed
#print axioms Props.C14.no_new_letter
#print axioms Props.C14.no_new_digit
#print axioms Props.C14.cm_idempotent
#print axioms Props.C14.clean_total
#print axioms Props.C14.clean_order
#print axioms Props.C14.clean_length
#print axioms Props.C14.clean_length_nodelete
#print axioms Props.C14.clean_none_deleted
#print axioms Props.C14.clean_idempotent
#print axioms Props.C14.clean_idempotent_gen
#print axioms Props.C14.clean_congr
#print axioms Props.C14.clean_lookalike
