import Gen.se_personnummer
import Gen.eu_at_02
import Gen.at_uid
import Gen.nl_btw
import Gen.es_cif
import Props.C17b
/-!
# C17, continued (2) — `se.personnummer`, `eu.at_02`, `at.uid`, `nl.btw`, `es.cif` (`isan`: `Props/C17d.lean`)
-/
namespace Props.C17
open Py Spec.Checksum Lemmas.Refine Lemmas.Fold Props.C06 Props.C06Gen

/-! ## stdnum.se.personnummer (`YYMMDD-NNNC` or `YYYYMMDD-NNNC`, separator `-`/`+`; Luhn over the last ten digits) -/

/-- the shape of a compact personnummer: 6 or 8 digits, `-` or `+`, 4 digits -/
def PnShape (v A : Str) (s : Nat) (B : Str) : Prop :=
  v = A ++ s :: B ∧ B.length = 4 ∧ (A.length = 6 ∨ A.length = 8) ∧ (s = 45 ∨ s = 43) ∧
    AllIn isAsciiDigit A ∧ AllIn isAsciiDigit B

theorem filter_ne_of_digits {A : Str} (hA : AllIn isAsciiDigit A) (k : Nat) (hk : isAsciiDigit k = false) :
    A.filter (fun a => a != k) = A := by
  rw [List.filter_eq_self]
  intro a ha
  have := hA a ha
  simp only [bne_iff_ne, ne_eq]
  intro e
  rw [e, hk] at this
  cases this

theorem pn_compact {v A B : Str} {s : Nat} (h : PnShape v A s B) : Gen.se_personnummer.compact v = .ok v := by
  obtain ⟨rfl, hB, hA, hs, hDA, hDB⟩ := h
  have hclean : cleanP (A ++ s :: B) [32, 58] = A ++ s :: B := by
    apply cleanP_eq_self
    intro c hc
    have hcl : isAsciiDigit c = true ∨ c = 45 ∨ c = 43 := by
      rcases List.mem_append.mp hc with h | h
      · exact Or.inl (hDA c h)
      · rcases List.mem_cons.mp h with h | h
        · rcases hs with e | e <;> simp [h, e]
        · exact Or.inl (hDB c h)
    rcases hcl with h | h | h
    · have := digit_bounds h
      refine ⟨cm_ascii_digit h, ?_⟩
      simp only [List.contains_eq_mem, List.mem_cons, List.not_mem_nil, or_false, decide_eq_false_iff_not]
      omega
    · subst h; exact ⟨by decide +kernel, by decide⟩
    · subst h; exact ⟨by decide +kernel, by decide⟩
  have hlen : (A ++ s :: B).length = A.length + 5 := by simp [hB]
  unfold Gen.se_personnummer.compact
  simp only [clean_eq, bind_ok, pure_ok, hclean]
  have hnc : ([10, 12] : List Int).contains ((A ++ s :: B).length : Int) = false := by
    rw [hlen]
    simp only [List.contains_eq_mem, List.mem_cons, List.not_mem_nil, or_false, decide_eq_false_iff_not]
    omega
  simp only [hnc, Bool.false_eq_true, if_false, bind_ok]
  rw [slice_none_neg _ (by decide), slice_neg_none _ (by decide), hlen]
  have e1 : A.length + 5 - Int.toNat 5 = A.length := by simp
  rw [e1, List.take_left' rfl, List.drop_left' rfl, replace_single_nil, replace_single_nil,
    filter_ne_of_digits hDA 45 (by decide), filter_ne_of_digits hDA 43 (by decide)]

theorem se_pn_ok (t : Date) (x v : Str) (h : Gen.se_personnummer.validate t x = .ok v) :
    ((∃ A s B, PnShape x A s B) → v = x) ∧
      (∃ A s B, PnShape v A s B ∧ isOk (Gen.luhn.validate (A.drop (A.length - 6) ++ B) d10) = true) := by
  unfold Gen.se_personnummer.validate at h
  invert_validate h
  obtain ⟨a, hc, hlen, b, ⟨a2, hget, hsep⟩, hb, _, _, a3, hl, rfl⟩ := h
  subst hb
  refine ⟨fun ⟨A, s, B, hx⟩ => ?_, ?_⟩
  · rw [pn_compact hx] at hc
    cases hc
    rfl
  · have hlen' : a.length = 11 ∨ a.length = 13 := by
      simp only [List.contains_eq_mem, List.mem_cons, List.not_mem_nil, or_false, decide_eq_true_eq] at hlen
      omega
    have h5 : (-(-5 : Int)).toNat ≤ a.length := by simp; omega
    rw [getItem_of_neg a (by decide) h5] at hget
    cases hget
    rcases hsep with ⟨_, h⟩ | ⟨hs, hd⟩
    · cases h
    rw [slice_none_neg _ (by decide), slice_neg_none _ (by decide)] at hd hl
    simp only [Int.neg_neg, Int.reduceToNat, Bool.not_eq_false'] at hd hl hs
    have hD := digits_of_isDigitsB hd
    rw [slice_neg_none _ (by decide)] at hl
    simp only [Int.reduceToNat, List.length_append, List.length_take, List.length_drop] at hl
    refine ⟨a.take (a.length - 5), a[a.length - 5]'(by omega), a.drop (a.length - 4), ⟨?_, ?_, ?_, ?_, ?_, ?_⟩, ?_⟩
    · conv => lhs; rw [← List.take_append_drop (a.length - 5) a]
      congr 1
      rw [List.drop_eq_getElem_cons (by omega)]
      congr 2
      omega
    · simp; omega
    · simp; omega
    · simpa [List.contains_eq_mem] using hs
    · exact fun c hc => hD c (List.mem_append_left _ hc)
    · exact fun c hc => hD c (List.mem_append_right _ hc)
    · have e : (a.length - 5 + (a.length - (a.length - 4)) - 10) = (a.take (a.length - 5)).length - 6 := by
        simp; omega
      have hm : min (a.length - 5) a.length = a.length - 5 := by omega
      rw [hm] at hl
      rw [List.drop_append_of_le_length (by simp; omega)] at hl
      rw [e] at hl
      exact isOk_true_of_ok hl

theorem pnShape_unique {v A A' B B' : Str} {s s' : Nat} (h : PnShape v A s B) (h' : PnShape v A' s' B') :
    A = A' ∧ s = s' ∧ B = B' := by
  obtain ⟨rfl, hB, _⟩ := h
  obtain ⟨e, hB', _⟩ := h'
  have hl : A.length = A'.length := by
    have := congrArg List.length e
    simp only [List.length_append, List.length_cons, hB, hB'] at this
    omega
  obtain ⟨e1, e2⟩ := List.append_inj e hl
  cases e2
  exact ⟨e1, rfl, rfl⟩

/-- personnummer: the Luhn digit protects the last ten digits (all of `YYMMDD-NNNC`; not the century digits of
`YYYYMMDD-NNNC`).  `today` only matters for the date check and may differ between the two calls. -/
theorem se_personnummer_single_error_partial (today today' : Date) (x v : Str)
    (h : Gen.se_personnummer.validate today x = .ok v)
    (i c : Nat) (hi : i < v.length) (hcov : v.length ≤ i + 11)
    (hd : isAsciiDigit v[i] = true) (hc : isAsciiDigit c = true) (hne : c ≠ v[i]) :
    isOk (Gen.se_personnummer.validate today' (v.set i c)) = false := by
  obtain ⟨_, A, s, B, hsh, hL⟩ := se_pn_ok today x v h
  obtain ⟨rfl, hB, hA, hs, hDA, hDB⟩ := hsh
  have hlen : (A ++ s :: B).length = A.length + 5 := by simp [hB]
  have hDsel : AllIn isAsciiDigit (A.drop (A.length - 6) ++ B) := by
    intro k hk
    rcases List.mem_append.mp hk with h1 | h1
    · exact hDA k (List.mem_of_mem_drop h1)
    · exact hDB k h1
  rw [hlen] at hcov hi
  rcases Nat.lt_trichotomy i A.length with hlt | heq | hgt
  · -- inside the date part
    have hw : (A ++ s :: B).set i c = A.set i c ++ s :: B := List.set_append_left _ _ hlt
    have hsh' : PnShape ((A ++ s :: B).set i c) (A.set i c) s B :=
      ⟨hw, hB, by simpa using hA, hs, allIn_set hDA i c hc, hDB⟩
    refine reject_of_ok (se_pn_ok today') ⟨_, _, _, hsh'⟩ ?_
    intro ⟨A', s', B', hsh'', hL'⟩
    obtain ⟨rfl, rfl, rfl⟩ := pnShape_unique hsh' hsh''
    have hj : i - (A.length - 6) < (A.drop (A.length - 6) ++ B).length := by simp; omega
    have e : (A.set i c).drop ((A.set i c).length - 6) ++ B =
        (A.drop (A.length - 6) ++ B).set (i - (A.length - 6)) c := by
      rw [List.length_set, List.drop_set, if_neg (by omega), List.set_append_left _ _ (by simp; omega)]
    have hg : (A.drop (A.length - 6) ++ B)[i - (A.length - 6)] = (A ++ s :: B)[i] := by
      rw [List.getElem_append_left (by simp; omega), List.getElem_append_left hlt, List.getElem_drop]
      congr 1
      omega
    rw [e, luhn_detects _ _ c hj hDsel hc (by rw [hg]; exact hne) hL] at hL'
    cases hL'
  · -- the separator is not a digit
    subst heq
    exfalso
    have : (A ++ s :: B)[A.length] = s := by simp
    rw [this] at hd
    rcases hs with rfl | rfl <;> cases hd
  · -- inside the serial part
    obtain ⟨k, rfl⟩ : ∃ k, i = A.length + 1 + k := ⟨i - A.length - 1, by omega⟩
    have hw : (A ++ s :: B).set (A.length + 1 + k) c = A ++ s :: B.set k c := by
      rw [List.set_append_right _ _ (by omega)]
      have : A.length + 1 + k - A.length = k + 1 := by omega
      rw [this, List.set_cons_succ]
    have hsh' : PnShape ((A ++ s :: B).set (A.length + 1 + k) c) A s (B.set k c) :=
      ⟨hw, by simpa using hB, hA, hs, hDA, allIn_set hDB _ c hc⟩
    refine reject_of_ok (se_pn_ok today') ⟨_, _, _, hsh'⟩ ?_
    intro ⟨A', s', B', hsh'', hL'⟩
    obtain ⟨rfl, rfl, rfl⟩ := pnShape_unique hsh' hsh''
    have hdl : (A.drop (A.length - 6)).length = 6 := by simp; omega
    have hj : 6 + k < (A.drop (A.length - 6) ++ B).length := by
      rw [List.length_append, hdl]; omega
    have e : A.drop (A.length - 6) ++ B.set k c = (A.drop (A.length - 6) ++ B).set (6 + k) c := by
      rw [List.set_append_right _ _ (by omega), hdl]
      congr 2
      omega
    have hg : (A.drop (A.length - 6) ++ B)[6 + k] = (A ++ s :: B)[A.length + 1 + k] := by
      rw [List.getElem_append_right (by omega), List.getElem_append_right (by omega)]
      have : A.length + 1 + k - A.length = k + 1 := by omega
      simp only [hdl, this, List.getElem_cons_succ]
      congr 1
      omega
    rw [e, luhn_detects _ _ c hj hDsel hc (by rw [hg]; exact hne) hL] at hL'
    cases hL'

theorem ex_pn : Gen.se_personnummer.validate ⟨2026, 9, 27⟩ (str% "880320-0016") = .ok (str% "880320-0016") := by
  decide +kernel
example : isOk (Gen.se_personnummer.validate ⟨2026, 9, 27⟩ (str% "880320-0018")) = false :=
  se_personnummer_single_error_partial _ _ _ _ ex_pn 10 56 (by decide) (by decide) (by decide) (by decide)
    (by decide)
theorem ex_pn13 :
    Gen.se_personnummer.validate ⟨2026, 9, 27⟩ (str% "19880320-0016") = .ok (str% "19880320-0016") := by
  decide +kernel
example : isOk (Gen.se_personnummer.validate ⟨2026, 9, 27⟩ (str% "19880321-0016")) = false :=
  se_personnummer_single_error_partial _ _ _ _ ex_pn13 7 49 (by decide) (by decide) (by decide) (by decide)
    (by decide)

/-- the full-strength statement is **false** of the code: in the 13-character form the two century digits are
not covered by the check digit.  `19880320-0016` → `18880320-0016`, both accepted. -/
theorem se_personnummer_single_error_false :
    ¬ ∀ (today : Date) (x v : Str), Gen.se_personnummer.validate today x = .ok v →
      ∀ (i c : Nat) (hi : i < v.length), isAsciiDigit v[i] = true → isAsciiDigit c = true → c ≠ v[i] →
        isOk (Gen.se_personnummer.validate today (v.set i c)) = false := by
  intro H
  have := H _ _ _ ex_pn13 1 56 (by decide) (by decide) (by decide) (by decide)
  revert this
  decide +kernel

/-! ## stdnum.eu.at_02 (SEPA creditor identifier: Mod 97-10 over `number[7:] + number[:4]`) -/

/-- `number[7:] + number[:4]` -/
def rot7 (v : Str) : Str := v.drop 7 ++ v.take 4

/-- `''.join(str(_alphabet.index(x)) for x in r)` -/
def at02T (r : Str) : R Str :=
  r.mapM (fun c => natToStr <$> Spec.Checksum.index a36 c) >>= fun parts => .ok parts.flatten

theorem at02_to_base10_eq (n : Str) : Gen.eu_at_02._to_base10 n = at02T (rot7 n) := by
  unfold Gen.eu_at_02._to_base10 at02T rot7
  rw [slice_nonneg_none n (by decide), slice_none_nonneg n (by decide)]
  have hmap := mapM_sim id (fun c => [c])
    (fun (x : Str) => do pure (Py.strOfInt (← Py.index a36 x)))
    (fun c => natToStr <$> Spec.Checksum.index a36 c) (n.drop 7 ++ n.take 4) (fun c _ => by
      rw [index_single]
      cases Spec.Checksum.index a36 c with
      | error e => rfl
      | ok v => simp only [map_ok, bind_ok, pure_ok, id]; rw [strOfInt_natCast_eq])
  simp only [Py.chars, Int.reduceToNat]
  rw [hmap]
  cases (n.drop 7 ++ n.take 4).mapM (fun c => natToStr <$> Spec.Checksum.index a36 c) with
  | error e => rfl
  | ok parts => simp only [map_ok, bind_ok, pure_ok, List.map_id, join_nil_left]

theorem index_a36 : ∀ c < 128, isDU c = true → Spec.Checksum.index a36 c = .ok (b36Val c) := by decide +kernel

theorem mapM_congr_mem {α β : Type} (f g : α → R β) : ∀ (l : List α), (∀ a ∈ l, f a = g a) → l.mapM f = l.mapM g
  | [], _ => rfl
  | a :: l, h => by
    rw [List.mapM_cons, List.mapM_cons, h a List.mem_cons_self,
      mapM_congr_mem f g l (fun b hb => h b (List.mem_cons_of_mem _ hb))]

theorem at02T_du {r t : Str} (h : at02T r = .ok t) : AllIn isDU r := by
  unfold at02T at h
  obtain ⟨parts, hm, _⟩ := bind_eq_ok.mp h
  intro c hc
  obtain ⟨w, hw⟩ := mapM_ok_forall _ r parts hm c hc
  cases hi : Spec.Checksum.index a36 c with
  | error e => rw [hi] at hw; cases hw
  | ok k => exact mem_alpha36.mp (index_ok_mem hi)

theorem du_lt_128 {c : Nat} (h : isDU c = true) : c < 128 := by
  simp only [isDU, isAsciiDigit, isAsciiUpper, Bool.or_eq_true, Bool.and_eq_true, decide_eq_true_eq] at h
  omega

theorem at02T_eq {r : Str} (hr : AllIn isDU r) : at02T r = Mod9710.toBase10 pyB36 r := by
  unfold at02T Mod9710.toBase10
  rw [mapM_congr_mem _ (fun x => do
      let v ← intChar pyB36 x
      pure (natToStr v)) r (fun c hc => by
        have hd := hr c hc
        rw [index_a36 c (du_lt_128 hd) hd, intChar_ok pyB36 c (b36Val c)
          ((alnum_spec pyB36_extends (fun x hx => alnum_of_du (hr x hx)) c hc).1)]
        rfl)]
  rfl

/-- on a digit string `_to_base10` of `mod_97_10` is the identity -/
theorem toBase10_digits_self {t : Str} (ht : AllIn isAsciiDigit t) : Mod9710.toBase10 pyB36 t = .ok t := by
  rw [Mod9710.toBase10_eq pyB36 b36Val t
    (fun c hc => (alnum_spec pyB36_extends (fun x hx => digit_alnum (ht x hx)) c hc).1)]
  congr 1
  induction t with
  | nil => rfl
  | cons a t ih =>
    have ha := ht a List.mem_cons_self
    have hb := digit_bounds ha
    rw [List.map_cons, List.flatten_cons, ih (fun x hx => ht x (List.mem_cons_of_mem _ hx)),
      (b36Val_of_digit ha).1]
    have : natToStr (a - 48) = [a] := by
      unfold natToStr natToStrAux
      rw [if_pos (by omega)]
      congr 1
      omega
    rw [this]
    rfl

/-- `mod_97_10.validate` of the converted number succeeds iff it does on the alphanumeric original -/
theorem at02_validate_isOk {r t : Str} (h : Mod9710.toBase10 pyB36 r = .ok t) :
    isOk (Gen.iso7064_mod_97_10.validate t) = isOk (Gen.iso7064_mod_97_10.validate r) := by
  have ht := toBase10_digits r t h
  rw [mod_97_10_validate_eq, mod_97_10_validate_eq]
  unfold Mod9710.validate
  have hck : Mod9710.checksum pyB36 defaultMaxDigits t = Mod9710.checksum pyB36 defaultMaxDigits r := by
    unfold Mod9710.checksum
    rw [toBase10_digits_self ht, h]
  rw [hck]
  cases hc : Mod9710.checksum pyB36 defaultMaxDigits r with
  | error e => rw [validateBody_of_error _ e _ _ rfl, validateBody_of_error _ e _ _ rfl]
  | ok k =>
    rw [validateBody_of_ok _ k _ _ rfl, validateBody_of_ok _ k _ _ rfl]
    split <;> rfl

theorem tryCatch_eq_ok {α : Type} {m : R α} {h : Exc → R α} {p : α} :
    tryCatch m h = .ok p ↔ m = .ok p ∨ ∃ e, m = .error e ∧ h e = .ok p := by
  cases m with
  | ok a => simp [tryCatch, tryCatchThe, MonadExceptOf.tryCatch, Except.tryCatch]
  | error e => simp [tryCatch, tryCatchThe, MonadExceptOf.tryCatch, Except.tryCatch]

theorem asciiOnly_ok {s t : Str} (h : Py.asciiOnly s = .ok t) : t = s := by
  unfold Py.asciiOnly at h
  split at h
  · cases h; rfl
  · cases h

theorem du_clean {w : Str} (hw : AllIn isDU w) (d : Str) (hd : ∀ c ∈ d, isDU c = false) : cleanP w d = w := by
  apply cleanP_eq_self
  intro c hc
  refine ⟨cm_ascii_alnum (alnum_of_du (hw c hc)), ?_⟩
  cases hcd : d.contains c with
  | false => rfl
  | true =>
    have := hd c (by simpa using hcd)
    rw [hw c hc] at this
    cases this

theorem at02_ok (x v : Str) (h : Gen.eu_at_02.validate x = .ok v) :
    (AllIn isDU x → v = x) ∧
      (AllIn isDU (rot7 v) ∧ isOk (Gen.iso7064_mod_97_10.validate (rot7 v)) = true) := by
  unfold Gen.eu_at_02.validate Gen.eu_at_02.compact at h
  simp only [clean_eq, bind_ok, pure_ok] at h
  generalize hn : upper (strip (cleanP x [32, 45, 47, 63, 58, 40, 41, 46, 109, 39, 43, 34])) = n at h
  obtain ⟨p, hp, h⟩ := bind_eq_ok.mp h
  obtain ⟨r, hr, h⟩ := bind_eq_ok.mp h
  cases h
  refine ⟨fun hx => ?_, ?_⟩
  · rw [← hn, du_clean hx _ (by decide), strip_eq_self_of_asciiAlnum x (fun c hc => alnum_of_du (hx c hc)),
      upper_of_asciiDigitOrUpper hx]
  · rcases tryCatch_eq_ok.mp hp with hp | ⟨e, _, hp⟩
    · obtain ⟨a, ha, hp⟩ := bind_eq_ok.mp hp
      obtain ⟨t, ht, hp⟩ := bind_eq_ok.mp hp
      cases hp
      obtain rfl := asciiOnly_ok ha
      rw [at02_to_base10_eq] at ht
      have hdu := at02T_du ht
      rw [at02T_eq hdu] at ht
      refine ⟨hdu, ?_⟩
      rw [← at02_validate_isOk ht]
      exact isOk_true_of_ok hr
    · split at hp <;> cases hp

/-- position of `v[i]` in `v[7:] + v[:4]` -/
def rot7Idx (n i : Nat) : Nat := if i < 4 then n - 7 + i else i - 7

theorem rot7_set (v : Str) (i c : Nat) (hi : i < v.length) (hpos : i < 4 ∨ 7 ≤ i) :
    rot7 (v.set i c) = (rot7 v).set (rot7Idx v.length i) c := by
  unfold rot7 rot7Idx
  by_cases h4 : i < 4
  · rw [if_pos h4, List.drop_set_of_lt (by omega), List.take_set, List.set_append_right _ _ (by simp),
      List.length_drop]
    congr 2
    omega
  · rw [if_neg h4, List.drop_set, if_neg (by omega), List.take_set_of_le (by omega)]
    rw [List.set_append_left _ _ (by simp; omega)]

theorem rot7_get (v : Str) (i : Nat) (hi : i < v.length) (hpos : i < 4 ∨ 7 ≤ i)
    (hj : rot7Idx v.length i < (rot7 v).length) : (rot7 v)[rot7Idx v.length i] = v[i] := by
  unfold rot7 rot7Idx at *
  by_cases h4 : i < 4
  · simp only [if_pos h4] at hj ⊢
    rw [List.getElem_append_right (by simp), List.getElem_take]
    congr 1
    simp
  · simp only [if_neg h4] at hj ⊢
    rw [List.getElem_append_left (by simp; omega), List.getElem_drop]
    congr 1
    omega

/-- AT-02: the check digits protect positions 0–3 and 7…; hypothesis `hv`: the business code (positions 4–6)
is alphanumeric too, as in every real identifier -/
theorem at02_single_error_partial (x v : Str) (h : Gen.eu_at_02.validate x = .ok v) (hv : AllIn isDU v)
    (i c : Nat) (hi : i < v.length) (hpos : i < 4 ∨ 7 ≤ i) (hk : SameKind v[i] c) (hne : c ≠ v[i]) :
    isOk (Gen.eu_at_02.validate (v.set i c)) = false := by
  obtain ⟨_, hD, hV⟩ := at02_ok x v h
  obtain ⟨hc, hkind, hval⟩ := sameKind_b36 hk hne
  refine reject_of_ok at02_ok (allIn_set hv i c hc) ?_
  intro ⟨_, hV'⟩
  have hj : rot7Idx v.length i < (rot7 v).length := by
    unfold rot7 rot7Idx
    simp only [List.length_append, List.length_drop, List.length_take]
    split <;> omega
  have hg := rot7_get v i hi hpos hj
  rw [rot7_set v i c hi hpos,
    gen_mod_97_10_set_detected (rot7 v) _ c hj (fun x hx => alnum_of_du (hD x hx)) (alnum_of_du hc)
      (by rw [hg]; exact hkind) (by rw [hg]; exact hval) hV] at hV'
  cases hV'

theorem ex_at02 : Gen.eu_at_02.validate (str% "ES 23 ZZZ 47690558N") = .ok (str% "ES23ZZZ47690558N") := by
  decide +kernel
example : isOk (Gen.eu_at_02.validate (str% "ES23ZZZ47690558M")) = false :=
  at02_single_error_partial _ _ ex_at02 (by decide) 15 77 (by decide) (by decide) (Or.inr ⟨by decide, by decide⟩)
    (by decide)
example : isOk (Gen.eu_at_02.validate (str% "ES24ZZZ47690558N")) = false :=
  at02_single_error_partial _ _ ex_at02 (by decide) 3 52 (by decide) (by decide) (Or.inl ⟨by decide, by decide⟩)
    (by decide)

/-- the full-strength statement is **false** of the code (documented: "excluding positions 5 to 7"): the
creditor business code is not covered.  `ES23ZZZ47690558N` → `ES23AZZ47690558N`, both accepted. -/
theorem at02_single_error_false :
    ¬ ∀ (x v : Str), Gen.eu_at_02.validate x = .ok v → ∀ (i c : Nat) (hi : i < v.length), SameKind v[i] c →
      c ≠ v[i] → isOk (Gen.eu_at_02.validate (v.set i c)) = false := by
  intro H
  have := H _ _ ex_at02 4 65 (by decide) (Or.inr ⟨by decide, by decide⟩) (by decide)
  revert this
  decide +kernel

/-! ## stdnum.at.uid (`U` + 8 digits; check digit `(6 - luhn.checksum(first seven digits)) % 10`) -/

theorem idxOf_d10' : ∀ c < 58, 48 ≤ c → d10.idxOf c = c - 48 := by decide

theorem idxOf_d10 {c : Nat} (h : isAsciiDigit c = true) : d10.idxOf c = c - 48 := by
  have := digit_bounds h
  exact idxOf_d10' c (by omega) (by omega)

/-- the Luhn sum of the seven payload digits -/
def uidSum (p : Str) : Nat := Luhn.vchecksum 10 (p.map (· - 48))

theorem uid_checksum {p : Str} (hp : AllIn isAsciiDigit p) :
    Gen.luhn.checksum p [48, 49, 50, 51, 52, 53, 54, 55, 56, 57] = .ok ((uidSum p : Nat) : Int) := by
  rw [d10_eq, luhn_checksum_eq, Luhn.checksum_eq d10 p (by decide) (fun c hc => mem_d10.mpr (hp c hc))]
  unfold uidSum
  have : p.map (d10.idxOf ·) = p.map (· - 48) := List.map_congr_left (fun c hc => idxOf_d10 (hp c hc))
  rw [this]
  rfl

theorem uidSum_lt (p : Str) : uidSum p < 10 := by
  unfold uidSum
  rw [luhn_vchecksum_run]
  exact run_inv (Luhn.vstep 10) (· < 10) (fun _ => True) (fun i s a _ _ => luhn_step_lt 10 i s a (by decide))
    _ 0 0 (fun _ _ => trivial) (by decide)

/-- the shape `validate` accepts: `U`, seven digits `p`, check digit `l` -/
def UidOk (v : Str) : Prop :=
  ∃ p l, v = 85 :: (p ++ [l]) ∧ p.length = 7 ∧ AllIn isAsciiDigit p ∧ isAsciiDigit l = true ∧
    ((l - 48 : Nat) : Int) = (6 - (uidSum p : Int)) % 10

/-- a letter followed by digits (what a single typing error leaves of a valid number) -/
def UidCanon (x : Str) : Prop := ∃ c p, x = c :: p ∧ isAsciiUpper c = true ∧ AllIn isAsciiDigit p ∧ p ≠ []

theorem len9 {a : Str} (h : a.length = 9) : ∃ c0 c1 c2 c3 c4 c5 c6 c7 c8, a = [c0, c1, c2, c3, c4, c5, c6, c7, c8] := by
  match a, h with
  | [c0, c1, c2, c3, c4, c5, c6, c7, c8], _ => exact ⟨_, _, _, _, _, _, _, _, _, rfl⟩

theorem uid_compact {x : Str} (h : UidCanon x) :
    (if startswith (strip (upper (cleanP x [32, 45, 46, 47]))) [65, 84] = true
      then slice (strip (upper (cleanP x [32, 45, 46, 47]))) (some 2) none
      else strip (upper (cleanP x [32, 45, 46, 47]))) = x := by
  obtain ⟨c, p, rfl, hc, hp, hne⟩ := h
  have hdu : AllIn isDU (c :: p) := by
    intro k hk
    rcases List.mem_cons.mp hk with rfl | hk
    · unfold isDU; rw [hc]; exact Bool.or_true _
    · exact du_of_digit (hp k hk)
  rw [du_compact_upper' hdu _ (by decide)]
  have : startswith (c :: p) [65, 84] = false := by
    cases hs : startswith (c :: p) [65, 84] with
    | false => rfl
    | true =>
      obtain ⟨t, ht⟩ := List.isPrefixOf_iff_prefix.mp hs
      cases p with
      | nil => exact absurd rfl hne
      | cons d p =>
        simp only [List.cons_append, List.nil_append, List.cons.injEq] at ht
        have := hp d List.mem_cons_self
        rw [← ht.2.1] at this
        cases this
  rw [this]
  rfl

theorem at_uid_ok (x v : Str) (h : Gen.at_uid.validate x = .ok v) : (UidCanon x → v = x) ∧ UidOk v := by
  unfold Gen.at_uid.validate Gen.at_uid.compact Gen.at_uid.calc_check_digit at h
  invert_validate h
  obtain ⟨a, hc, b, hU, hb, hlen, ck, ⟨s, hs, hck⟩, l, hl, rfl, rfl⟩ := h
  subst hb
  refine ⟨fun hx => ?_, ?_⟩
  · have := uid_compact hx
    rcases hc with ⟨h1, h2⟩ | ⟨h1, h2⟩
    · rw [if_pos h1, h2] at this; exact this
    · rw [if_neg (by rw [h1]; decide), h2] at this; exact this
  · obtain ⟨c0, c1, c2, c3, c4, c5, c6, c7, c8, rfl⟩ := len9 (a := a) (by omega)
    rcases hU with ⟨_, h⟩ | ⟨hu, hd⟩
    · cases h
    have hu : c0 = 85 := by simpa [slice_none_nonneg _ (by decide : (0 : Int) ≤ 1)] using hu
    subst hu
    have hD : AllIn isAsciiDigit [c1, c2, c3, c4, c5, c6, c7, c8] := by
      have : slice [85, c1, c2, c3, c4, c5, c6, c7, c8] (some 1) none = [c1, c2, c3, c4, c5, c6, c7, c8] := rfl
      rw [this] at hd
      exact digits_of_isDigitsB (by simpa using hd)
    have hp : AllIn isAsciiDigit [c1, c2, c3, c4, c5, c6, c7] :=
      fun k hk => hD k (by simp at hk ⊢; omega)
    have e1 : slice (slice [85, c1, c2, c3, c4, c5, c6, c7, c8] none (some (-1))) (some 1) none =
        [c1, c2, c3, c4, c5, c6, c7] := rfl
    rw [e1, uid_checksum hp] at hs
    cases hs
    have e2 : Py.getItem [85, c1, c2, c3, c4, c5, c6, c7, c8] (-1) = .ok [c8] := rfl
    rw [e2] at hl
    cases hl
    have hlt := uidSum_lt [c1, c2, c3, c4, c5, c6, c7]
    obtain ⟨h1, h2⟩ := strOfInt_single (Int.emod_nonneg _ (by decide)) (by omega) hck
    exact ⟨[c1, c2, c3, c4, c5, c6, c7], c8, rfl, rfl, hp, h2, h1⟩

theorem sameKind_digit {a c : Nat} (h : SameKind a c) (ha : isAsciiDigit a = true) : isAsciiDigit c = true := by
  rcases h with ⟨_, h⟩ | ⟨h, _⟩
  · exact h
  · simp only [isAsciiDigit, isAsciiUpper, Bool.and_eq_true, decide_eq_true_eq] at ha h; omega

theorem sameKind_upper {a c : Nat} (h : SameKind a c) (ha : isAsciiUpper a = true) : isAsciiUpper c = true := by
  rcases h with ⟨h, _⟩ | ⟨_, h⟩
  · simp only [isAsciiDigit, isAsciiUpper, Bool.and_eq_true, decide_eq_true_eq] at ha h; omega
  · exact h

theorem uid_shape_inj {p p' : Str} {l l' : Nat} (h : (85 :: (p ++ [l]) : Str) = 85 :: (p' ++ [l']))
    (hp : p.length = 7) (hp' : p'.length = 7) : p' = p ∧ l' = l := by
  have := List.append_inj (List.cons.inj h).2 (by omega)
  exact ⟨this.1.symm, (List.cons.inj this.2).1.symm⟩

/-- AT UID: every position — the letter `U`, the seven digits and the check digit -/
theorem at_uid_single_error (x v : Str) (h : Gen.at_uid.validate x = .ok v)
    (i c : Nat) (hi : i < v.length) (hk : SameKind v[i] c) (hne : c ≠ v[i]) :
    isOk (Gen.at_uid.validate (v.set i c)) = false := by
  obtain ⟨_, p, l, rfl, hp7, hp, hl, hck⟩ := at_uid_ok x v h
  have hpl : AllIn isAsciiDigit (p ++ [l]) := by
    intro k hk
    rcases List.mem_append.mp hk with h | h
    · exact hp k h
    · rw [List.mem_singleton.mp h]; exact hl
  have hlen : (85 :: (p ++ [l]) : Str).length = 9 := by simp [hp7]
  rw [hlen] at hi
  match i, hi with
  | 0, _ =>
    have hc : isAsciiUpper c = true := sameKind_upper hk (by simp only [List.getElem_cons_zero]; decide)
    refine reject_of_ok at_uid_ok ⟨c, p ++ [l], rfl, hc, hpl, by simp⟩ ?_
    intro ⟨p', l', e, _⟩
    exact hne (List.cons.inj e).1
  | k + 1, hk1 =>
    have hc : isAsciiDigit c = true := sameKind_digit hk (by
      simp only [List.getElem_cons_succ]
      exact hpl _ (List.getElem_mem _))
    have hw : (85 :: (p ++ [l]) : Str).set (k + 1) c = 85 :: (p ++ [l]).set k c := rfl
    rw [hw]
    refine reject_of_ok at_uid_ok ⟨85, (p ++ [l]).set k c, rfl, by decide, allIn_set hpl k c hc,
      by intro e; have := congrArg List.length e; simp at this⟩ ?_
    intro ⟨p', l', e, hp7', _, hl', hck'⟩
    simp only [List.getElem_cons_succ] at hne
    by_cases hk7 : k < 7
    · rw [List.set_append_left _ _ (by omega)] at e
      obtain ⟨rfl, rfl⟩ := uid_shape_inj e (by simpa using hp7) hp7'
      rw [List.getElem_append_left (by omega)] at hne
      have h0 := split_at p k (by omega)
      have hne' : uidSum p ≠ uidSum (p.set k c) := by
        unfold uidSum
        rw [set_eq_split p k c (by omega)]
        conv => lhs; rw [h0]
        simp only [List.map_append, List.map_cons]
        have hbc := digit_bounds hc
        have hba := digit_bounds (hp p[k] (List.getElem_mem _))
        exact luhn_v_subst 10 (by decide) _ _ (p[k] - 48) (c - 48)
          (map_digit_lt fun x hx => hp x (List.mem_of_mem_take hx))
          (map_digit_lt fun x hx => hp x (List.mem_of_mem_drop hx)) (by omega) (by omega) (by omega)
      have := uidSum_lt p
      have := uidSum_lt (p.set k c)
      omega
    · have hk8 : k = 7 := by omega
      subst hk8
      rw [List.set_append_right _ _ (by omega)] at e
      have e7 : 7 - p.length = 0 := by omega
      rw [e7, List.set_cons_zero] at e
      obtain ⟨rfl, rfl⟩ := uid_shape_inj e hp7 hp7'
      rw [List.getElem_append_right (by omega)] at hne
      simp only [hp7, Nat.sub_self, List.getElem_cons_zero] at hne
      have := digit_bounds hl
      have := digit_bounds hl'
      omega

theorem ex_uid : Gen.at_uid.validate (str% "AT U13585627") = .ok (str% "U13585627") := by decide +kernel
example : isOk (Gen.at_uid.validate (str% "U13585626")) = false :=
  at_uid_single_error _ _ ex_uid 8 54 (by decide) (Or.inl ⟨by decide, by decide⟩) (by decide)
example : isOk (Gen.at_uid.validate (str% "U13685627")) = false :=
  at_uid_single_error _ _ ex_uid 3 54 (by decide) (Or.inl ⟨by decide, by decide⟩) (by decide)
example : isOk (Gen.at_uid.validate (str% "V13585627")) = false :=
  at_uid_single_error _ _ ex_uid 0 86 (by decide) (Or.inr ⟨by decide, by decide⟩) (by decide)

/-! ## stdnum.nl.btw (9 digits, `B`, 2 digits: valid if the first nine digits are a BSN (old numbers) **or** if
`'NL' + number` passes ISO 7064 Mod 97-10 (numbers issued since 2020)) -/

theorem isValidOf_true {v : R Str} (h : isValidOf v = .ok true) : isOk v = true := by
  cases v with
  | ok r => rfl
  | error e =>
    unfold isValidOf tryExcept at h
    simp only [bind, Except.bind] at h
    split at h <;> cases h

theorem len12 {a : Str} (h : a.length = 12) :
    ∃ c0 c1 c2 c3 c4 c5 c6 c7 c8 c9 c10 c11, a = [c0, c1, c2, c3, c4, c5, c6, c7, c8, c9, c10, c11] := by
  match a, h with
  | [c0, c1, c2, c3, c4, c5, c6, c7, c8, c9, c10, c11], _ => exact ⟨_, _, _, _, _, _, _, _, _, _, _, _, rfl⟩

/-- nine digits, a letter, two digits -/
def BtwCanon (x : Str) : Prop :=
  x.length = 12 ∧ AllIn isAsciiDigit (x.take 9) ∧ (∃ b, x[9]? = some b ∧ isAsciiUpper b = true) ∧
    AllIn isAsciiDigit (x.drop 10)

/-- what `validate` guarantees -/
def BtwOk (v : Str) : Prop :=
  v.length = 12 ∧ AllIn isAsciiDigit (v.take 9) ∧ v[9]? = some 66 ∧ AllIn isAsciiDigit (v.drop 10) ∧
    (Gen.nl_bsn.is_valid (v.take 9) = .ok true ∨ isOk (Gen.iso7064_mod_97_10.validate ([78, 76] ++ v)) = true)

theorem btw_compact {x : Str} (h : BtwCanon x) : Gen.nl_btw.compact x = .ok x := by
  obtain ⟨hlen, hd9, ⟨b, hb, hbu⟩, hd2⟩ := h
  obtain ⟨c0, c1, c2, c3, c4, c5, c6, c7, c8, c9, c10, c11, rfl⟩ := len12 hlen
  have hb' : c9 = b := by simpa using hb
  subst hb'
  simp only [List.take_succ_cons, List.take_zero, List.drop_succ_cons, List.drop_zero] at hd9 hd2
  have hd9' : AllIn isAsciiDigit [c0, c1, c2, c3, c4, c5, c6, c7, c8] := hd9
  have hd2' : AllIn isAsciiDigit [c10, c11] := hd2
  have hdu : AllIn isDU [c0, c1, c2, c3, c4, c5, c6, c7, c8, c9, c10, c11] := by
    intro k hk
    have : k ∈ [c0, c1, c2, c3, c4, c5, c6, c7, c8] ∨ k = c9 ∨ k ∈ [c10, c11] := by
      rw [show [c0, c1, c2, c3, c4, c5, c6, c7, c8, c9, c10, c11] =
        [c0, c1, c2, c3, c4, c5, c6, c7, c8] ++ c9 :: [c10, c11] from rfl] at hk
      rcases List.mem_append.mp hk with h | h
      · exact Or.inl h
      · exact Or.inr (List.mem_cons.mp h)
    rcases this with h | h | h
    · exact du_of_digit (hd9' k h)
    · subst h; unfold isDU; rw [hbu]; exact Bool.or_true _
    · exact du_of_digit (hd2' k h)
  unfold Gen.nl_btw.compact Gen.nl_bsn.compact
  simp only [clean_eq, bind_ok, pure_ok]
  rw [du_compact_upper' hdu _ (by decide)]
  have hns : startswith [c0, c1, c2, c3, c4, c5, c6, c7, c8, c9, c10, c11] [78, 76] = false := by
    cases hs : startswith [c0, c1, c2, c3, c4, c5, c6, c7, c8, c9, c10, c11] [78, 76] with
    | false => rfl
    | true =>
      have := hd9' 78 (by
        obtain ⟨t, ht⟩ := List.isPrefixOf_iff_prefix.mp hs
        simp only [List.cons_append, List.nil_append, List.cons.injEq] at ht
        simp [← ht.1])
      cases this
  simp only [hns, Bool.false_eq_true, if_false]
  have e1 : slice [c0, c1, c2, c3, c4, c5, c6, c7, c8, c9, c10, c11] none (some (-3)) =
      [c0, c1, c2, c3, c4, c5, c6, c7, c8] := rfl
  have e2 : slice [c0, c1, c2, c3, c4, c5, c6, c7, c8, c9, c10, c11] (some (-3)) none = [c9, c10, c11] := rfl
  rw [e1, e2, digits_compact hd9' _ (by decide), zfill_eq_self (by simp)]
  rfl

theorem nl_btw_ok (x v : Str) (h : Gen.nl_btw.validate x = .ok v) : (BtwCanon x → v = x) ∧ BtwOk v := by
  unfold Gen.nl_btw.validate at h
  invert_validate h
  obtain ⟨a, hc, b, hd9, hb, hd2, hlen, a2, hget, ha2, b3, ⟨b4, hbsn, hchk⟩, hb3, rfl⟩ := h
  subst hb ha2 hb3
  refine ⟨fun hx => ?_, ?_⟩
  · rw [btw_compact hx] at hc
    cases hc
    rfl
  · obtain ⟨c0, c1, c2, c3, c4, c5, c6, c7, c8, c9, c10, c11, rfl⟩ := len12 (a := a) (by omega)
    have e9 : slice [c0, c1, c2, c3, c4, c5, c6, c7, c8, c9, c10, c11] none (some 9) =
        [c0, c1, c2, c3, c4, c5, c6, c7, c8] := rfl
    have e10 : slice [c0, c1, c2, c3, c4, c5, c6, c7, c8, c9, c10, c11] (some 10) none = [c10, c11] := rfl
    have eg : Py.getItem [c0, c1, c2, c3, c4, c5, c6, c7, c8, c9, c10, c11] 9 = .ok [c9] := rfl
    rw [e9] at hd9 hbsn
    rw [e10] at hd2
    rw [eg] at hget
    cases hget
    rcases hd9 with ⟨_, h⟩ | ⟨hd9, _⟩
    · cases h
    have hd2' : isDigitsB [c10, c11] = true := by
      cases hd : isDigitsB [c10, c11] with
      | true => rfl
      | false => rw [hd] at hd2; cases hd2
    refine ⟨rfl, digits_of_isDigitsB hd9, rfl, digits_of_isDigitsB hd2', ?_⟩
    rcases hchk with ⟨_, b5, hm, hb5⟩ | ⟨rfl, _⟩
    · right
      have : b5 = true := by cases b5 <;> simp_all
      subst this
      rw [mod_97_10_is_valid_eq] at hm
      rw [mod_97_10_validate_eq]
      exact isValidOf_true hm
    · left
      exact hbsn

theorem btw_alnum {v : Str} (hlen : v.length = 12) (h9 : AllIn isAsciiDigit (v.take 9)) (hB : v[9]? = some 66)
    (h2 : AllIn isAsciiDigit (v.drop 10)) : AllIn isAsciiAlnum v := by
  intro k hk
  obtain ⟨j, hj, rfl⟩ := List.getElem_of_mem hk
  rcases Nat.lt_trichotomy j 9 with h | h | h
  · have := h9 ((v.take 9)[j]'(by simp; omega)) (List.getElem_mem _)
    rw [List.getElem_take] at this
    exact digit_alnum this
  · subst h
    rw [List.getElem?_eq_getElem hj] at hB
    rw [Option.some.inj hB]
    rfl
  · have := h2 ((v.drop 10)[j - 10]'(by simp; omega)) (List.getElem_mem _)
    rw [List.getElem_drop] at this
    have e : 10 + (j - 10) = j := by omega
    simp only [e] at this
    exact digit_alnum this

/-- btw: when neither the number nor the changed number is accepted through the old scheme (first nine digits a
valid BSN), i.e. for the numbers issued since 2020 -/
theorem nl_btw_single_error_partial (x v : Str) (h : Gen.nl_btw.validate x = .ok v)
    (hbsn : Gen.nl_bsn.is_valid (v.take 9) ≠ .ok true)
    (i c : Nat) (hi : i < v.length) (hk : SameKind v[i] c) (hne : c ≠ v[i])
    (hbsn' : Gen.nl_bsn.is_valid ((v.set i c).take 9) ≠ .ok true) :
    isOk (Gen.nl_btw.validate (v.set i c)) = false := by
  obtain ⟨_, hlen, h9, hB, h2, hV⟩ := nl_btw_ok x v h
  have hV : isOk (Gen.iso7064_mod_97_10.validate ([78, 76] ++ v)) = true := hV.resolve_left hbsn
  have hal := btw_alnum hlen h9 hB h2
  by_cases hi9 : i = 9
  · subst hi9
    have hv9 : v[9] = 66 := by
      rw [List.getElem?_eq_getElem hi] at hB
      exact Option.some.inj hB
    have hc : isAsciiUpper c = true := sameKind_upper hk (by rw [hv9]; decide)
    refine reject_of_ok nl_btw_ok ⟨by simpa using hlen, ?_, ⟨c, by simp [hi], hc⟩, ?_⟩ ?_
    · rw [List.take_set_of_le (by omega)]; exact h9
    · rw [List.drop_set_of_lt (by omega)]; exact h2
    · intro ⟨_, _, hB', _⟩
      rw [List.getElem?_set_self hi] at hB'
      rw [hv9] at hne
      exact hne (Option.some.inj hB')
  · have hvd : isAsciiDigit v[i] = true := by
      rcases Nat.lt_or_ge i 9 with h | h
      · have := h9 ((v.take 9)[i]'(by simp; omega)) (List.getElem_mem _)
        rw [List.getElem_take] at this
        exact this
      · have := h2 ((v.drop 10)[i - 10]'(by simp; omega)) (List.getElem_mem _)
        rw [List.getElem_drop] at this
        have e : 10 + (i - 10) = i := by omega
        simp only [e] at this
        exact this
    have hc : isAsciiDigit c = true := sameKind_digit hk hvd
    obtain ⟨hcdu, hkind, hval⟩ := sameKind_b36 hk hne
    refine reject_of_ok nl_btw_ok ⟨by simpa using hlen, ?_, ⟨66, ?_, by decide⟩, ?_⟩ ?_
    · rw [List.take_set]; exact allIn_set h9 i c hc
    · rw [List.getElem?_set_ne hi9]; exact hB
    · rw [List.drop_set]
      split
      · exact h2
      · exact allIn_set h2 _ c hc
    · intro ⟨_, _, _, _, hV'⟩
      have hV' := hV'.resolve_left hbsn'
      have e : ([78, 76] : Str) ++ v.set i c = ([78, 76] ++ v).set (i + 2) c := by
        rw [List.set_append_right _ _ (by simp)]
        rfl
      have hg : (([78, 76] : Str) ++ v)[i + 2]'(by simp; omega) = v[i] := by
        rw [List.getElem_append_right (by simp)]
        rfl
      have halnl : AllIn isAsciiAlnum (([78, 76] : Str) ++ v) := by
        intro k hk
        rcases List.mem_append.mp hk with h | h
        · simp only [List.mem_cons, List.not_mem_nil, or_false] at h
          rcases h with rfl | rfl <;> rfl
        · exact hal k h
      rw [e, gen_mod_97_10_set_detected _ (i + 2) c (by simp; omega) halnl (alnum_of_du hcdu)
        (by rw [hg]; exact hkind) (by rw [hg]; exact hval) hV] at hV'
      cases hV'

theorem ex_btw : Gen.nl_btw.validate (str% "NL002455799B11") = .ok (str% "002455799B11") := by decide +kernel
example : isOk (Gen.nl_btw.validate (str% "002455799B12")) = false :=
  nl_btw_single_error_partial _ _ ex_btw (by decide +kernel) 11 50 (by decide) (Or.inl ⟨by decide, by decide⟩)
    (by decide) (by decide +kernel)
example : isOk (Gen.nl_btw.validate (str% "002455799C11")) = false :=
  nl_btw_single_error_partial _ _ ex_btw (by decide +kernel) 9 67 (by decide) (Or.inr ⟨by decide, by decide⟩)
    (by decide) (by decide +kernel)

/-- the full-strength statement is **false** of the code: for a number whose first nine digits are a valid BSN
the two-digit suffix is not checked at all.  `004495445B01` → `004495445B02`, both accepted. -/
theorem nl_btw_single_error_false :
    ¬ ∀ (x v : Str), Gen.nl_btw.validate x = .ok v → ∀ (i c : Nat) (hi : i < v.length), SameKind v[i] c →
      c ≠ v[i] → isOk (Gen.nl_btw.validate (v.set i c)) = false := by
  intro H
  have := H (str% "004495445B01") (str% "004495445B01") (by decide +kernel) 11 50 (by decide)
    (Or.inl ⟨by decide, by decide⟩) (by decide)
  revert this
  decide +kernel

/-! ## stdnum.es.cif (letter, 7 digits, check character: the Luhn check digit of the 7 digits or its letter form
`JABCDEFGHI`; own code around `luhn.calc_check_digit`) -/

/-- `'JABCDEFGHI'[int(d)]` -/
def cifLetter (d : Nat) : Nat := ([74, 65, 66, 67, 68, 69, 70, 71, 72, 73] : Str).getD (d - 48) 0

theorem cifLetter_upper : ∀ d < 58, 48 ≤ d → isAsciiUpper (cifLetter d) = true := by decide
theorem cifLetter_inj : ∀ d < 58, 48 ≤ d → ∀ e < 58, 48 ≤ e → cifLetter d = cifLetter e → d = e := by decide
theorem cifLetter_get : ∀ d : Nat, d < 58 → 48 ≤ d →
    Py.getItem [74, 65, 66, 67, 68, 69, 70, 71, 72, 73] ((d : Int) - 48) = .ok [cifLetter d] := by decide

/-- what `validate` accepts: type letter `L`, seven digits `p`, check character `k` which is the Luhn digit `d`
of `p` or its letter form -/
def CifOk (v : Str) : Prop :=
  ∃ L p k d, v = L :: (p ++ [k]) ∧ p.length = 7 ∧ AllIn isAsciiDigit p ∧ isAsciiDigit d = true ∧
    isOk (Gen.luhn.validate (p ++ [d]) d10) = true ∧ (k = d ∨ k = cifLetter d) ∧ isAsciiUpper L = true

/-- a letter, seven digits, a digit or letter -/
def CifCanon (x : Str) : Prop :=
  ∃ L p k, x = L :: (p ++ [k]) ∧ p.length = 7 ∧ AllIn isAsciiDigit p ∧ isDU k = true ∧ isAsciiUpper L = true

theorem es_cif_ok (x v : Str) (h : Gen.es_cif.validate x = .ok v) : (CifCanon x → v = x) ∧ CifOk v := by
  unfold Gen.es_cif.validate Gen.es_dni.compact Gen.es_cif.calc_check_digits at h
  invert_validate h
  generalize hn : strip (upper (cleanP x [32, 45])) = n at h
  obtain ⟨hd, hlen, a0, hg0, hL, ak, hgk, cds, ⟨chk, hcalc, iv, hint, lt, hlt, rfl⟩, hin, rfl⟩ := h
  refine ⟨fun ⟨L, p, k, hx, hp7, hp, hk, hLu⟩ => ?_, ?_⟩
  · rw [← hn, du_compact_upper' _ _ (by decide)]
    subst hx
    intro c hc
    rcases List.mem_cons.mp hc with rfl | hc
    · unfold isDU; rw [hLu]; exact Bool.or_true _
    · rcases List.mem_append.mp hc with hc | hc
      · exact du_of_digit (hp c hc)
      · rw [List.mem_singleton.mp hc]; exact hk
  · obtain ⟨c0, c1, c2, c3, c4, c5, c6, c7, c8, rfl⟩ := len9 (a := n) (by omega)
    have e1 : slice [c0, c1, c2, c3, c4, c5, c6, c7, c8] (some 1) (some (-1)) = [c1, c2, c3, c4, c5, c6, c7] := rfl
    have e2 : slice (slice [c0, c1, c2, c3, c4, c5, c6, c7, c8] none (some (-1))) (some 1) none =
        [c1, c2, c3, c4, c5, c6, c7] := rfl
    have e3 : Py.getItem [c0, c1, c2, c3, c4, c5, c6, c7, c8] 0 = .ok [c0] := rfl
    have e4 : Py.getItem [c0, c1, c2, c3, c4, c5, c6, c7, c8] (-1) = .ok [c8] := rfl
    rw [e1] at hd
    rw [e2] at hcalc
    rw [e3] at hg0
    rw [e4] at hgk
    cases hg0
    cases hgk
    have hp := digits_of_isDigitsB hd
    obtain ⟨d, hd1, hd2⟩ := gen_luhn_append_valid d10 [c1, c2, c3, c4, c5, c6, c7] (by decide) (by decide)
      (fun c hc => mem_d10.mpr (hp c hc))
    rw [d10_eq, hd1] at hcalc
    cases hcalc
    have hdd : isAsciiDigit d = true := by
      obtain ⟨_, hm⟩ := gen_luhn_validate_mem hd2
      exact mem_d10.mp (hm d (by simp))
    have hb := digit_bounds hdd
    rw [intOf_singleton_digit d hdd] at hint
    cases hint
    rw [cifLetter_get d (by omega) (by omega)] at hlt
    cases hlt
    have hL' : isAsciiUpper c0 = true := by
      have : c0 ∈ ([65, 66, 67, 68, 69, 70, 71, 72, 74, 78, 80, 81, 82, 83, 85, 86, 87] : Str) := by
        simpa using hL
      have hall : ∀ c ∈ ([65, 66, 67, 68, 69, 70, 71, 72, 74, 78, 80, 81, 82, 83, 85, 86, 87] : Str),
          isAsciiUpper c = true := by decide
      exact hall c0 this
    refine ⟨c0, [c1, c2, c3, c4, c5, c6, c7], c8, d, rfl, rfl, hp, hdd, isOk_true_of_ok hd2, ?_, hL'⟩
    have : c8 ∈ ([d] ++ [cifLetter d] : Str) := by simpa using hin
    simpa using this

theorem cif_shape_inj {L L' : Nat} {p p' : Str} {k k' : Nat} (h : (L :: (p ++ [k]) : Str) = L' :: (p' ++ [k']))
    (hp : p.length = 7) (hp' : p'.length = 7) : L = L' ∧ p = p' ∧ k = k' := by
  obtain ⟨h1, h2⟩ := List.cons.inj h
  have := List.append_inj h2 (by omega)
  exact ⟨h1, this.1, (List.cons.inj this.2).1⟩

/-- the check character determines the Luhn digit: `d` or `'JABCDEFGHI'[d]` -/
theorem cif_digit_unique {k d e : Nat} (hd : isAsciiDigit d = true) (he : isAsciiDigit e = true)
    (h1 : k = d ∨ k = cifLetter d) (h2 : k = e ∨ k = cifLetter e) : d = e := by
  have hbd := digit_bounds hd
  have hbe := digit_bounds he
  have hud := cifLetter_upper d (by omega) (by omega)
  have hue := cifLetter_upper e (by omega) (by omega)
  simp only [isAsciiUpper, Bool.and_eq_true, decide_eq_true_eq] at hud hue
  rcases h1 with rfl | rfl <;> rcases h2 with h | h
  · exact h
  · omega
  · omega
  · exact cifLetter_inj d (by omega) (by omega) e (by omega) (by omega) h

/-- CIF: the seven digits and the check character (digit or letter) -/
theorem es_cif_single_error_partial (x v : Str) (h : Gen.es_cif.validate x = .ok v)
    (i c : Nat) (hi : i < v.length) (hpos : 1 ≤ i) (hk : SameKind v[i] c) (hne : c ≠ v[i]) :
    isOk (Gen.es_cif.validate (v.set i c)) = false := by
  obtain ⟨_, L, p, k, d, rfl, hp7, hp, hd, hV, hkd, hL⟩ := es_cif_ok x v h
  have hbd := digit_bounds hd
  have hpd : AllIn isAsciiDigit (p ++ [d]) := by
    intro a ha
    rcases List.mem_append.mp ha with h | h
    · exact hp a h
    · rw [List.mem_singleton.mp h]; exact hd
  have hkdu : isDU k = true := by
    rcases hkd with rfl | rfl
    · exact du_of_digit hd
    · unfold isDU; rw [cifLetter_upper d (by omega) (by omega)]; exact Bool.or_true _
  have hlen : (L :: (p ++ [k]) : Str).length = 9 := by simp [hp7]
  rw [hlen] at hi
  obtain ⟨j, rfl⟩ : ∃ j, i = j + 1 := ⟨i - 1, by omega⟩
  simp only [List.getElem_cons_succ] at hk hne
  have hw : (L :: (p ++ [k]) : Str).set (j + 1) c = L :: (p ++ [k]).set j c := rfl
  rw [hw]
  by_cases hj7 : j < 7
  · -- one of the seven digits
    rw [List.getElem_append_left (by omega)] at hk hne
    have hc : isAsciiDigit c = true := sameKind_digit hk (hp _ (List.getElem_mem _))
    rw [List.set_append_left _ _ (by omega)]
    refine reject_of_ok es_cif_ok ⟨L, p.set j c, k, rfl, by simpa using hp7, allIn_set hp j c hc, hkdu, hL⟩ ?_
    intro ⟨L', p', k', d', e, hp7', _, hd', hV', hkd', _⟩
    obtain ⟨rfl, rfl, rfl⟩ := cif_shape_inj e (by simpa using hp7) hp7'
    obtain rfl := cif_digit_unique hd hd' hkd hkd'
    have e2 : p.set j c ++ [d] = (p ++ [d]).set j c := (List.set_append_left _ _ (by omega)).symm
    rw [e2, luhn_detects (p ++ [d]) j c (by simp; omega) hpd hc
      (by rw [List.getElem_append_left (by omega)]; exact hne) hV] at hV'
    cases hV'
  · -- the check character
    have hj : j = 7 := by omega
    subst hj
    have e7 : (p ++ [k]).set 7 c = p ++ [c] := by
      rw [List.set_append_right _ _ (by omega)]
      have : 7 - p.length = 0 := by omega
      rw [this]; rfl
    have hk7 : (p ++ [k])[7]'(by simp; omega) = k := by
      rw [List.getElem_append_right (by omega)]
      simp [hp7]
    rw [hk7] at hk hne
    have hcdu : isDU c = true := (sameKind_b36 hk hne).1
    rw [e7]
    refine reject_of_ok es_cif_ok ⟨L, p, c, rfl, hp7, hp, hcdu, hL⟩ ?_
    intro ⟨L', p', k', d', e, hp7', _, hd', hV', hkd', _⟩
    obtain ⟨rfl, rfl, rfl⟩ := cif_shape_inj e hp7 hp7'
    have hdd : d' = d := by
      apply Classical.byContradiction
      intro hdn
      have e2 : p ++ [d'] = (p ++ [d]).set 7 d' := by
        rw [List.set_append_right _ _ (by omega)]
        have : 7 - p.length = 0 := by omega
        rw [this]; rfl
      rw [e2, luhn_detects (p ++ [d]) 7 d' (by simp; omega) hpd hd'
        (by rw [List.getElem_append_right (by omega)]; simpa [hp7] using hdn) hV] at hV'
      cases hV'
    subst hdd
    have hbd' := digit_bounds hd'
    have hu := cifLetter_upper d' (by omega) (by omega)
    have hud := hu
    simp only [isAsciiUpper, Bool.and_eq_true, decide_eq_true_eq] at hud
    rcases hkd with rfl | rfl <;> rcases hkd' with rfl | rfl
    · exact hne rfl
    · have := sameKind_digit hk hd
      simp only [isAsciiDigit, Bool.and_eq_true, decide_eq_true_eq] at this
      omega
    · have := sameKind_upper hk hu
      simp only [isAsciiUpper, Bool.and_eq_true, decide_eq_true_eq] at this
      omega
    · exact hne rfl

theorem ex_cif : Gen.es_cif.validate (str% "J99216582") = .ok (str% "J99216582") := by decide +kernel
example : isOk (Gen.es_cif.validate (str% "J99216583")) = false :=
  es_cif_single_error_partial _ _ ex_cif 8 51 (by decide) (by decide) (Or.inl ⟨by decide, by decide⟩) (by decide)
example : isOk (Gen.es_cif.validate (str% "J99216682")) = false :=
  es_cif_single_error_partial _ _ ex_cif 6 54 (by decide) (by decide) (Or.inl ⟨by decide, by decide⟩) (by decide)
theorem ex_cif_letter : Gen.es_cif.validate (str% "J9921658B") = .ok (str% "J9921658B") := by decide +kernel
example : isOk (Gen.es_cif.validate (str% "J9921658C")) = false :=
  es_cif_single_error_partial _ _ ex_cif_letter 8 67 (by decide) (by decide) (Or.inr ⟨by decide, by decide⟩)
    (by decide)

/-- the full-strength statement is **false** of the code: the organisation-type letter is not covered by the
check character.  `J99216582` → `A99216582`, both accepted. -/
theorem es_cif_single_error_false :
    ¬ ∀ (x v : Str), Gen.es_cif.validate x = .ok v → ∀ (i c : Nat) (hi : i < v.length), SameKind v[i] c →
      c ≠ v[i] → isOk (Gen.es_cif.validate (v.set i c)) = false := by
  intro H
  have := H _ _ ex_cif 0 65 (by decide) (Or.inr ⟨by decide, by decide⟩) (by decide)
  revert this
  decide +kernel

end Props.C17

#print axioms Props.C17.se_personnummer_single_error_partial
#print axioms Props.C17.se_personnummer_single_error_false
#print axioms Props.C17.at02_single_error_partial
#print axioms Props.C17.at02_single_error_false
#print axioms Props.C17.at_uid_single_error
#print axioms Props.C17.nl_btw_single_error_partial
#print axioms Props.C17.nl_btw_single_error_false
#print axioms Props.C17.es_cif_single_error_partial
#print axioms Props.C17.es_cif_single_error_false
