import Props.C12d
import Props.C12e
import Props.C12f
import Props.C12h
import Gen.pk_cnic
/-!
# C12 (value consistency, part 2, continued) — the gender returned for an accepted number is the one its digits encode
-/
namespace Props.C12
open Py Lemmas.Refine Props.C17 Props.C08

set_option linter.unusedVariables false
set_option linter.unusedSimpArgs false

theorem ite_odd {α : Type} (k : Int) (a b : α) :
    (if (k % 2 != 0) = true then (pure a : R α) else pure b) = .ok (if k % 2 = 1 then a else b) := by
  by_cases hp : k % 2 = 1
  · have : (k % 2 != 0) = true := by simp [hp]
    rw [if_pos this, if_pos hp]; rfl
  · have h0 : k % 2 = 0 := by omega
    have : ¬ (k % 2 != 0) = true := by simp [h0]
    rw [if_neg this, if_neg hp]; rfl

/-- cu.ni: digit 10 (`v[9]`) odd = female -/
theorem cu_ni_gender_value (x v : Str) (h : Gen.cu_ni.validate x = .ok v) :
    Gen.cu_ni.get_gender v = .ok (if fld v 9 10 % 2 = 1 then [70] else [77]) := by
  obtain ⟨hD, hl, _⟩ := cu_ni_ok h
  have hc : Gen.cu_ni.compact v = .ok v := by
    unfold Gen.cu_ni.compact
    simp only [clean_eq, bind_ok, pure_ok, digits_clean_strip hD [32] (by decide)]
  have hcd := hD v[9] (List.getElem_mem _)
  have hf := fld_one (v := v) 9 10 (by omega)
  have hb := fld1 hD 9 10
  unfold Gen.cu_ni.get_gender
  simp only [hc, bind_ok, getItem_nat v 9 9 rfl (by omega), intOf_singleton_digit _ hcd, ← hf]
  exact ite_odd _ _ _

/-- gr.amka: digit 10 (`v[9]`) odd = male -/
theorem gr_amka_gender_value (x v : Str) (h : Gen.gr_amka.validate x = .ok v) :
    Gen.gr_amka.get_gender v = .ok (if fld v 9 10 % 2 = 1 then [77] else [70]) := by
  obtain ⟨hD, hl, _⟩ := gr_amka_ok h
  have hc : Gen.gr_amka.compact v = .ok v := by
    unfold Gen.gr_amka.compact
    simp only [clean_eq, bind_ok, pure_ok, digits_clean_strip hD [32, 45] (by decide)]
  have hcd := hD v[9] (List.getElem_mem _)
  have hf := fld_one (v := v) 9 10 (by omega)
  unfold Gen.gr_amka.get_gender
  simp only [hc, bind_ok, getItem_nat v 9 9 rfl (by omega), intOf_singleton_digit _ hcd, ← hf]
  exact ite_odd _ _ _

/-- no.fodselsnummer: digit 9 (`v[8]`) odd = male -/
theorem no_fodselsnummer_gender_value (t : Date) (x v : Str) (h : Gen.no_fodselsnummer.validate t x = .ok v) :
    Gen.no_fodselsnummer.get_gender v = .ok (if fld v 8 9 % 2 = 1 then [77] else [70]) := by
  obtain ⟨hD, hl⟩ := no_fodselsnummer_ok h
  have hc : Gen.no_fodselsnummer.compact v = .ok v := by
    unfold Gen.no_fodselsnummer.compact
    simp only [clean_eq, bind_ok, pure_ok,
      cleanP_of_alnum (fun c hc => alnum_of_du (du_of_digit (hD c hc)))
        (by decide : ∀ c ∈ [32, 45, 58], isAsciiAlnum c = false)]
  have hcd := hD v[8] (List.getElem_mem _)
  have hf := fld_one (v := v) 8 9 (by omega)
  unfold Gen.no_fodselsnummer.get_gender
  simp only [hc, bind_ok, getItem_nat v 8 8 rfl (by omega), intOf_singleton_digit _ hcd, ← hf]
  exact ite_odd _ _ _

/-- be.nn: the counter `v[6:9]` odd = male -/
theorem be_nn_gender_value (t : Date) (x v : Str) (h : Gen.be_nn.validate t x = .ok v) :
    Gen.be_nn.get_gender v = .ok (if fld v 6 9 % 2 = 1 then [77] else [70]) := by
  obtain ⟨hD, hl⟩ := be_nn_ok h
  unfold Gen.be_nn.get_gender
  simp only [be_nn_compact_digits hD, bind_ok, intOf_fld hD 6 9 6 9 rfl rfl (by omega) (by omega)]
  by_cases hp : fld v 6 9 % 2 = 1
  · have : (fld v 6 9 % 2 != 0) = true := by simp [hp]
    simp only [this, if_true, if_pos hp]; rfl
  · have h0 : fld v 6 9 % 2 = 0 := by omega
    have : (fld v 6 9 % 2 != 0) = false := by simp [h0]
    simp only [this, Bool.false_eq_true, if_false, if_neg hp]; rfl

/-- pl.pesel: digit 10 (`v[9]`) even = female -/
theorem pl_pesel_gender_value (x v : Str) (h : Gen.pl_pesel.validate x = .ok v) :
    Gen.pl_pesel.get_gender v = .ok (if fld v 9 10 % 2 = 0 then [70] else [77]) := by
  obtain ⟨hD, hl, _⟩ := pl_pesel_ok h
  have hc : Gen.pl_pesel.compact v = .ok v := by
    unfold Gen.pl_pesel.compact
    simp only [clean_eq, bind_ok, pure_ok, digits_strip_upper_clean hD [32, 45] (by decide)]
  have hcd := hD v[9] (List.getElem_mem _)
  simp only [isAsciiDigit, Bool.and_eq_true, decide_eq_true_eq] at hcd
  have hf := fld_one (v := v) 9 10 (by omega)
  unfold Gen.pl_pesel.get_gender
  simp only [hc, bind_ok, getItem_nat v 9 9 rfl (by omega), strIn_single]
  by_cases hp : fld v 9 10 % 2 = 0
  · have : [48, 50, 52, 54, 56].contains v[9] = true := by
      simp only [List.contains_cons, List.contains_nil, Bool.or_false, Bool.or_eq_true, beq_iff_eq]; omega
    simp only [this, if_true, if_pos hp]; rfl
  · have : [48, 50, 52, 54, 56].contains v[9] = false := by
      simp only [List.contains_cons, List.contains_nil, Bool.or_false, Bool.or_eq_false_iff, beq_eq_false_iff_ne,
        ne_eq]
      omega
    simp only [this, Bool.false_eq_true, if_false, if_neg hp]; rfl

/-- za.idnr: digit 7 (`v[6]`) below 5 = female -/
theorem za_idnr_gender_value (t : Date) (x v : Str) (h : Gen.za_idnr.validate t x = .ok v) :
    Gen.za_idnr.get_gender v = .ok (if fld v 6 7 < 5 then [70] else [77]) := by
  obtain ⟨hD, hl, _⟩ := za_idnr_ok h
  have hc : Gen.za_idnr.compact v = .ok v := by
    unfold Gen.za_idnr.compact
    simp only [clean_eq, bind_ok, pure_ok,
      cleanP_of_alnum (fun c hc => alnum_of_du (du_of_digit (hD c hc))) (by decide : ∀ c ∈ [32], isAsciiAlnum c = false)]
  have hcd := hD v[6] (List.getElem_mem _)
  simp only [isAsciiDigit, Bool.and_eq_true, decide_eq_true_eq] at hcd
  have hf := fld_one (v := v) 6 7 (by omega)
  unfold Gen.za_idnr.get_gender
  simp only [hc, bind_ok, getItem_nat v 6 6 rfl (by omega), strIn_single]
  by_cases hp : fld v 6 7 < 5
  · have : [48, 49, 50, 51, 52].contains v[6] = true := by
      simp only [List.contains_cons, List.contains_nil, Bool.or_false, Bool.or_eq_true, beq_iff_eq]; omega
    simp only [this, if_true, if_pos hp]; rfl
  · have : [48, 49, 50, 51, 52].contains v[6] = false := by
      simp only [List.contains_cons, List.contains_nil, Bool.or_false, Bool.or_eq_false_iff, beq_eq_false_iff_ne,
        ne_eq]
      omega
    simp only [this, Bool.false_eq_true, if_false, if_neg hp]; rfl

/-- si.emso: the serial `v[9:12]` below 500 = male -/
theorem si_emso_gender_value (x v : Str) (h : Gen.si_emso.validate x = .ok v) :
    Gen.si_emso.get_gender v = .ok (if fld v 9 12 < 500 then [77] else [70]) := by
  obtain ⟨hD, hl, _⟩ := si_emso_ok h
  have hc : Gen.si_emso.compact v = .ok v := by
    unfold Gen.si_emso.compact
    simp only [clean_eq, bind_ok, pure_ok, digits_clean_strip hD [32] (by decide)]
  unfold Gen.si_emso.get_gender
  simp only [hc, bind_ok, intOf_fld hD 9 12 9 12 rfl rfl (by omega) (by omega)]
  by_cases hp : fld v 9 12 < 500
  · simp only [hp, decide_true, if_true]; rfl
  · simp only [hp, decide_false, Bool.false_eq_true, if_false]; rfl

/-- ee.ik: first digit odd = male (the digit is `1`–`8` for every accepted number) -/
theorem ee_ik_gender_value (x v : Str) (h : Gen.ee_ik.validate x = .ok v) :
    Gen.ee_ik.get_gender v = .ok (if fld v 0 1 % 2 = 1 then [77] else [70]) := by
  obtain ⟨hD, hl, d, hd⟩ := ee_ik_ok h
  obtain ⟨_, _, _, _, _, h1, h8⟩ := ee_ik_birth_date x v d h hd
  have hc : Gen.ee_ik.compact v = .ok v := by
    unfold Gen.ee_ik.compact
    simp only [clean_eq, bind_ok, pure_ok, digits_clean_strip hD [32] (by decide)]
  have hf := fld_one (v := v) 0 1 (by omega)
  unfold Gen.ee_ik.get_gender
  simp only [hc, bind_ok, getItem_nat v 0 0 rfl (by omega), strIn_single]
  by_cases hp : fld v 0 1 % 2 = 1
  · have : [49, 51, 53, 55].contains v[0] = true := by
      simp only [List.contains_cons, List.contains_nil, Bool.or_false, Bool.or_eq_true, beq_iff_eq]; omega
    simp only [this, if_true, if_pos hp]; rfl
  · have h1' : [49, 51, 53, 55].contains v[0] = false := by
      simp only [List.contains_cons, List.contains_nil, Bool.or_false, Bool.or_eq_false_iff, beq_eq_false_iff_ne,
        ne_eq]
      omega
    have h2' : [50, 52, 54, 56].contains v[0] = true := by
      simp only [List.contains_cons, List.contains_nil, Bool.or_false, Bool.or_eq_true, beq_iff_eq]; omega
    simp only [h1', h2', Bool.false_eq_true, if_false, if_true, if_neg hp]; rfl

end Props.C12

#print axioms Props.C12.cu_ni_gender_value
#print axioms Props.C12.gr_amka_gender_value
#print axioms Props.C12.no_fodselsnummer_gender_value
#print axioms Props.C12.be_nn_gender_value
#print axioms Props.C12.pl_pesel_gender_value
#print axioms Props.C12.za_idnr_gender_value
#print axioms Props.C12.si_emso_gender_value
#print axioms Props.C12.ee_ik_gender_value
