import Gen.meid
import Props.C08p
/-!
# C08 (part h) — MEID: decimal → hexadecimal (`meid.validate` / `meid.compact` convert an 18-digit decimal MEID to
its 14-digit hexadecimal form; the opposite direction is in `meid.format`, which is not translated)
-/
namespace Props.C08
open Py Spec.Checksum Lemmas.Refine Lemmas.Fold Props.C06 Props.C06Gen Props.C17 Props.C07

set_option linter.unusedVariables false

/-- `'0123456789ABCDEF'` -/
abbrev hx16 : Str := [48, 49, 50, 51, 52, 53, 54, 55, 56, 57, 65, 66, 67, 68, 69, 70]

/-- an upper-case hexadecimal digit -/
def isHexU (c : Nat) : Bool := isAsciiDigit c || (decide (65 ≤ c) && decide (c ≤ 70))

theorem hx16_contains (c : Nat) : hx16.contains c = isHexU c := by
  by_cases h : c < 128
  · have : ∀ c < 128, hx16.contains c = isHexU c := by decide
    exact this c h
  · have h1 : isHexU c = false := by
      simp only [isHexU, isAsciiDigit, Bool.or_eq_false_iff, Bool.and_eq_false_iff, decide_eq_false_iff_not]
      omega
    rw [h1]
    cases hc : hx16.contains c with
    | false => rfl
    | true =>
      have hm : c ∈ hx16 := by simpa using hc
      have : ∀ c ∈ hx16, c < 128 := by decide
      have := this c hm
      omega

theorem hexU_du {c : Nat} (h : isHexU c = true) : isDU c = true := by
  simp only [isHexU, isDU, isAsciiDigit, isAsciiUpper, Bool.or_eq_true, Bool.and_eq_true, decide_eq_true_eq] at h ⊢
  omega

/-! ## `'%08X' % n` -/

theorem digitChar_hex {d : Nat} (h : d < 16) : isHexU (digitChar true d) = true := by
  unfold digitChar isHexU
  by_cases h10 : d < 10
  · rw [if_pos h10]
    simp only [isAsciiDigit, Bool.or_eq_true, Bool.and_eq_true, decide_eq_true_eq]
    omega
  · rw [if_neg h10]
    simp only [isAsciiDigit, if_true, Bool.or_eq_true, Bool.and_eq_true, decide_eq_true_eq]
    omega

theorem natToStrBase16_spec : ∀ (k n : Nat), n < 16 ^ k → 0 < k →
    AllIn isHexU (natToStrBase 16 true n) ∧ (natToStrBase 16 true n).length ≤ k := by
  intro k
  induction k with
  | zero => intro n _ hk; omega
  | succ k ih =>
    intro n hn _
    rw [natToStrBase_eq 16 (by omega)]
    by_cases h16 : n < 16
    · rw [if_pos h16]
      exact ⟨allIn_cons (digitChar_hex h16) (fun _ h => by simp at h), by simp⟩
    · rw [if_neg h16]
      have hk : 0 < k := by
        cases k with
        | zero => simp at hn; omega
        | succ k => omega
      have hdiv : n / 16 < 16 ^ k := by
        rw [Nat.div_lt_iff_lt_mul (by omega)]
        rw [Nat.pow_succ] at hn
        exact hn
      obtain ⟨h1, h2⟩ := ih (n / 16) hdiv hk
      exact ⟨allIn_append h1 (allIn_cons (digitChar_hex (Nat.mod_lt _ (by omega))) (fun _ h => by simp at h)),
        by simp only [List.length_append, List.length_cons, List.length_nil]; omega⟩

/-- `'%0<w>X' % n` for `0 ≤ n < 16^w`: exactly `w` upper-case hexadecimal digits -/
theorem fmtX_spec (w : Nat) (hw : 0 < w) (n : Int) (h0 : 0 ≤ n) (hn : n.natAbs < 16 ^ w) :
    AllIn isHexU (fmtXStr w true true n) ∧ (fmtXStr w true true n).length = w := by
  obtain ⟨h1, h2⟩ := natToStrBase16_spec w n.natAbs hn hw
  unfold fmtXStr fmtSigned
  have hneg : decide (n < 0) = false := by simp; omega
  simp only [hneg, Bool.false_eq_true, if_false, if_true, List.length_nil, Nat.zero_add, List.nil_append]
  refine ⟨allIn_append (fun c hc => by rw [(List.mem_replicate.mp hc).2]; decide) h1, ?_⟩
  simp only [List.length_append, List.length_replicate]
  omega

/-! ## `meid._ishex`, `meid._parse` -/

theorem ishex_loop (t : Str) :
    forIn (Py.chars t) ((none : Option Bool), ()) (fun (x : Str) (s : Option Bool × Unit) =>
        if (!strIn x hx16) = true then (Except.ok (ForInStep.done (some false, ())) : R _)
        else Except.ok (ForInStep.yield (none, ()))) =
      .ok (if t.all (fun c => hx16.contains c) = true then (none, ()) else (some false, ())) := by
  induction t with
  | nil => rfl
  | cons c t ih =>
    rw [chars_cons, List.forIn_cons, strIn_single, List.all_cons]
    cases hc : hx16.contains c with
    | false => rfl
    | true =>
      simp only [Bool.not_true, Bool.false_eq_true, if_false, bind_ok, Bool.true_and]
      exact ih

theorem ishex_eq (t : Str) : Gen.meid._ishex t = .ok (t.all (fun c => hx16.contains c)) := by
  unfold Gen.meid._ishex
  simp only [pure_ok]
  rw [ishex_loop]
  cases t.all (fun c => hx16.contains c) <;> rfl

theorem meid_cleanup_eq (x : Str) : Gen.meid._cleanup x = .ok (upper (strip (cleanP x [32, 45]))) := by
  unfold Gen.meid._cleanup
  simp only [clean_eq, bind_ok, pure_ok]

/-- `_parse` of fourteen upper-case hexadecimal digits -/
theorem parse_hex14 (h : Str) (hH : AllIn isHexU h) (hl : h.length = 14) :
    Gen.meid._parse h = .ok (h, []) := by
  have hDU : AllIn isDU h := fun c hc => hexU_du (hH c hc)
  have hall : h.all (fun c => hx16.contains c) = true := by
    apply List.all_eq_true.mpr
    intro c hc
    rw [hx16_contains]; exact hH c hc
  have s1 : slice h (some 0) (some 14) = h := by
    rw [slice_nonneg_nonneg _ (by decide) (by decide)]
    show (h.drop 0).take 14 = h
    rw [List.drop_zero, List.take_of_length_le (by omega)]
  have s2 : slice h (some 14) none = [] := by
    rw [slice_nonneg_none _ (by decide)]
    show h.drop 14 = []
    exact List.drop_of_length_le (by omega)
  unfold Gen.meid._parse
  simp only [meid_cleanup_eq, bind_ok, pure_ok, du_compact_upper hDU _ (by decide : ∀ c ∈ ([32, 45] : Str),
    isAsciiAlnum c = false), ishex_eq, hall, s1, s2]
  have e : ([(14 : Int), 15].contains (h.length : Int)) = true := by rw [hl]; rfl
  simp only [e, if_true, Bool.not_true, Bool.false_eq_true, if_false]

/-- a decimal parse: eighteen digits -/
theorem parse_dec {x n cd : Str} (hp : Gen.meid._parse x = .ok (n, cd)) (hl : n.length = 18) :
    AllIn isAsciiDigit n := by
  unfold Gen.meid._parse at hp
  simp only [meid_cleanup_eq, bind_ok, pure_ok, ishex_eq, isdigits_eq] at hp
  generalize upper (strip (cleanP x [32, 45])) = m at hp
  split at hp
  · split at hp
    · cases hp
    · have := Except.ok.inj hp
      simp only [Prod.mk.injEq] at this
      have hlen := congrArg List.length this.1
      rw [hl] at hlen
      have := slice_length_le_const m (a := 0) (b := 14) (by decide) (by decide)
      simp at this
      omega
  · split at hp
    · cases hd : isDigitsB m with
      | false => simp [hd] at hp
      | true =>
        simp only [hd, Bool.not_true, Bool.false_eq_true, if_false] at hp
        have := Except.ok.inj hp
        simp only [Prod.mk.injEq] at this
        rw [← this.1]
        exact fun c hc => ((isDigitsB_iff m).mp hd).2 c ((sliceL_sublist m _ _).subset hc)
    · cases hp

/-! ## decimal → hexadecimal -/

/-- the hexadecimal form of the decimal MEID `n` (18 digits): manufacturer code in 8, serial number in 6 hex digits -/
def meidHex (n : Str) : Str :=
  fmtXStr 8 true true (Py.digitsVal (n.take 10)) ++ fmtXStr 6 true true (Py.digitsVal ((n.drop 10).take 8))

/-- **MEID, decimal → hex.**  When `validate` accepts a decimal MEID (`_parse` finds 18 digits `n` and possibly a
check digit), it returns the hexadecimal form `meidHex n` (identity: manufacturer code `int(n[:10])` and serial
number `int(n[10:18])` rewritten in base 16); that form consists of 14 upper-case hex digits, is itself accepted
unchanged (target-valid), and is what `compact` returns as well. -/
theorem meid_dec_to_hex (x h n cd : Str) (hv : Gen.meid.validate x true = .ok h)
    (hp : Gen.meid._parse x = .ok (n, cd)) (hl : n.length = 18) :
    h = meidHex n ∧ h.length = 14 ∧ AllIn isHexU h ∧ Gen.meid.validate h true = .ok h ∧
      Gen.meid.compact x true = .ok h := by
  have hD := parse_dec hp hl
  have s1 : slice n (some 0) (some 10) = n.take 10 := by
    rw [slice_nonneg_nonneg _ (by decide) (by decide)]; rfl
  have s2 : slice n (some 10) (some 18) = (n.drop 10).take 8 := by
    rw [slice_nonneg_nonneg _ (by decide) (by decide)]; rfl
  have hD1 : AllIn isAsciiDigit (n.take 10) := fun c hc => hD c (List.mem_of_mem_take hc)
  have hD2 : AllIn isAsciiDigit ((n.drop 10).take 8) :=
    fun c hc => hD c (List.mem_of_mem_drop (List.mem_of_mem_take hc))
  have i1 : Py.intOf (n.take 10) = .ok (Py.digitsVal (n.take 10)) :=
    intOf_of_asciiDigits _ (by intro h0; have := congrArg List.length h0; simp [hl] at this) hD1 (by simp; omega)
  have i2 : Py.intOf ((n.drop 10).take 8) = .ok (Py.digitsVal ((n.drop 10).take 8)) :=
    intOf_of_asciiDigits _ (by intro h0; have := congrArg List.length h0; simp [hl] at this) hD2 (by simp; omega)
  have e18 : ((n.length : Int) == 18) = true := by simp [hl]
  have hM0 := digitsVal_nonneg hD1
  have hS0 := digitsVal_nonneg hD2
  generalize hMdef : Py.digitsVal (n.take 10) = M at i1 hM0
  generalize hSdef : Py.digitsVal ((n.drop 10).take 8) = S at i2 hS0
  -- what `validate` computed
  have key : (decide (intBitLength M > 32) || decide (intBitLength S > 24)) = false ∧
      h = fmtXStr 8 true true M ++ fmtXStr 6 true true S := by
    unfold Gen.meid.validate at hv
    simp only [hp, bind_ok, pure_ok, e18, if_true, s1, s2, i1, i2, fmtX_eq] at hv
    cases hb : (decide (intBitLength M > 32) || decide (intBitLength S > 24)) with
    | true =>
      exfalso
      cases hcd : cd.isEmpty <;> simp only [hcd, hb, Bool.not_true, Bool.not_false, Bool.false_eq_true, if_true,
        if_false] at hv
      · obtain ⟨_, _, hv⟩ := bind_ok_inv hv
        cases hv
      · cases hv
    | false =>
      refine ⟨rfl, ?_⟩
      cases hcd : cd.isEmpty <;> simp only [hcd, hb, Bool.not_true, Bool.not_false, Bool.false_eq_true, if_true,
        if_false] at hv
      · obtain ⟨_, _, hv⟩ := bind_ok_inv hv
        obtain ⟨_, _, hv⟩ := bind_ok_inv hv
        simp only [List.append_nil] at hv
        exact (Except.ok.inj hv).symm
      · obtain ⟨_, _, hv⟩ := bind_ok_inv hv
        simp only [List.append_nil] at hv
        exact (Except.ok.inj hv).symm
  obtain ⟨hbits, hh⟩ := key
  simp only [Bool.or_eq_false_iff, decide_eq_false_iff_not] at hbits
  have hM32 : M.natAbs < 2 ^ 32 := (intBitLength_le_iff M 32).mp (by have := hbits.1; omega)
  have hS24 : S.natAbs < 2 ^ 24 := (intBitLength_le_iff S 24).mp (by have := hbits.2; omega)
  obtain ⟨hA8, hL8⟩ := fmtX_spec 8 (by decide) M hM0 (by
    have : (16 : Nat) ^ 8 = 2 ^ 32 := by decide
    omega)
  obtain ⟨hA6, hL6⟩ := fmtX_spec 6 (by decide) S hS0 (by
    have : (16 : Nat) ^ 6 = 2 ^ 24 := by decide
    omega)
  have hH : AllIn isHexU h := by rw [hh]; exact allIn_append hA8 hA6
  have hlen : h.length = 14 := by rw [hh, List.length_append, hL8, hL6]
  refine ⟨by rw [hh]; unfold meidHex; rw [hMdef, hSdef], hlen, hH, ?_, ?_⟩
  · -- the hexadecimal form is accepted unchanged
    have hDU : AllIn isDU h := fun c hc => hexU_du (hH c hc)
    unfold Gen.meid.validate
    have e18' : ((h.length : Int) == 18) = false := by simp [hlen]
    simp only [parse_hex14 h hH hlen, bind_ok, pure_ok, e18', Bool.false_eq_true, if_false, isdigits_eq,
      List.isEmpty_nil, Bool.not_true, List.append_nil, if_true]
    cases hd : isDigitsB h with
    | false => simp only [Bool.false_eq_true, if_false]
    | true =>
      have hDg := ((isDigitsB_iff h).mp hd).2
      have himei : Gen.imei.validate h = .ok h := by
        unfold Gen.imei.validate Gen.imei.compact
        simp only [clean_eq, isdigits_eq, bind_ok, pure_ok, digits_compact_upper hDg _ (by decide : ∀ c ∈ ([32, 45] : Str),
          isAsciiAlnum c = false), hd, Bool.not_true, Bool.false_eq_true, if_false]
        have e15 : ((h.length : Int) == 15) = false := by simp [hlen]
        have e14 : ([(14 : Int), 16].contains (h.length : Int)) = true := by rw [hlen]; rfl
        simp only [e15, e14, Bool.false_eq_true, if_false, Bool.not_true]
      simp only [if_true, himei, bind_ok]
  · unfold Gen.meid.compact
    simp only [hp, bind_ok, pure_ok, if_true, e18, s1, s2, i1, i2, fmtX_eq, List.isEmpty_nil, Bool.not_true,
      Bool.false_eq_true, if_false, List.append_nil, hh]

/-! ## Non-vacuity: the docstring number -/
section Examples

theorem ex_meid_dec : Gen.meid.validate (str% "29360 87365 0070 3710 0") true = .ok (str% "AF0123450ABCDE") ∧
    Gen.meid._parse (str% "29360 87365 0070 3710 0") = .ok (str% "293608736500703710", str% "0") := by
  decide +kernel
example : str% "AF0123450ABCDE" = meidHex (str% "293608736500703710") ∧ (str% "AF0123450ABCDE").length = 14 ∧
    AllIn isHexU (str% "AF0123450ABCDE") ∧ Gen.meid.validate (str% "AF0123450ABCDE") true = .ok (str% "AF0123450ABCDE") ∧
    Gen.meid.compact (str% "29360 87365 0070 3710 0") true = .ok (str% "AF0123450ABCDE") :=
  meid_dec_to_hex _ _ _ _ ex_meid_dec.1 ex_meid_dec.2 rfl

end Examples

end Props.C08
