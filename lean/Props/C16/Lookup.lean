import Spec.GS1
import Props.C10
/-!
# Props.C16.Lookup — `_gs1_aidb.info(number)[0]` on a number that starts with a registered identifier

Nothing about the shape of the registry is assumed: if looking up `k` alone returns `k` itself with non-empty
properties, then no shorter entry matches, and looking up `k ++ s` returns the same (shortest match wins).
-/
namespace Props.C16
open Spec.GS1 Spec.NumDB Py

theorem aiLookup_eq (db : List Entry) (n : Str) (hn : n ≠ []) :
    aiLookup db n = .ok ((findLoop n db).part, (findLoop n db).properties) := by
  unfold aiLookup Spec.NumDB.info
  rw [Props.C10.find_unfold db n hn]
  rfl

theorem aiLookup_nil (db : List Entry) : aiLookup db [] = .error .indexError := by
  unfold aiLookup Spec.NumDB.info
  rw [Props.C10.find_nil]
  rfl

/-- matching of an entry not longer than `k` only looks at the first `|k|` characters -/
theorem matchesNumber_append (k s : Str) (e : Entry) (h : e.length ≤ k.length) :
    matchesNumber (k ++ s) e = matchesNumber k e := by
  have h1 : (k ++ s).take e.length = k.take e.length := by
    rw [List.take_append_of_le_length h]
  have h2 : e.length ≤ k.length + s.length := by omega
  simp [matchesNumber, h1, h, h2]

/-- **aiLookup_append** -/
theorem aiLookup_append {db : List Entry} {k : Str} {props : Spec.NumDB.Dict} (hk : k ≠ [])
    (h : aiLookup db k = .ok (k, props)) (hp : props ≠ []) (s : Str) :
    aiLookup db (k ++ s) = .ok (k, props) := by
  rw [aiLookup_eq db k hk] at h
  have hpart : (findLoop k db).part = k := by injection h with h; exact (Prod.mk.inj h).1
  have hprops : (findLoop k db).properties = props := by injection h with h; exact (Prod.mk.inj h).2
  have hks : k ++ s ≠ [] := by simp [hk]
  rw [aiLookup_eq db (k ++ s) hks]
  -- the matching entries for `k`
  by_cases hm : db.filter (matchesNumber k) = []
  · have := (Props.C10.findLoop_spec k db).1 hm
    rw [this] at hprops
    exact absurd hprops.symm hp
  · obtain ⟨⟨e0, he0, hl0⟩, hmin⟩ := Props.C10.minLength_spec _ hm
    have hspec := (Props.C10.findLoop_spec k db).2 _ ⟨e0, he0, hl0⟩ hmin
    -- the minimal length is `|k|`
    have hle : minLength (db.filter (matchesNumber k)) ≤ k.length := by
      have := Props.C10.matchesNumber_length_le (List.mem_filter.mp he0).2
      omega
    have hl : minLength (db.filter (matchesNumber k)) = k.length := by
      have hp' : (findLoop k db).part = k.take (minLength (db.filter (matchesNumber k))) := by rw [hspec]
      rw [hpart] at hp'
      have := congrArg List.length hp'
      rw [List.length_take] at this
      omega
    rw [hl] at hspec hmin
    -- for `k ++ s`: the same entries of length `|k|` match, none shorter
    have hex' : ∃ e ∈ db.filter (matchesNumber (k ++ s)), e.length = k.length := by
      refine ⟨e0, ?_, by omega⟩
      rw [List.mem_filter] at he0 ⊢
      refine ⟨he0.1, ?_⟩
      rw [matchesNumber_append k s e0 (by omega)]; exact he0.2
    have hmin' : ∀ e ∈ db.filter (matchesNumber (k ++ s)), k.length ≤ e.length := by
      intro e he
      by_cases hlen : e.length ≤ k.length
      · rw [List.mem_filter] at he
        have : e ∈ db.filter (matchesNumber k) := by
          rw [List.mem_filter]
          exact ⟨he.1, by rw [← matchesNumber_append k s e hlen]; exact he.2⟩
        exact hmin e this
      · omega
    have hspec' := (Props.C10.findLoop_spec (k ++ s) db).2 _ hex' hmin'
    have hsel : Props.C10.selected (k ++ s) db k.length = Props.C10.selected k db k.length := by
      unfold Props.C10.selected
      rw [List.filter_filter, List.filter_filter]
      apply List.filter_congr
      intro e _
      by_cases hlen : e.length = k.length
      · simp [hlen, matchesNumber_append k s e (by omega)]
      · have : (e.length == k.length) = false := by simpa using hlen
        rw [this]; rfl
    rw [hspec', hsel]
    rw [hspec] at hprops
    rw [hprops, List.take_left']
    rfl

end Props.C16
