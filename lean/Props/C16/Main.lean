import Props.C16.Spec
import Props.C16.Codec
import Props.C16.Sort
/-!
# Props.C16.Main — `info (encode m) = m` and `validate` is idempotent, for all well-formed mappings outside the
known defects
-/
namespace Props.C16
open Spec.GS1 Py

/-! ## from an item of a well-formed mapping to a resolved item -/

theorem registered_unique {env : Env} {k fmt typ fmt' typ' : Str} {fnc1 fnc1' : Bool}
    (h : Registered env k fmt typ fnc1) (h' : Registered env k fmt' typ' fnc1') :
    fmt = fmt' ∧ typ = typ' ∧ fnc1 = fnc1' := by
  obtain ⟨p, hl, _, hf, ht, hc⟩ := h
  obtain ⟨p', hl', _, hf', ht', hc'⟩ := h'
  rw [hl] at hl'
  injection hl' with hl'
  have hp : p = p' := (Prod.mk.inj hl').2
  subst hp
  rw [hf] at hf'; rw [ht] at ht'; rw [hc] at hc'
  injection hf' with hf'; injection ht' with ht'
  exact ⟨hf', ht', hc'⟩

theorem runValidator_none {env : Env} {k : Str} (h : env.validate k = none) (v : GsVal) :
    runValidator env k v = .ok () := by
  unfold runValidator; rw [h]; rfl

/-- what `resolve_item` returns besides `Good` -/
structure Resolved (env : Env) (sep : Str) (k : Str) (v : GsVal) (r : RItem) : Prop where
  hk : r.k = k
  hv : r.v = v
  good : r.Good env sep
  reg : Registered env k r.fmt r.typ r.fnc1
  fullDec : r.typ = sDecimal → ¬ IsVarDec r.fmt → r.t.length = r.L
  fullDate : r.typ = sDate → FullLengthDate r.fmt v → r.t.length = r.L

theorem resolve_item {env : Env} {sep k : Str} {v : GsVal} (hsep : SepOK sep) (hok : ItemOK env sep k v)
    (h8 : ∀ fmt typ fnc1, Registered env k fmt typ fnc1 →
      ∃ D, declMax fmt = some D ∧ maxLength fmt typ = .ok ((D + if typ = sDecimal then 1 else 0 : Nat) : Int))
    (h16 : ∀ s ∈ textParts v, 40 ∉ s ∧ 41 ∉ s)
    (h17 : ∀ fmt typ fnc1, Registered env k fmt typ fnc1 → ∀ neg c e, decOf v = some (.fin neg c e) →
      ∀ K, fieldDigits fmt = some K → e = 0 ∨ -e < (K : Int))
    (h20 : ∀ fmt typ fnc1, Registered env k fmt typ fnc1 → IsN6N4 fmt → ∀ d s, v ≠ .datetime d 0 0 s) :
    ∃ r : RItem, Resolved env sep k v r := by
  obtain ⟨fmt, typ, fnc1, hreg, hfits⟩ := hok.fits
  obtain ⟨D, hD, hmax⟩ := h8 fmt typ fnc1 hreg
  obtain ⟨t, ht⟩ := textOf_of_fits hsep hfits hD h16 (h17 fmt typ fnc1 hreg) (h20 fmt typ fnc1 hreg) hok.nosep
  refine ⟨⟨k, v, fmt, typ, fnc1, D + (if typ = sDecimal then 1 else 0), t⟩, rfl, rfl, ?_, hreg, ?_, ?_⟩
  · refine ⟨hok.key.1, hok.key.2, hreg, hmax, ht.codec, ht.fixed, ?_, ?_⟩
    · -- the validator accepts the value …
      cases hval : env.validate k with
      | none => exact runValidator_none hval v
      | some f =>
        obtain ⟨s, hs, hf⟩ := hok.valid f hval
        have := hf 0
        simp only [List.replicate_zero, List.append_nil] at this
        simp only [runValidator, hval, hs, this]
    · -- … and its text, padded or not
      cases hval : env.validate k with
      | none => exact ⟨runValidator_none hval _, runValidator_none hval _⟩
      | some f =>
        obtain ⟨s, hs, hf⟩ := hok.valid f hval
        obtain ⟨hts, hpad⟩ := ht.str s hs
        have h0 := hf 0
        simp only [List.replicate_zero, List.append_nil] at h0
        simp only [runValidator, hval]
        exact ⟨by rw [hts]; exact h0, by rw [hpad]; exact hf _⟩
  · intro htyp hnv
    simp only at htyp hnv ⊢
    rw [if_pos htyp]; exact ht.fullDec htyp hnv
  · intro htyp hfull
    simp only at htyp hfull ⊢
    have : typ ≠ sDecimal := by rw [htyp]; exact sDate_ne_sDecimal
    rw [if_neg this]; exact ht.fullDate htyp hfull

/-! ## `encode` on resolved items -/

def mkVar (par : Bool) (r : RItem) : VarItem := ⟨aiFmt par r.k, r.fmt, r.typ, r.t⟩

theorem encodeItems_ok {env : Env} {sep : Str} (par : Bool) :
    ∀ (rs : List RItem), (∀ r ∈ rs, r.Good env sep) →
      encodeItems env par (itemsOf rs)
        = .ok ((rs.filter (fun r => !r.fnc1)).map (fun r => aiFmt par r.k ++ r.t),
               (rs.filter (fun r => r.fnc1)).map (mkVar par))
  | [], _ => rfl
  | r :: rs, h => by
    have hg := h r List.mem_cons_self
    obtain ⟨p, hlook, hpne, hfmt, htyp, hfnc⟩ := hg.props
    have ih := encodeItems_ok par rs (fun x hx => h x (List.mem_cons_of_mem _ hx))
    have h1 : p.isEmpty = false := by cases p <;> simp_all
    simp only [itemsOf, List.map_cons] at ih ⊢
    rw [encodeItems, hlook]
    simp only [h1, Bool.false_eq_true, if_false, hg.validEnc, dictGet_of_get? hfmt, dictGet_of_get? htyp,
      hg.codec.enc, ih, hfnc]
    cases hf : r.fnc1 <;> simp [hf, mkVar]

theorem padValue_ok {r : RItem} {env : Env} {sep : Str} (hg : r.Good env sep) :
    padValue r.fmt r.typ r.t = .ok (padTxt r.typ r.L r.t) := by
  unfold padValue padTxt
  rw [hg.maxlen]
  simp only
  split <;> rfl

theorem joinVars_ok {env : Env} {sep : Str} (par : Bool) :
    ∀ (V : List RItem), (∀ r ∈ V, r.Good env sep) → joinVars sep (V.map (mkVar par)) = .ok (varTxtP par sep V)
  | [], _ => rfl
  | [r], _ => rfl
  | r :: r' :: rest, h => by
    have hg := h r List.mem_cons_self
    have ih := joinVars_ok par (r' :: rest) (fun x hx => h x (List.mem_cons_of_mem _ hx))
    simp only [List.map_cons] at ih ⊢
    rw [joinVars, ih]
    simp only [mkVar, varTxtP]
    cases sep with
    | nil =>
      simp only [List.isEmpty_nil, Bool.not_true, Bool.false_eq_true, if_false, padValue_ok hg, if_true]
    | cons c cs =>
      simp only [List.isEmpty_cons, Bool.not_false, if_true]
      rw [if_neg (by simp)]


/-! ## the whole mapping -/

theorem resolve_all {env : Env} {sep : Str} :
    ∀ items : Dict, (∀ kv ∈ items, ∃ r, Resolved env sep kv.1 kv.2 r) →
      ∃ rs : List RItem, itemsOf rs = items ∧ ∀ r ∈ rs, Resolved env sep r.k r.v r
  | [], _ => ⟨[], rfl, fun _ h => by cases h⟩
  | kv :: items, h => by
    obtain ⟨r, hr⟩ := h kv List.mem_cons_self
    obtain ⟨rs, hrs, hall⟩ := resolve_all items (fun x hx => h x (List.mem_cons_of_mem _ hx))
    refine ⟨r :: rs, ?_, ?_⟩
    · simp only [itemsOf, List.map_cons] at hrs ⊢
      rw [hrs, hr.hk, hr.hv]
    · intro x hx
      rcases List.mem_cons.mp hx with rfl | hx
      · have := hr; rw [← hr.hk, ← hr.hv] at this; exact this
      · exact hall x hx

theorem length_le_fixedTxt {env : Env} {sep : Str} : ∀ (F : List RItem), (∀ r ∈ F, r.Good env sep) →
    F.length ≤ (fixedTxt F).length
  | [], _ => by simp
  | r :: F, h => by
    have hk := (h r List.mem_cons_self).kne
    have ih := length_le_fixedTxt F (fun x hx => h x (List.mem_cons_of_mem _ hx))
    have : 0 < r.k.length := List.length_pos_iff.mpr hk
    simp only [fixedTxt, List.map_cons, List.flatten_cons, List.length_append, List.length_cons] at ih ⊢
    omega

theorem length_le_varTxt {env : Env} {sep : Str} : ∀ (V : List RItem), (∀ r ∈ V, r.Good env sep) →
    V.length ≤ (varTxt sep V).length
  | [], _ => by simp
  | [r], h => by
    have hk := (h r List.mem_cons_self).kne
    have : 0 < r.k.length := List.length_pos_iff.mpr hk
    simp only [varTxt, List.length_append, List.length_cons, List.length_nil]
    omega
  | r :: r' :: rest, h => by
    have hk := (h r List.mem_cons_self).kne
    have ih := length_le_varTxt (r' :: rest) (fun x hx => h x (List.mem_cons_of_mem _ hx))
    have : 0 < r.k.length := List.length_pos_iff.mpr hk
    simp only [varTxt, List.length_append, List.length_cons] at ih ⊢
    omega

theorem fixedTxtP_eq (par : Bool) (F : List RItem) :
    (F.map (fun r => aiFmt par r.k ++ r.t)).flatten = fixedTxtP par F := rfl

theorem startsWithKey_varTxt {env : Env} {sep : Str} (V : List RItem) (h : ∀ r ∈ V, r.Good env sep) :
    StartsWithKey (varTxt sep V) := by
  match V, h with
  | [], _ => exact Or.inl rfl
  | [r], h =>
    have g := h r List.mem_cons_self
    exact startsWithKey_key g.kne g.kdig _
  | r :: r' :: rest, h =>
    have g := h r List.mem_cons_self
    simp only [varTxt]
    exact startsWithKey_key g.kne g.kdig _

/-- the partition into fixed-length and variable-length items keeps all items -/
theorem partition_perm (rs : List RItem) :
    (itemsOf (rs.filter (fun r => !r.fnc1)) ++ itemsOf (rs.filter (fun r => r.fnc1))).Perm (itemsOf rs) := by
  have h := List.filter_append_perm (fun r : RItem => !r.fnc1) rs
  have e : (fun x : RItem => !(fun r : RItem => !r.fnc1) x) = fun r => r.fnc1 := by
    funext x; simp
  rw [e] at h
  have := h.map (fun r : RItem => (r.k, r.v))
  simpa [itemsOf] using this

/-- **the core**: `info` decodes what `encode` wrote for resolved items -/
theorem info_encode_core {env : Env} {sep : Str} {par : Bool} (hsep : SepOK sep) {m : Dict} (rs : List RItem)
    (hitems : itemsOf rs = sortedItems m) (hnd : (m.map Prod.fst).Nodup)
    (hgood : ∀ r ∈ rs, r.Good env sep)
    (hpad : sep = [] → ∀ r ∈ (rs.filter (fun r => r.fnc1)).dropLast, (r.typ = sDecimal ∨ r.typ = sDate) →
      r.t.length = r.L) :
    InfoEncode env sep par m := by
  obtain ⟨F, hFdef⟩ : ∃ F, F = rs.filter (fun r => !r.fnc1) := ⟨_, rfl⟩
  obtain ⟨V, hVdef⟩ : ∃ V, V = rs.filter (fun r => r.fnc1) := ⟨_, rfl⟩
  rw [← hVdef] at hpad
  have hF : ∀ r ∈ F, r.Good env sep ∧ r.fnc1 = false := by
    intro r hr
    rw [hFdef] at hr
    have := List.mem_filter.mp hr
    exact ⟨hgood r this.1, by simpa using this.2⟩
  have hV : ∀ r ∈ V, r.Good env sep ∧ r.fnc1 = true := by
    intro r hr
    rw [hVdef] at hr
    have := List.mem_filter.mp hr
    exact ⟨hgood r this.1, by simpa using this.2⟩
  have hFg : ∀ r ∈ F, r.Good env sep := fun r hr => (hF r hr).1
  have hVg : ∀ r ∈ V, r.Good env sep := fun r hr => (hV r hr).1
  -- encode
  have henc : encode env sep par m = .ok (fixedTxtP par F ++ varTxtP par sep V) := by
    unfold encode
    rw [← hitems, encodeItems_ok par rs hgood, ← hFdef, ← hVdef]
    simp only [joinVars_ok par V hVg, fixedTxtP_eq]
  -- the keys are distinct
  have hperm : (itemsOf F ++ itemsOf V).Perm m := by
    rw [hFdef, hVdef]
    exact (partition_perm rs).trans (hitems ▸ sortedItems_perm m)
  have hkeys : ((itemsOf F ++ itemsOf V).map Prod.fst).Nodup := (hperm.map Prod.fst).nodup_iff.mpr hnd
  rw [List.map_append, List.nodup_append] at hkeys
  obtain ⟨hndF, hndV, hdisj⟩ := hkeys
  -- info
  have hinfo : info env sep (fixedTxtP par F ++ varTxtP par sep V) = .ok (itemsOf F ++ itemsOf V) := by
    unfold info
    rw [compact_enc hsep par F V hFg hVg]
    simp only
    have hstart : StartsWithKey (fixedTxt F ++ varTxt sep V) := by
      by_cases hFe : F = []
      · rw [hFe]; simpa [fixedTxt] using startsWithKey_varTxt V hVg
      · match hFm : F, hFe, hFg with
        | r :: F', _, hFg' =>
          have g := hFg' r List.mem_cons_self
          simp only [fixedTxt, List.map_cons, List.flatten_cons, List.append_assoc]
          exact startsWithKey_key g.kne g.kdig _
    rw [skipSep_of (startswith_digit_false hsep hstart)]
    have hlen : F.length + V.length ≤ (fixedTxt F ++ varTxt sep V).length := by
      rw [List.length_append]
      have := length_le_fixedTxt F hFg
      have := length_le_varTxt V hVg
      omega
    obtain ⟨fuel, hfuel⟩ : ∃ fuel, (fixedTxt F ++ varTxt sep V).length + 1 = F.length + (V.length + fuel) :=
      ⟨(fixedTxt F ++ varTxt sep V).length + 1 - F.length - V.length, by omega⟩
    rw [hfuel, infoLoop_fixed hsep F (varTxt sep V) [] (V.length + fuel) hF (startsWithKey_varTxt V hVg)
      (fun r _ => by simp) hndF]
    rw [infoLoop_vars hsep V _ fuel hV hpad ?_ hndV]
    · rw [List.nil_append]
    · intro r hr hmem
      rw [List.nil_append] at hmem
      exact hdisj r.k hmem r.k (List.mem_map.mpr ⟨(r.k, r.v), List.mem_map.mpr ⟨r, hr, rfl⟩, rfl⟩) rfl
  exact ⟨_, _, henc, hinfo, hperm⟩


/-! ## the theorems -/

/-- **info_encode_partial** — for every registry, every validator assignment, every well-formed mapping of any
size, with or without a (one-character) separator, with or without parentheses: decoding the encoding returns the
mapping — provided the mapping stays clear of the six known defects.

The full statement (`∀ m, WFmap env sep m → InfoEncode env sep par m`) is false: `Props.C16.info_encode_false`. -/
theorem info_encode_partial {env : Env} {sep : Str} {par : Bool} {m : Dict} (hsep : SepOK sep)
    (hwf : WFmap env sep m)
    (no_R8_unparseable_format : NoR8 env m)
    (no_R16_parentheses_in_value : NoR16 m)
    (no_R17_decimal_text_longer_than_field : NoR17 env m)
    (no_R18_padded_variable_decimal : NoR18 env sep m)
    (no_R19_padded_short_date : NoR19 env sep m)
    (no_R20_midnight_datetime : NoR20 env m) :
    InfoEncode env sep par m := by
  obtain ⟨hnd, hitems⟩ := hwf
  have hmem : ∀ kv, kv ∈ sortedItems m → kv ∈ m := fun kv h => (sortedItems_perm m).subset h
  obtain ⟨rs, hrs, hres⟩ := resolve_all (env := env) (sep := sep) (sortedItems m) (by
    intro kv hkv
    have hm := hmem kv hkv
    exact resolve_item hsep (hitems kv hm) (no_R8_unparseable_format kv hm) (no_R16_parentheses_in_value kv hm)
      (no_R17_decimal_text_longer_than_field kv hm) (no_R20_midnight_datetime kv hm))
  have hin : ∀ r ∈ rs, (r.k, r.v) ∈ m := by
    intro r hr
    apply hmem
    rw [← hrs]
    exact List.mem_map.mpr ⟨r, hr, rfl⟩
  refine info_encode_core hsep rs hrs hnd (fun r hr => (hres r hr).good) ?_
  intro hs r hr htyp
  -- `r` is followed by another variable-length item `last`
  have hsorted : rs.Pairwise (fun a b => Py.strLt a.k b.k = true) := by
    have := sortedItems_pairwise hnd
    rw [← hrs, itemsOf, List.pairwise_map] at this
    exact this
  have hVs : (rs.filter (fun r => r.fnc1)).Pairwise (fun a b => Py.strLt a.k b.k = true) :=
    hsorted.sublist List.filter_sublist
  have hVne : rs.filter (fun r => r.fnc1) ≠ [] := by
    intro h; rw [h] at hr; cases hr
  have hsplit := List.dropLast_concat_getLast hVne
  have hlast := List.getLast_mem hVne
  have hlt : Py.strLt r.k ((rs.filter (fun r => r.fnc1)).getLast hVne).k = true := by
    rw [← hsplit] at hVs
    exact (List.pairwise_append.mp hVs).2.2 r hr _ List.mem_cons_self
  obtain ⟨hlast_rs, hlast_fnc⟩ := List.mem_filter.mp hlast
  have hr_rs : r ∈ rs := (List.mem_filter.mp (List.dropLast_subset _ hr)).1
  have hpadded : Padded env m r.k :=
    ⟨(_, _), hin _ hlast_rs, hlt, _, _, by have := (hres _ hlast_rs).reg; rwa [hlast_fnc] at this⟩
  have hres_r := hres r hr_rs
  rcases htyp with htyp | htyp
  · refine hres_r.fullDec htyp ?_
    have hreg := hres_r.reg; rw [htyp] at hreg
    exact no_R18_padded_variable_decimal hs (r.k, r.v) (hin r hr_rs) hpadded r.fmt r.fnc1 hreg
  · refine hres_r.fullDate htyp ?_
    have hreg := hres_r.reg; rw [htyp] at hreg
    exact no_R19_padded_short_date hs (r.k, r.v) (hin r hr_rs) hpadded r.fmt r.fnc1 hreg

/-! ### `validate` -/

theorem dictGet?_eq_some_iff : ∀ {d : Dict} {k : Str} {v : GsVal}, (d.map Prod.fst).Nodup →
    (Py.dictGet? d k = some v ↔ (k, v) ∈ d)
  | [], k, v, _ => by simp [Py.dictGet?]
  | (k', v') :: d, k, v, hnd => by
    have hnd' : (d.map Prod.fst).Nodup := by simp only [List.map_cons, List.nodup_cons] at hnd; exact hnd.2
    have hk' : k' ∉ d.map Prod.fst := by simp only [List.map_cons, List.nodup_cons] at hnd; exact hnd.1
    have ih := dictGet?_eq_some_iff (d := d) (k := k) (v := v) hnd'
    unfold Py.dictGet? at ih ⊢
    by_cases hkk : k' = k
    · subst hkk
      simp only [List.find?_cons, beq_self_eq_true, Option.map_some, Option.some.injEq, List.mem_cons, Prod.mk.injEq,
        true_and]
      constructor
      · intro h; exact Or.inl h.symm
      · rintro (h | h)
        · exact h.symm
        · exact absurd (List.mem_map.mpr ⟨(k', v), h, rfl⟩) hk'
    · have : (k' == k) = false := by simpa using hkk
      simp only [List.find?_cons, this, List.mem_cons, Prod.mk.injEq]
      rw [ih]
      constructor
      · intro h; exact Or.inr h
      · rintro (⟨h, _⟩ | h)
        · exact absurd h.symm hkk
        · exact h

/-- mappings with the same items are equal as `dict`s -/
theorem dictEq_of_perm {a b : Dict} (hp : a.Perm b) (hnd : (b.map Prod.fst).Nodup) : DictEq a b := by
  have hnda : (a.map Prod.fst).Nodup := (hp.map Prod.fst).nodup_iff.mpr hnd
  intro k
  apply Option.ext
  intro v
  rw [dictGet?_eq_some_iff hnda, dictGet?_eq_some_iff hnd]
  exact hp.mem_iff

theorem encode_congr {env : Env} {sep : Str} {par : Bool} {m m' : Dict} (hnd : (m.map Prod.fst).Nodup)
    (hp : m'.Perm m) : encode env sep par m' = encode env sep par m := by
  unfold encode
  rw [sortedItems_congr hnd hp]

/-- **validate_fixed_partial** — if the mapping decoded from `x` is well-formed and clear of the known defects, then
the validated form is a fixed point of `validate` and decodes to the same mapping.

The full statement (`∀ x, ValidateFixed env sep x`) is false: `Props.C16.validate_fixed_false`.  What is missing
for a statement about `x` alone: a characterisation of the element strings whose decoded mapping is well-formed
(arbitrary strings decode to empty values, negative integers, `NaN`, over-long values before a separator …). -/
theorem validate_fixed_partial {env : Env} {sep : Str} {x : Str} (hsep : SepOK sep)
    (hm : ∀ m, info env sep x = .ok m →
      WFmap env sep m ∧ NoR8 env m ∧ NoR16 m ∧ NoR17 env m ∧ NoR18 env sep m ∧ NoR19 env sep m ∧ NoR20 env m) :
    ValidateFixed env sep x := by
  intro v hv
  unfold validate at hv
  cases hi : info env sep x with
  | error e =>
    rw [hi] at hv
    simp only at hv
    split at hv <;> cases hv
  | ok m =>
    obtain ⟨hwf, h8, h16, h17, h18, h19, h20⟩ := hm m hi
    obtain ⟨w, m', henc, hinfo, hperm⟩ := info_encode_partial (par := false) hsep hwf h8 h16 h17 h18 h19 h20
    rw [hi] at hv
    simp only [henc] at hv
    injection hv with hv
    subst hv
    refine ⟨?_, m, m', rfl, hinfo, dictEq_of_perm hperm hwf.1⟩
    unfold validate
    rw [hinfo]
    simp only [encode_congr hwf.1 hperm, henc]


/-! ## termination of `while number:` -/

theorem skipSep_length_le (sep number : Str) : (skipSep sep number).length ≤ number.length := by
  unfold skipSep
  split
  · rw [Py.slice_some_none_length _ (by omega)]; omega
  · exact Nat.le_refl _

/-- every iteration removes the identifier, which is not empty in a well-formed registry -/
theorem infoStep_shrinks {env : Env} {sep number : Str} {data : Dict} {n' : Str} {d' : Dict}
    (hwf : Spec.NumDB.wfList env.db = true) (hne : number ≠ [])
    (h : infoStep env sep number data = .ok (n', d')) : n'.length < number.length := by
  unfold infoStep at h
  rw [aiLookup_eq env.db number hne] at h
  simp only at h
  split at h
  · cases h
  · have hpart := (Props.C10.findLoop_wf number env.db hne hwf).2
    have hpos : 0 < (Spec.NumDB.findLoop number env.db).part.length := List.length_pos_iff.mpr hpart
    have hle := Props.C10.findLoop_part_length_le number env.db
    unfold infoValue at h
    split at h
    · cases h
    · split at h
      · cases h
      · split at h
        · cases h
        · simp only at h
          split at h
          · cases h
          · split at h
            · cases h
            · injection h with h
              have h1 := (Prod.mk.inj h).1
              rw [← h1]
              refine Nat.lt_of_le_of_lt (skipSep_length_le _ _) ?_
              rw [Py.slice_some_none_length _ (by omega), Py.slice_some_none_length _ (by omega)]
              omega

/-- **infoLoop_fuel** — for a registry whose entries all have length ≥ 1 the loop needs at most `len(number)`
iterations: any larger fuel gives the same result (`info` supplies `len(number) + 1`) -/
theorem infoLoop_fuel {env : Env} {sep : Str} (hwf : Spec.NumDB.wfList env.db = true) :
    ∀ (f f' : Nat) (number : Str) (data : Dict), number.length ≤ f → number.length ≤ f' →
      infoLoop env sep f number data = infoLoop env sep f' number data
  | f, f', [], data, _, _ => by rw [infoLoop_nil, infoLoop_nil]
  | 0, _, c :: cs, _, h, _ => by simp at h
  | _, 0, c :: cs, _, _, h => by simp at h
  | f + 1, f' + 1, c :: cs, data, h, h' => by
    simp only [infoLoop]
    cases hs : infoStep env sep (c :: cs) data with
    | error e => rfl
    | ok r =>
      obtain ⟨n', d'⟩ := r
      have hlt := infoStep_shrinks hwf (by simp) hs
      simp only
      exact infoLoop_fuel hwf f f' n' d' (by simp only [List.length_cons] at h hlt; omega)
        (by simp only [List.length_cons] at h' hlt; omega)

end Props.C16
