import Spec.GS1
import Lemmas.Int
import Lemmas.Str
import Lemmas.Strip
/-!
# Props.C16.Dec — the `decimal` codec of `Spec.GS1` round-trips (used by `Props.C16`)

`Decimal(str(d)) = d` for the non-negative finite decimals with 0–9 decimal places (also behind leading
zeros), and from it: `_decode_value(fmt, 'decimal', _encode_value(fmt, 'decimal', d)) = d` for the formats
`N..k` and `Nk`, when the text of `d` is not longer than the field.

The bounds `(strOfNat c).length ≤ 4300` / `digitsNat ds ≤ 4300` are needed: `Decimal(text)` raises when the
adjusted exponent exceeds `Emax = 999999999999999999`, i.e. for coefficients of more than about `10 ^ 18` digits.
-/
namespace Props.C16
open Spec.GS1 Py

/-! ### `str(d)` for exponent `-p`: the four layouts, and their common shape -/

/-- `Dec.finBody` with the `Int` arithmetic resolved: `0.00ddd`, `ddd`, `d.dd`, or scientific `d[.dd]E-n` -/
theorem finBody_neg (c p : Nat) : Dec.finBody c (-(p:Int)) =
    (if p < (strOfNat c).length + 6 then
      if (strOfNat c).length ≤ p then [48,46] ++ List.replicate (p - (strOfNat c).length) 48 ++ strOfNat c
      else if p = 0 then strOfNat c
      else (strOfNat c).take ((strOfNat c).length - p) ++ [46] ++ (strOfNat c).drop ((strOfNat c).length - p)
    else (if (strOfNat c).length = 1 then strOfNat c else (strOfNat c).take 1 ++ [46] ++ (strOfNat c).drop 1)
      ++ 69 :: 45 :: strOfNat (p + 1 - (strOfNat c).length)) := by
  have hnd := strOfNat_length_pos c
  unfold Dec.finBody
  simp only []
  generalize strOfNat c = digits at *
  generalize hn : digits.length = nd at *
  by_cases h1 : p < nd + 6
  · have e1 : (-(p:Int) ≤ 0 ∧ -(p:Int) + (nd:Int) > -6) := by omega
    simp only [if_pos e1, if_pos h1, if_true, List.append_nil]
    by_cases h2 : nd ≤ p
    · have e2 : -(p:Int) + (nd:Int) ≤ 0 := by omega
      have e3 : (-(-(p:Int) + (nd:Int))).toNat = p - nd := by omega
      simp only [if_pos e2, if_pos h2, e3]
    · have e2 : ¬ (-(p:Int) + (nd:Int) ≤ 0) := by omega
      simp only [if_neg e2, if_neg h2]
      by_cases h3 : p = 0
      · subst h3
        simp
      · have e3 : ¬ (-(p:Int) + (nd:Int) ≥ nd) := by omega
        have e4 : (-(p:Int) + (nd:Int)).toNat = nd - p := by omega
        simp only [if_neg e3, if_neg h3, e4]
  · have e1 : ¬ (-(p:Int) ≤ 0 ∧ -(p:Int) + (nd:Int) > -6) := by omega
    have e2 : ¬ (-(p:Int) + (nd:Int) = 1) := by omega
    simp only [if_neg e1, if_neg h1, if_neg e2]
    have e3 : ¬ ((1:Int) ≤ 0) := by omega
    have e4 : (-(p:Int) + (nd:Int) - 1) < 0 := by omega
    have e5 : (-(p:Int) + (nd:Int) - 1).natAbs = p + 1 - nd := by omega
    simp only [if_neg e3, fmtSignedInt, if_pos e4, e5]
    by_cases h2 : nd = 1
    · subst h2; simp
    · have e6 : ¬ ((1:Int) ≥ nd) := by omega
      simp [if_neg e6, h2]

/-- exponent suffix: nothing, or `E-<one digit>` -/
def expPart (ex : Nat) : Str := if ex = 0 then [] else [69, 45, 48 + ex]

/-- `str(d)` is `ip [. fp] [E-ex]` with `ip ++ fp = 0…0 ++ digits(c)` and `ex + len fp = p` -/
theorem finBody_shape (c p : Nat) (hp : p ≤ 9) :
    ∃ (ip fp : Str) (dot : Bool) (ex z' : Nat),
      Dec.finBody c (-(p:Int)) = ip ++ (if dot then 46 :: fp else []) ++ expPart ex
      ∧ AllIn isAsciiDigit ip ∧ AllIn isAsciiDigit fp ∧ ip ≠ [] ∧ (dot = false → fp = []) ∧ (dot = true → fp ≠ [])
      ∧ (ex ≤ 9 ∧ (ex = 0 ∨ 7 ≤ ex)) ∧ ip ++ fp = List.replicate z' 48 ++ strOfNat c ∧ ex + fp.length = p
      ∧ ip.length + fp.length + (expPart ex).length ≤
          (if p = 0 then (strOfNat c).length else max (strOfNat c).length (p + 1)) := by
  rw [finBody_neg]
  have hnd := strOfNat_length_pos c
  have hdig := strOfNat_allDigits c
  generalize strOfNat c = digits at *
  have h48 : isAsciiDigit 48 = true := by decide
  have hne : digits ≠ [] := by intro h; simp [h] at hnd
  by_cases h1 : p < digits.length + 6
  · rw [if_pos h1]
    by_cases h2 : digits.length ≤ p
    · rw [if_pos h2, if_neg (by omega : ¬ p = 0)]
      refine ⟨[48], List.replicate (p - digits.length) 48 ++ digits, true, 0, (p - digits.length) + 1,
        ?_, ?_, ?_, ?_, ?_, ?_, ?_, ?_, ?_, ?_⟩
      · simp [expPart]
      · simp
      · exact (AllIn.replicate h48 _).append hdig
      · simp
      · simp
      · intro _ h; simp at h; exact hne h.2
      · omega
      · simp [List.replicate_succ]
      · simp; omega
      · simp [expPart]; omega
    · rw [if_neg h2]
      by_cases h3 : p = 0
      · rw [if_pos h3, if_pos h3]
        refine ⟨digits, [], false, 0, 0, ?_, hdig, AllIn.nil, hne, ?_, ?_, ?_, ?_, ?_, ?_⟩
        · simp [expPart]
        · simp
        · simp
        · omega
        · simp
        · simp; omega
        · simp [expPart]
      · rw [if_neg h3, if_neg h3]
        refine ⟨digits.take (digits.length - p), digits.drop (digits.length - p), true, 0, 0,
          ?_, hdig.take _, hdig.drop _, ?_, ?_, ?_, ?_, ?_, ?_, ?_⟩
        · simp [expPart]
        · intro h; have := congrArg List.length h; simp at this; omega
        · simp
        · intro _ h; have := congrArg List.length h; simp at this; omega
        · omega
        · simp
        · simp; omega
        · simp [expPart]; omega
  · rw [if_neg h1, if_neg (by omega : ¬ p = 0)]
    have e9 : strOfNat (p + 1 - digits.length) = [48 + (p + 1 - digits.length)] := strOfNat_of_lt_ten (by omega)
    have e0 : p + 1 - digits.length ≠ 0 := by omega
    rw [e9]
    by_cases h2 : digits.length = 1
    · rw [if_pos h2]
      refine ⟨digits, [], false, p + 1 - digits.length, 0, ?_, hdig, AllIn.nil, hne, ?_, ?_, ?_, ?_, ?_, ?_⟩
      · simp [expPart, e0]
      · simp
      · simp
      · omega
      · simp
      · simp; omega
      · simp [expPart, e0]; omega
    · rw [if_neg h2]
      refine ⟨digits.take 1, digits.drop 1, true, p + 1 - digits.length, 0,
        ?_, hdig.take _, hdig.drop _, ?_, ?_, ?_, ?_, ?_, ?_, ?_⟩
      · simp [expPart, e0]
      · intro h; rw [List.take_eq_nil_iff] at h; rcases h with h | h
        · omega
        · exact hne h
      · simp
      · intro _ h; have := congrArg List.length h; simp at this; omega
      · omega
      · simp only [List.replicate_zero, List.nil_append, List.take_append_drop]
      · simp; omega
      · simp [expPart, e0]; omega
/-! ### `Decimal(text)` on such a text -/

theorem digitsNat_foldl_cast (s : Str) (h : AllIn isAsciiDigit s) (acc : Nat) :
    ((s.foldl (fun acc c => acc * 10 + (c - 48)) acc : Nat) : Int)
      = s.foldl (fun (acc : Int) (c : Nat) => acc * 10 + ((c : Int) - 48)) (acc : Int) := by
  induction s generalizing acc with
  | nil => rfl
  | cons d t ih =>
    simp only [List.foldl_cons]
    rw [ih (fun c hc => h c (List.mem_cons_of_mem _ hc))]
    have := h d (List.mem_cons_self ..)
    simp only [isAsciiDigit, Bool.and_eq_true, decide_eq_true_eq] at this
    congr 1
    omega

theorem digitsNat_eq_digitsVal {s : Str} (h : AllIn isAsciiDigit s) : (digitsNat s : Int) = digitsVal s :=
  digitsNat_foldl_cast s h 0

theorem digitsNat_strOfNat (c : Nat) : digitsNat (strOfNat c) = c := by
  have := digitsNat_eq_digitsVal (strOfNat_allDigits c)
  rw [digitsVal_strOfNat] at this
  exact_mod_cast this

theorem digitsNat_zeros (z : Nat) (s : Str) : digitsNat (List.replicate z 48 ++ s) = digitsNat s := by
  unfold digitsNat
  rw [List.foldl_append]
  congr 1
  induction z with
  | zero => rfl
  | succ n ih => simpa [List.replicate_succ] using ih

theorem decExponent_expPart (ex : Nat) (h : ex ≤ 9) : decExponent (expPart ex) = some (-(ex : Int)) := by
  unfold expPart
  split
  · subst_vars; rfl
  · simp [decExponent, allAsciiDigits, digitsNat]; omega

theorem takeWhile_append_stop {α : Type} (p : α → Bool) (a r : List α) (ha : ∀ x ∈ a, p x = true)
    (hr : ∀ x, r.head? = some x → p x = false) :
    (a ++ r).takeWhile p = a ∧ (a ++ r).dropWhile p = r := by
  rw [List.takeWhile_append_of_pos ha, List.dropWhile_append_of_pos ha]
  cases r with
  | nil => simp
  | cons x t =>
    have := hr x rfl
    simp [this]

theorem decNumber_shape (neg : Bool) (ip fp : Str) (dot : Bool) (ex : Nat)
    (hip : AllIn isAsciiDigit ip) (hfp : AllIn isAsciiDigit fp) (hne : ip ≠ []) (hdot : dot = false → fp = [])
    (hex : ex ≤ 9) (hfl : fp.length ≤ 9) (hlen : (strOfNat (digitsNat (ip ++ fp))).length ≤ 4300) :
    decNumber neg (ip ++ (if dot then 46 :: fp else []) ++ expPart ex)
      = .ok (.fin neg (digitsNat (ip ++ fp)) (-(ex : Int) - fp.length)) := by
  have hdig : ∀ c, isAsciiDigit c = true → 48 ≤ c ∧ c ≤ 57 := by
    intro c hc; simpa using hc
  have hmant : ∀ x ∈ ip ++ (if dot then 46 :: fp else []), (!(x == 69 || x == 101)) = true := by
    intro x hx
    have : x = 46 ∨ (48 ≤ x ∧ x ≤ 57) := by
      rcases List.mem_append.mp hx with h | h
      · exact Or.inr (hdig x (hip x h))
      · cases dot with
        | false => simp at h
        | true =>
          rcases List.mem_cons.mp h with h | h
          · exact Or.inl h
          · exact Or.inr (hdig x (hfp x h))
    have h1 : x ≠ 69 := by omega
    have h2 : x ≠ 101 := by omega
    simp [h1, h2]
  have hrest : ∀ x, (expPart ex).head? = some x → (!(x == 69 || x == 101)) = false := by
    intro x hx
    unfold expPart at hx
    split at hx
    · simp at hx
    · simp at hx; subst hx; rfl
  obtain ⟨H1, H2⟩ := takeWhile_append_stop (fun c => !(c == 69 || c == 101)) _ _ hmant hrest
  have hip46 : ∀ x ∈ ip, (x != 46) = true := by
    intro x hx
    have := hdig x (hip x hx)
    have h1 : x ≠ 46 := by omega
    simp [h1]
  have hdp : ∀ x, (if dot then 46 :: fp else []).head? = some x → (x != 46) = false := by
    intro x hx
    cases dot with
    | false => simp at hx
    | true => simp at hx; subst hx; rfl
  obtain ⟨H3, H4⟩ := takeWhile_append_stop (fun c => c != 46) _ _ hip46 hdp
  have H5 : (if dot then 46 :: fp else []).drop 1 = fp := by
    cases dot with
    | false => simp [hdot rfl]
    | true => simp
  unfold decNumber
  simp only [H1, H2, H3, H4, H5]
  have ha1 : allAsciiDigits ip = true := AllIn.all_eq_true.mpr hip
  have ha2 : allAsciiDigits fp = true := AllIn.all_eq_true.mpr hfp
  have hnn : ¬ (ip ++ fp = []) := by simp [hne]
  have hrange : decEtiny ≤ -(ex : Int) - (fp.length : Int) ∧
      (-(ex : Int) - (fp.length : Int) +
        (if digitsNat (ip ++ fp) = 0 then (0 : Int)
          else ((strOfNat (digitsNat (ip ++ fp))).length : Int) - 1)) ≤ decEmax := by
    unfold decEtiny decEmax
    split <;> omega
  rw [decExponent_expPart ex hex]
  simp only [ha1, ha2, hnn, Bool.and_self, Bool.not_true, decide_false, Bool.or_self, Bool.false_eq_true, if_false]
  rw [if_pos hrange]
  rfl

/-- the characters of `str(d)`: digits, `.`, `E`, `-` -/
def TextChar (c : Nat) : Bool := isAsciiDigit c || c == 46 || c == 69 || c == 45

theorem TextChar_iff {c : Nat} : TextChar c = true ↔ (48 ≤ c ∧ c ≤ 57) ∨ c = 46 ∨ c = 69 ∨ c = 45 := by
  simp [TextChar, or_assoc]

theorem mapM_option_id (f : Nat → Option Nat) (s : Str) (h : ∀ c ∈ s, f c = some c) : s.mapM f = some s := by
  induction s with
  | nil => rfl
  | cons d t ih =>
    rw [List.mapM_cons, h d (List.mem_cons_self ..), ih (fun c hc => h c (List.mem_cons_of_mem _ hc))]
    rfl

theorem decAscii_id (s : Str) (h : AllIn TextChar s) : decAscii s = some s := by
  unfold decAscii
  have h1 : strip s = s := by
    apply strip_eq_self_of_no_space
    intro c hc
    have := TextChar_iff.mp (h c hc)
    rw [Uni.isSpace_ascii (by omega)]
    simp; omega
  have h2 : s.filter (· != 95) = s := by
    apply List.filter_eq_self.mpr
    intro c hc
    have := TextChar_iff.mp (h c hc)
    have : c ≠ 95 := by omega
    simp [this]
  rw [h1, h2]
  apply mapM_option_id
  intro c hc
  have := TextChar_iff.mp (h c hc)
  rw [if_pos (by omega)]

theorem decParse_digit (d : Nat) (tl : Str) (hd : isAsciiDigit d = true) :
    decParse (d :: tl) = decNumber false (d :: tl) := by
  have hd' : 48 ≤ d ∧ d ≤ 57 := by simpa using hd
  unfold decParse
  split
  rename_i x neg b heq
  split at heq
  · rename_i h; injection h with h1 _; omega
  · rename_i h; injection h with h1 _; omega
  · injection heq with e1 e2
    subst e1 e2
    have hl : asciiLower d = d := by
      unfold asciiLower; rw [if_neg (by omega)]
    have e1 : d ≠ 110 := by omega
    have e2 : d ≠ 115 := by omega
    have e3 : d ≠ 105 := by omega
    simp [hl, e1, e2, e3]

theorem textChar_of_digit {s : Str} (h : AllIn isAsciiDigit s) : AllIn TextChar s :=
  h.mono (fun c hc => by simp only [TextChar, hc, Bool.true_or])

theorem expPart_textChar (ex : Nat) (h : ex ≤ 9) : AllIn TextChar (expPart ex) := by
  unfold expPart
  split
  · exact AllIn.nil
  · intro c hc
    simp at hc
    apply TextChar_iff.mpr
    omega

theorem dotPart_textChar (dot : Bool) {fp : Str} (h : AllIn isAsciiDigit fp) :
    AllIn TextChar (if dot then 46 :: fp else []) := by
  cases dot with
  | false => exact AllIn.nil
  | true => exact AllIn.cons (by decide) (textChar_of_digit h)

/-- `Decimal('0…0' + str(d)) == d` (same sign, coefficient and exponent) -/
theorem Dec_ofStr_zeros_toStr (z c p : Nat) (hp : p ≤ 9) (hc : (Py.strOfNat c).length ≤ 4300) :
    Dec.ofStr (List.replicate z 48 ++ Dec.toStr (.fin false c (-(p : Int)))) = .ok (.fin false c (-(p : Int))) := by
  obtain ⟨ip, fp, dot, ex, z', hbody, hip, hfp, hne, hdot, -, ⟨hex, -⟩, hcat, hsum, -⟩ := finBody_shape c p hp
  have htext : Dec.toStr (.fin false c (-(p:Int))) = Dec.finBody c (-(p:Int)) := by simp [Dec.toStr]
  have h48 : isAsciiDigit 48 = true := by decide
  have hre : List.replicate z 48 ++ (ip ++ (if dot then 46 :: fp else []) ++ expPart ex)
      = (List.replicate z 48 ++ ip) ++ (if dot then 46 :: fp else []) ++ expPart ex := by
    simp only [List.append_assoc]
  have hzip : AllIn isAsciiDigit (List.replicate z 48 ++ ip) := (AllIn.replicate h48 z).append hip
  rw [htext, hbody, hre]
  unfold Dec.ofStr
  rw [decAscii_id _ (((textChar_of_digit hzip).append (dotPart_textChar dot hfp)).append (expPart_textChar ex hex))]
  simp only
  have hne' : List.replicate z 48 ++ ip ≠ [] := by simp [hne]
  obtain ⟨d, tl, hd, hdt⟩ : ∃ d tl, isAsciiDigit d = true ∧
      (List.replicate z 48 ++ ip) ++ (if dot then 46 :: fp else []) ++ expPart ex = d :: tl := by
    generalize List.replicate z 48 ++ ip = zi at *
    cases zi with
    | nil => exact absurd rfl hne'
    | cons d t => exact ⟨d, t ++ ((if dot then 46 :: fp else []) ++ expPart ex), hzip.head, by simp⟩
  have hval : digitsNat ((List.replicate z 48 ++ ip) ++ fp) = c := by
    rw [List.append_assoc, hcat, ← List.append_assoc, List.replicate_append_replicate, digitsNat_zeros,
      digitsNat_strOfNat]
  rw [hdt, decParse_digit d tl hd, ← hdt,
    decNumber_shape false _ fp dot ex hzip hfp hne' hdot hex (by omega) (by rw [hval]; exact hc), hval]
  congr 2
  omega


/-! ### the text as `number [. frac]` -/

/-- the characters of the encoded value: digits, `E`, `-` -/
def EChar (c : Nat) : Bool := isAsciiDigit c || c == 69 || c == 45

theorem EChar_iff {c : Nat} : EChar c = true ↔ (isAsciiDigit c = true ∨ c = 69 ∨ c = 45) := by
  simp [EChar, or_assoc]

theorem eChar_of_digit {s : Str} (h : AllIn isAsciiDigit s) : AllIn EChar s :=
  h.mono (fun c hc => by simp only [EChar, hc, Bool.true_or])

theorem expPart_eChar (ex : Nat) (h : ex ≤ 9) : AllIn EChar (expPart ex) := by
  unfold expPart
  split
  · exact AllIn.nil
  · intro c hc
    simp at hc
    apply EChar_iff.mpr
    simp only [isAsciiDigit, Bool.and_eq_true, decide_eq_true_eq]
    omega

theorem not46_of_eChar {s : Str} (h : AllIn EChar s) : 46 ∉ s := by
  intro hc
  have := h 46 hc
  revert this
  decide

theorem toStr_split (c p : Nat) (hp : p ≤ 9) :
    ∃ number frac : Str,
      Dec.toStr (.fin false c (-(p : Int))) = number ++ (if frac = [] then [] else 46 :: frac)
      ∧ AllIn EChar number ∧ AllIn EChar frac ∧ number ≠ [] ∧ frac.length ≤ 9
      ∧ number.length + frac.length ≤
          (if p = 0 then (strOfNat c).length else max (strOfNat c).length (p + 1)) := by
  obtain ⟨ip, fp, dot, ex, z', hbody, hip, hfp, hne, hdot, hdot', ⟨hex, hex7⟩, hcat, hsum, hl⟩ := finBody_shape c p hp
  have htext : Dec.toStr (.fin false c (-(p:Int))) = Dec.finBody c (-(p:Int)) := by simp [Dec.toStr]
  rw [htext, hbody]
  have hel : (expPart ex).length = if ex = 0 then 0 else 3 := by
    unfold expPart; split <;> rfl
  cases dot with
  | false =>
    have := hdot rfl
    subst this
    refine ⟨ip ++ expPart ex, [], by simp, (eChar_of_digit hip).append (expPart_eChar ex hex), AllIn.nil,
      by simp [hne], by simp, ?_⟩
    simpa [Nat.add_assoc] using hl
  | true =>
    have hfne := hdot' rfl
    refine ⟨ip, fp ++ expPart ex, ?_, eChar_of_digit hip, (eChar_of_digit hfp).append (expPart_eChar ex hex),
      hne, ?_, ?_⟩
    · simp [hfne]
    · rw [List.length_append, hel]; split <;> omega
    · rw [List.length_append]; omega

/-! ### `split('.')` -/

theorem splitGo_no_sep (c : Nat) : ∀ (x cur : Str), c ∉ x → splitGo [c] x 0 cur none = [cur.reverse ++ x]
  | [], cur, _ => by simp [splitGo]
  | d :: t, cur, h => by
    have hd : d ≠ c := fun e => h (e ▸ List.mem_cons_self ..)
    have ht : c ∉ t := fun e => h (List.mem_cons_of_mem _ e)
    have hb : (c == d) = false := by simp [Ne.symm hd]
    rw [splitGo]
    simp only [List.isPrefixOf, hb, Bool.false_and, Bool.and_false, Bool.false_eq_true, if_false]
    rw [splitGo_no_sep c t (d :: cur) ht]
    simp

theorem splitGo_one_sep (c : Nat) : ∀ (a b cur : Str), c ∉ a → c ∉ b →
    splitGo [c] (a ++ c :: b) 0 cur none = [cur.reverse ++ a, b]
  | [], b, cur, _, hb => by
    rw [List.nil_append, splitGo]
    simp [List.isPrefixOf, splitGo_no_sep c b [] hb]
  | d :: t, b, cur, h, hb => by
    have hd : d ≠ c := fun e => h (e ▸ List.mem_cons_self ..)
    have ht : c ∉ t := fun e => h (List.mem_cons_of_mem _ e)
    have hbe : (c == d) = false := by simp [Ne.symm hd]
    rw [List.cons_append, splitGo]
    simp only [List.isPrefixOf, hbe, Bool.false_and, Bool.and_false, Bool.false_eq_true, if_false]
    rw [splitGo_one_sep c t b (d :: cur) ht hb]
    simp

theorem splitOn_number_frac (number frac : Str) (h1 : 46 ∉ number) (h2 : 46 ∉ frac) :
    (splitOn (number ++ (if frac = [] then [] else 46 :: frac)) [46] ++ [[]]).headD [] = number
    ∧ ((splitOn (number ++ (if frac = [] then [] else 46 :: frac)) [46] ++ [[]]).drop 1).headD [] = frac := by
  unfold splitOn
  by_cases hf : frac = []
  · subst hf
    simp [splitGo_no_sep 46 number [] h1]
  · rw [if_neg hf, splitGo_one_sep 46 number frac [] h1 h2]
    simp


/-! ### `_encode_value` / `_decode_value` -/

theorem slice_none_of_length_le (s : Str) (L : Int) (h : (s.length : Int) ≤ L) : slice s none (some L) = s := by
  rw [slice_none_nonneg s (by omega)]
  exact List.take_of_length_le (by omega)

theorem intOf_ds (ds : Str) (hds : ds ≠ []) (hd : AllIn isAsciiDigit ds) (hlen : ds.length ≤ 4300) :
    intOf ds = .ok (digitsNat ds : Int) := by
  rw [intOf_of_asciiDigits ds hds hd hlen, digitsNat_eq_digitsVal hd]

theorem encodeDecimalText_var (ds text number frac : Str) (hds : ds ≠ []) (hd : AllIn isAsciiDigit ds)
    (hlen : ds.length ≤ 4300)
    (htext : text = number ++ (if frac = [] then [] else 46 :: frac)) (h1 : 46 ∉ number) (h2 : 46 ∉ frac)
    (hfl : frac.length ≤ 9) (hL : text.length ≤ digitsNat ds + 1) :
    encodeDecimalText (78 :: 46 :: 46 :: ds) text = .ok (strOfNat frac.length ++ number ++ frac) := by
  unfold encodeDecimalText
  have hsw : startswith (78 :: 46 :: 46 :: ds) [78, 46, 46] = true := by simp [startswith, List.isPrefixOf]
  have hsl : slice (78 :: 46 :: 46 :: ds) (some 3) none = ds := by
    rw [slice_nonneg_none _ (by omega)]; rfl
  rw [if_pos hsw, hsl, intOf_ds ds hds hd hlen]
  simp only [bind, Except.bind]
  rw [slice_none_of_length_le text _ (by omega), htext]
  obtain ⟨e1, e2⟩ := splitOn_number_frac number frac h1 h2
  rw [e1, e2, slice_none_of_length_le frac 9 (by omega)]
  rfl

theorem encodeDecimalText_fixed (ds text number frac : Str) (hds : ds ≠ []) (hd : AllIn isAsciiDigit ds)
    (hlen : ds.length ≤ 4300)
    (htext : text = number ++ (if frac = [] then [] else 46 :: frac)) (h1 : 46 ∉ number) (h2 : 46 ∉ frac)
    (hfl : frac.length ≤ 9) (hL : text.length ≤ digitsNat ds + 1) :
    encodeDecimalText (78 :: ds) text
      = .ok (strOfNat frac.length ++ rjust (number ++ frac) (digitsNat ds : Int) [48]) := by
  unfold encodeDecimalText
  have hsw : startswith (78 :: ds) [78, 46, 46] = false := by
    cases ds with
    | nil => exact absurd rfl hds
    | cons d t =>
      have : 48 ≤ d ∧ d ≤ 57 := by simpa using hd.head
      have : (46 == d) = false := by simp; omega
      simp [startswith, List.isPrefixOf, this]
  have hsl : slice (78 :: ds) (some 1) none = ds := by
    rw [slice_nonneg_none _ (by omega)]; rfl
  rw [if_neg (by simp [hsw]), hsl, intOf_ds ds hds hd hlen]
  simp only [bind, Except.bind]
  rw [slice_none_of_length_le text _ (by omega), htext]
  obtain ⟨e1, e2⟩ := splitOn_number_frac number frac h1 h2
  rw [e1, e2, slice_none_of_length_le frac 9 (by omega)]
  rfl


theorem decodeDecimal_reinsert (fmt : Str) (hfmt : ∀ f, fmt ≠ 78 :: 51 :: 43 :: f) (Z number frac : Str)
    (hfl : frac.length ≤ 9) (d : Dec)
    (hok : Dec.ofStr (Z ++ (number ++ (if frac = [] then [] else 46 :: frac))) = .ok d) :
    decodeDecimal fmt (strOfNat frac.length ++ (Z ++ number ++ frac)) = .ok (.dec d) := by
  unfold decodeDecimal
  split
  · exact absurd rfl (hfmt _)
  · rw [strOfNat_of_lt_ten (by omega : frac.length < 10)]
    have hdig : isAsciiDigit (48 + frac.length) = true := by simp; omega
    have hgi : getItem ([48 + frac.length] ++ (Z ++ number ++ frac)) 0 = .ok [48 + frac.length] := by
      rw [getItem_zero _ (by simp)]; rfl
    have hsl : slice ([48 + frac.length] ++ (Z ++ number ++ frac)) (some 1) none = Z ++ number ++ frac := by
      rw [slice_nonneg_none _ (by omega)]; rfl
    have hint : (((48 + frac.length : Nat) : Int) - 48) = (frac.length : Int) := by omega
    rw [hgi]
    simp only [bind, Except.bind]
    rw [intOf_singleton_digit _ hdig, hint]
    simp only [hsl]
    by_cases hf : frac = []
    · subst hf
      rw [if_pos rfl, List.append_nil] at hok
      simp only [List.length_nil, Int.natCast_zero, ne_eq, not_true_eq_false, if_false, List.append_nil]
      rw [hok]
      rfl
    · have hpos : 0 < frac.length := List.length_pos_iff.mpr hf
      have hne0 : (frac.length : Int) ≠ 0 := by omega
      rw [if_neg hf] at hok
      rw [if_pos hne0, slice_none_neg _ (by omega), slice_neg_none _ (by omega)]
      have hlen : (Z ++ number ++ frac).length - (frac.length : Int).toNat = (Z ++ number).length := by
        simp only [List.length_append, Int.toNat_natCast]; omega
      rw [hlen, List.take_left' rfl, List.drop_left' rfl]
      have : Z ++ number ++ [46] ++ frac = Z ++ (number ++ 46 :: frac) := by simp
      rw [this, hok]
      rfl


theorem encodeValue_dec (fmt : Str) (d : Dec) :
    encodeValue fmt sDecimal (.dec d) = encodeDecimalText fmt d.toStr := by
  rw [encodeValue]
  · simp only [if_true, pyStr]
    rfl
  all_goals (intros; rename_i h; cases h)

/-- the facts shared by the two formats -/
theorem codec_facts (ds : Str) (c p : Nat) (hk : 1 ≤ digitsNat ds) (hc : c < 10 ^ digitsNat ds) (hp9 : p ≤ 9)
    (hR17 : p = 0 ∨ p < digitsNat ds) :
    ∃ number frac : Str,
      Dec.toStr (.fin false c (-(p : Int))) = number ++ (if frac = [] then [] else 46 :: frac)
      ∧ AllIn EChar number ∧ AllIn EChar frac ∧ number ≠ [] ∧ frac.length ≤ 9
      ∧ number.length + frac.length ≤ digitsNat ds
      ∧ (Dec.toStr (.fin false c (-(p : Int)))).length ≤ digitsNat ds + 1 := by
  obtain ⟨number, frac, htext, hnum, hfrac, hnne, hfl, hlen'⟩ := toStr_split c p hp9
  have hnd : (strOfNat c).length ≤ digitsNat ds := strOfNat_length_le c _ hk hc
  have hsum : number.length + frac.length ≤ digitsNat ds := by
    split at hlen' <;> omega
  refine ⟨number, frac, htext, hnum, hfrac, hnne, hfl, hsum, ?_⟩
  rw [htext, List.length_append]
  split
  · simp; omega
  · simp; omega

/-- format `N..k` -/
theorem dec_var_codec (ds : Str) (c p : Nat) (hds : ds ≠ []) (hd : AllIn Py.isAsciiDigit ds)
    (hlen : ds.length ≤ 4300) (hk : 1 ≤ digitsNat ds) (hk4300 : digitsNat ds ≤ 4300) (hc : c < 10 ^ digitsNat ds)
    (hp9 : p ≤ 9) (hpk : p ≤ digitsNat ds) (hR17 : p = 0 ∨ p < digitsNat ds) :
    ∃ t, encodeValue (78 :: 46 :: 46 :: ds) sDecimal (.dec (.fin false c (-(p : Int)))) = .ok t
      ∧ decodeValue (78 :: 46 :: 46 :: ds) sDecimal t = .ok (.dec (.fin false c (-(p : Int))))
      ∧ 2 ≤ t.length ∧ t.length ≤ digitsNat ds + 1
      ∧ ∀ ch ∈ t, Py.isAsciiDigit ch = true ∨ ch = 69 ∨ ch = 45 := by
  have _ := hpk
  obtain ⟨number, frac, htext, hnum, hfrac, hnne, hfl, hsum, htl⟩ := codec_facts ds c p hk hc hp9 hR17
  have hnd : (strOfNat c).length ≤ digitsNat ds := strOfNat_length_le c _ hk hc
  have hnpos : 0 < number.length := List.length_pos_iff.mpr hnne
  have hs1 : strOfNat frac.length = [48 + frac.length] := strOfNat_of_lt_ten (by omega)
  refine ⟨strOfNat frac.length ++ number ++ frac, ?_, ?_, ?_, ?_, ?_⟩
  · rw [encodeValue_dec]
    exact encodeDecimalText_var ds _ number frac hds hd hlen htext (not46_of_eChar hnum) (not46_of_eChar hfrac) hfl htl
  · unfold decodeValue
    rw [if_pos rfl]
    have h1 := Dec_ofStr_zeros_toStr 0 c p hp9 (by omega)
    rw [htext] at h1
    have := decodeDecimal_reinsert (78 :: 46 :: 46 :: ds) (by intro f h; simp at h) [] number frac hfl _ h1
    simpa using this
  · rw [hs1]; simp; omega
  · rw [hs1]; simp; omega
  · intro ch hch
    apply EChar_iff.mp
    exact ((eChar_of_digit (strOfNat_allDigits _)).append hnum).append hfrac ch hch

/-- format `Nk` -/
theorem dec_fixed_codec (ds : Str) (c p : Nat) (hds : ds ≠ []) (hd : AllIn Py.isAsciiDigit ds)
    (hlen : ds.length ≤ 4300) (hk : 1 ≤ digitsNat ds) (hk4300 : digitsNat ds ≤ 4300) (hc : c < 10 ^ digitsNat ds)
    (hp9 : p ≤ 9) (hpk : p ≤ digitsNat ds) (hR17 : p = 0 ∨ p < digitsNat ds) :
    ∃ t, encodeValue (78 :: ds) sDecimal (.dec (.fin false c (-(p : Int)))) = .ok t
      ∧ decodeValue (78 :: ds) sDecimal t = .ok (.dec (.fin false c (-(p : Int))))
      ∧ t.length = digitsNat ds + 1
      ∧ ∀ ch ∈ t, Py.isAsciiDigit ch = true ∨ ch = 69 ∨ ch = 45 := by
  have _ := hpk
  obtain ⟨number, frac, htext, hnum, hfrac, hnne, hfl, hsum, htl⟩ := codec_facts ds c p hk hc hp9 hR17
  have hnd : (strOfNat c).length ≤ digitsNat ds := strOfNat_length_le c _ hk hc
  have hs1 : strOfNat frac.length = [48 + frac.length] := strOfNat_of_lt_ten (by omega)
  have h48 : isAsciiDigit 48 = true := by decide
  refine ⟨strOfNat frac.length ++ rjust (number ++ frac) (digitsNat ds : Int) [48], ?_, ?_, ?_, ?_⟩
  · rw [encodeValue_dec]
    exact encodeDecimalText_fixed ds _ number frac hds hd hlen htext (not46_of_eChar hnum) (not46_of_eChar hfrac) hfl htl
  · unfold decodeValue
    rw [if_pos rfl]
    have h1 := Dec_ofStr_zeros_toStr ((digitsNat ds : Int).toNat - (number ++ frac).length) c p hp9 (by omega)
    rw [htext] at h1
    have hfmt : ∀ f, 78 :: ds ≠ 78 :: 51 :: 43 :: f := by
      intro f h
      have h2 : ds = 51 :: 43 :: f := by injection h
      have := hd 43 (by rw [h2]; simp)
      revert this; decide
    have := decodeDecimal_reinsert (78 :: ds) hfmt _ number frac hfl _ h1
    have e : rjust (number ++ frac) (digitsNat ds : Int) [48]
        = List.replicate ((digitsNat ds : Int).toNat - (number ++ frac).length) 48 ++ number ++ frac := by
      simp [rjust]
    rw [e]
    exact this
  · rw [hs1, List.length_append, rjust_length]; simp; omega
  · intro ch hch
    apply EChar_iff.mp
    refine ((eChar_of_digit (strOfNat_allDigits _)).append ?_) ch hch
    exact AllIn.rjust (hnum.append hfrac) (by decide) _


example : ∃ t, encodeValue [78, 46, 46, 49, 53] sDecimal (.dec (.fin false 12345 (-2))) = .ok t
    ∧ decodeValue [78, 46, 46, 49, 53] sDecimal t = .ok (.dec (.fin false 12345 (-2))) := by
  obtain ⟨t, h1, h2, -⟩ := dec_var_codec [49, 53] 12345 2 (by decide) (by decide) (by decide) (by decide)
    (by decide) (by decide) (by decide) (by decide) (by decide)
  exact ⟨t, h1, h2⟩

example : ∃ t, encodeValue [78, 54] sDecimal (.dec (.fin false 7 (-5))) = .ok t
    ∧ decodeValue [78, 54] sDecimal t = .ok (.dec (.fin false 7 (-5))) := by
  obtain ⟨t, h1, h2, -⟩ := dec_fixed_codec [54] 7 5 (by decide) (by decide) (by decide) (by decide)
    (by decide) (by decide) (by decide) (by decide) (by decide)
  exact ⟨t, h1, h2⟩

example : Dec.ofStr (List.replicate 3 48 ++ Dec.toStr (.fin false 123 (-9))) = .ok (.fin false 123 (-9)) :=
  Dec_ofStr_zeros_toStr 3 123 9 (by decide) (by decide)

end Props.C16

#print axioms Props.C16.Dec_ofStr_zeros_toStr
#print axioms Props.C16.dec_var_codec
#print axioms Props.C16.dec_fixed_codec
