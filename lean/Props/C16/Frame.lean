import Spec.GS1
import Lemmas.Util
import Lemmas.Str
import Lemmas.Strip
import Props.C16.Lookup
/-!
# Props.C16.Frame — `info` walks through a string of identifier/value segments

The part of the C16 proof that is independent of the value types: if every item of a mapping comes with a text
`t` that its codec decodes back (`Codec`), then `info` run on the concatenation produced by `encode` returns the
items in order (`infoLoop_fixed`, `infoLoop_vars`), and `compact` only removes the parentheses around the
identifiers (`compact_enc`).
-/
namespace Props.C16
open Spec.GS1 Py

/-- characters of value texts: printable ASCII, no blank, no backtick, no parentheses — exactly what `compact`
leaves alone and `strip` does not remove -/
def txtChar (c : Nat) : Bool := decide (33 ≤ c) && decide (c ≤ 126) && c != 96 && c != 40 && c != 41

/-- `_pad_value` -/
def padTxt (typ : Str) (L : Nat) (t : Str) : Str :=
  if typ = sDecimal ∨ typ = sInt then Py.rjust t L [48] else Py.ljust t L [32]

/-- a separator character that survives `compact` and cannot be confused with an identifier or with the text of a
number (digits, `E`, `-`) -/
def sepChar (c : Nat) : Prop := c < 128 ∧ c ≠ 96 ∧ c ≠ 40 ∧ c ≠ 41 ∧ isAsciiDigit c = false ∧ c ≠ 69 ∧ c ≠ 45

/-- no separator, or a single separator character -/
def SepOK (sep : Str) : Prop := sep = [] ∨ ∃ c, sep = [c] ∧ sepChar c

/-- what the framing proof needs to know about the text `t` of a value `v` -/
structure Codec (sep fmt typ : Str) (L : Nat) (v : GsVal) (t : Str) : Prop where
  enc : encodeValue fmt typ v = .ok t
  dec : decodeValue fmt typ t = .ok v
  ne : t ≠ []
  len : t.length ≤ L
  chars : ∀ c ∈ t, txtChar c = true
  nosep : ∀ c ∈ sep, c ∉ t
  pad : (typ = sDecimal ∨ typ = sDate → t.length = L) → decodeValue fmt typ (padTxt typ L t) = .ok v

/-- an item of the mapping together with what the registry says about its identifier and its text -/
structure RItem where
  k : Str
  v : GsVal
  fmt : Str
  typ : Str
  fnc1 : Bool
  L : Nat
  t : Str

structure RItem.Good (env : Env) (sep : Str) (r : RItem) : Prop where
  kne : r.k ≠ []
  kdig : AllIn isAsciiDigit r.k
  props : ∃ p, aiLookup env.db r.k = .ok (r.k, p) ∧ p ≠ [] ∧ Py.dictGet? p sFormat = some r.fmt
    ∧ Py.dictGet? p sType = some r.typ ∧ fnc1Of p = r.fnc1
  maxlen : maxLength r.fmt r.typ = .ok (r.L : Int)
  codec : Codec sep r.fmt r.typ r.L r.v r.t
  fixedLen : r.fnc1 = false → r.t.length = r.L
  validEnc : runValidator env r.k r.v = .ok ()
  validDec : runValidator env r.k (.str r.t) = .ok () ∧ runValidator env r.k (.str (padTxt r.typ r.L r.t)) = .ok ()

/-! ## small facts -/

theorem txtChar_facts {c : Nat} (h : txtChar c = true) :
    33 ≤ c ∧ c ≤ 126 ∧ c ≠ 96 ∧ c ≠ 40 ∧ c ≠ 41 := by
  simp only [txtChar, Bool.and_eq_true, decide_eq_true_eq, bne_iff_ne, ne_eq] at h
  omega

theorem digit_txtChar {c : Nat} (h : isAsciiDigit c = true) : txtChar c = true := by
  simp only [isAsciiDigit, Bool.and_eq_true, decide_eq_true_eq] at h
  simp only [txtChar, Bool.and_eq_true, decide_eq_true_eq, bne_iff_ne, ne_eq]
  omega

theorem isSpace_false_of_txtChar {c : Nat} (h : txtChar c = true) : Uni.isSpace c = false := by
  have := txtChar_facts h
  unfold Uni.isSpace
  rw [if_pos (by omega)]
  simp only [Bool.or_eq_false_iff, Bool.and_eq_false_iff, decide_eq_false_iff_not]
  omega

theorem dictGet_of_get? {d : Spec.NumDB.Dict} {k v : Str} (h : Py.dictGet? d k = some v) : Py.dictGet d k = .ok v := by
  unfold Py.dictGet; rw [h]

theorem dictSet_new {d : Dict} {k : Str} {v : GsVal} (h : k ∉ d.map Prod.fst) : Py.dictSet d k v = d ++ [(k, v)] := by
  unfold Py.dictSet Py.dictHas Py.dictGet?
  have : d.find? (fun p => p.1 == k) = none := by
    rw [List.find?_eq_none]
    intro p hp hpk
    exact h (List.mem_map.mpr ⟨p, hp, by simpa using hpk⟩)
  rw [this]; rfl

/-! ## `find` of a single character -/

theorem findAux_single_none (c : Nat) : ∀ (t : Str) (off : Nat), c ∉ t → Py.findAux [c] t off = none
  | [], off, _ => by simp [Py.findAux]
  | a :: t, off, h => by
    have h1 : c ≠ a := fun e => h (e ▸ List.mem_cons_self)
    have h2 : c ∉ t := fun e => h (List.mem_cons_of_mem _ e)
    rw [Py.findAux, if_neg (by simpa [List.isPrefixOf] using h1)]
    exact findAux_single_none c t (off + 1) h2

theorem findAux_single_some (c : Nat) (rest : Str) : ∀ (t : Str) (off : Nat), c ∉ t →
    Py.findAux [c] (t ++ c :: rest) off = some (off + t.length)
  | [], off, _ => by simp [Py.findAux, List.isPrefixOf]
  | a :: t, off, h => by
    have h1 : c ≠ a := fun e => h (e ▸ List.mem_cons_self)
    have h2 : c ∉ t := fun e => h (List.mem_cons_of_mem _ e)
    rw [List.cons_append, Py.findAux, if_neg (by simpa [List.isPrefixOf] using h1),
      findAux_single_some c rest t (off + 1) h2]
    simp only [List.length_cons]; congr 1; omega

theorem find_single_none {c : Nat} {t : Str} (h : c ∉ t) : Py.find t [c] = -1 := by
  rw [Py.find_eq, findAux_single_none c t 0 h]

theorem find_single_some {c : Nat} {t rest : Str} (h : c ∉ t) : Py.find (t ++ c :: rest) [c] = t.length := by
  rw [Py.find_eq, findAux_single_some c rest t 0 h]; simp

/-! ## `valueOf`, `skipSep` -/

theorem slice_take_append (t rest : Str) : Py.slice (t ++ rest) none (some (t.length : Int)) = t := by
  rw [Py.slice_none_nonneg _ (by omega)]; simp

theorem slice_drop_append (t rest : Str) : Py.slice (t ++ rest) (some (t.length : Int)) none = rest := by
  rw [Py.slice_nonneg_none _ (by omega)]; simp

theorem slice_take_le {t : Str} {L : Nat} (h : t.length ≤ L) : Py.slice t none (some (L : Int)) = t := by
  rw [Py.slice_none_nonneg _ (by omega)]; simp [List.take_of_length_le h]

/-- no separator handling: fixed-length identifier, or no separator given -/
theorem valueOf_plain {sep : Str} {fnc1 : Bool} (h : sep = [] ∨ fnc1 = false) (L : Nat) (t rest : Str)
    (hl : t.length = L) : valueOf sep fnc1 L (t ++ rest) = t := by
  unfold valueOf
  have : (!sep.isEmpty && fnc1) = false := by rcases h with rfl | rfl <;> simp
  rw [this]; simp only [Bool.false_eq_true, if_false]
  rw [← hl]; exact slice_take_append t rest

/-- the last value: everything that is left -/
theorem valueOf_last {sep : Str} (fnc1 : Bool) {L : Nat} {t : Str} (hs : ∀ c ∈ sep, c ∉ t) (hsep : SepOK sep)
    (hl : t.length ≤ L) : valueOf sep fnc1 L t = t := by
  unfold valueOf
  rcases hsep with rfl | ⟨c, rfl, _⟩
  · simp only [List.isEmpty_nil, Bool.not_true, Bool.false_and, Bool.false_eq_true, if_false]
    exact slice_take_le hl
  · rw [find_single_none (hs c List.mem_cons_self)]
    simp only [show ¬ ((-1 : Int) > 0) by decide, if_false]
    split <;> exact slice_take_le hl

/-- a variable-length value followed by the separator -/
theorem valueOf_sep {c : Nat} {L : Nat} {t rest : Str} (hne : t ≠ []) (hc : c ∉ t) :
    valueOf [c] true L (t ++ c :: rest) = t := by
  unfold valueOf
  simp only [List.isEmpty_cons, Bool.not_false, Bool.and_self, if_true]
  rw [find_single_some hc]
  have : ((t.length : Nat) : Int) > 0 := by
    have := List.length_pos_iff.mpr hne; omega
  rw [if_pos this]
  exact slice_take_append t (c :: rest)

theorem skipSep_nil (number : Str) : skipSep [] number = number := by simp [skipSep]

theorem skipSep_cons (c : Nat) (rest : Str) : skipSep [c] (c :: rest) = rest := by
  unfold skipSep
  have : Py.startswith (c :: rest) [c] = true := by simp [Py.startswith, List.isPrefixOf]
  rw [this]
  simp only [List.isEmpty_cons, Bool.not_false, Bool.and_self, if_true, List.length_cons, List.length_nil]
  exact slice_drop_append [c] rest

theorem skipSep_nostart {sep number : Str} (h : Py.startswith number sep = false) : skipSep sep number = number := by
  unfold skipSep; rw [h]; simp


/-! ## one iteration of the loop -/

theorem infoStep_ok {env : Env} {sep : Str} {r : RItem} (hg : r.Good env sep) (number' value after : Str) (data : Dict)
    (hv : valueOf sep r.fnc1 r.L number' = value)
    (hvalid : runValidator env r.k (.str value) = .ok ())
    (hdec : decodeValue r.fmt r.typ value = .ok r.v)
    (hafter : skipSep sep (Py.slice number' (some (value.length : Int)) none) = after) :
    infoStep env sep (r.k ++ number') data = .ok (after, Py.dictSet data r.k r.v) := by
  obtain ⟨p, hlook, hpne, hfmt, htyp, hfnc⟩ := hg.props
  unfold infoStep
  rw [aiLookup_append hg.kne hlook hpne number']
  have h1 : p.isEmpty = false := by cases p <;> simp_all
  have h2 : Py.startswith (r.k ++ number') r.k = true := Py.startswith_iff.mpr ⟨number', rfl⟩
  simp only [h1, h2, Bool.not_true, Bool.or_self, Bool.false_eq_true, if_false]
  rw [slice_drop_append]
  unfold infoValue
  rw [dictGet_of_get? hfmt, dictGet_of_get? htyp]
  simp only [hg.maxlen, hfnc, hv, hvalid, hdec, hafter]

/-! ## the loop over the fixed-length items -/

/-- the text of the fixed-length items -/
def fixedTxt (F : List RItem) : Str := (F.map (fun r => r.k ++ r.t)).flatten

/-- the text of the variable-length items: all but the last are followed by the separator, or padded -/
def varTxt (sep : Str) : List RItem → Str
  | [] => []
  | [r] => r.k ++ r.t
  | r :: r' :: rest => r.k ++ ((if sep = [] then padTxt r.typ r.L r.t else r.t) ++ (sep ++ varTxt sep (r' :: rest)))

def itemsOf (l : List RItem) : Dict := l.map (fun r => (r.k, r.v))

theorem infoLoop_nil (env : Env) (sep : Str) (fuel : Nat) (data : Dict) : infoLoop env sep fuel [] data = .ok data := by
  cases fuel <;> rfl

theorem infoLoop_step {env : Env} {sep : Str} {fuel : Nat} {number after : Str} {data data' : Dict}
    (hne : number ≠ []) (hstep : infoStep env sep number data = .ok (after, data')) :
    infoLoop env sep (fuel + 1) number data = infoLoop env sep fuel after data' := by
  cases number with
  | nil => exact absurd rfl hne
  | cons c cs => simp only [infoLoop, hstep]

theorem startswith_digit_false {sep rest : Str} (hsep : SepOK sep)
    (h : rest = [] ∨ ∃ a t, rest = a :: t ∧ isAsciiDigit a = true) :
    (sep = [] ∨ Py.startswith rest sep = false) := by
  rcases hsep with rfl | ⟨c, rfl, hc⟩
  · exact Or.inl rfl
  · right
    rcases h with rfl | ⟨a, t, rfl, ha⟩
    · simp [Py.startswith, List.isPrefixOf]
    · have : c ≠ a := by intro e; subst e; rw [hc.2.2.2.2.1] at ha; cases ha
      simp [Py.startswith, List.isPrefixOf, this]

theorem skipSep_of {sep rest : Str} (h : sep = [] ∨ Py.startswith rest sep = false) : skipSep sep rest = rest := by
  rcases h with rfl | h
  · exact skipSep_nil rest
  · exact skipSep_nostart h

/-- what follows a fixed-length value: nothing, or an identifier (which starts with a digit) -/
def StartsWithKey (rest : Str) : Prop := rest = [] ∨ ∃ a t, rest = a :: t ∧ isAsciiDigit a = true

theorem startsWithKey_key {k : Str} (hne : k ≠ []) (hd : AllIn isAsciiDigit k) (x : Str) : StartsWithKey (k ++ x) := by
  cases k with
  | nil => exact absurd rfl hne
  | cons a t => exact Or.inr ⟨a, t ++ x, rfl, hd a List.mem_cons_self⟩

theorem infoLoop_fixed {env : Env} {sep : Str} (hsep : SepOK sep) :
    ∀ (F : List RItem) (rest : Str) (data : Dict) (fuel : Nat),
      (∀ r ∈ F, r.Good env sep ∧ r.fnc1 = false) → StartsWithKey rest →
      (∀ r ∈ F, r.k ∉ data.map Prod.fst) → ((itemsOf F).map Prod.fst).Nodup →
      infoLoop env sep (F.length + fuel) (fixedTxt F ++ rest) data
        = infoLoop env sep fuel rest (data ++ itemsOf F)
  | [], rest, data, fuel, _, _, _, _ => by
    simp [fixedTxt, itemsOf]
  | r :: F, rest, data, fuel, hF, hrest, hnew, hnd => by
    obtain ⟨hg, hfx⟩ := hF r List.mem_cons_self
    have hF' : ∀ r ∈ F, r.Good env sep ∧ r.fnc1 = false := fun x hx => hF x (List.mem_cons_of_mem _ hx)
    have htxt : fixedTxt (r :: F) ++ rest = r.k ++ (r.t ++ (fixedTxt F ++ rest)) := by
      simp [fixedTxt, List.append_assoc]
    -- what follows the value starts with an identifier (or is empty)
    have hnext : StartsWithKey (fixedTxt F ++ rest) := by
      cases F with
      | nil => simpa [fixedTxt] using hrest
      | cons r' F' =>
        have hg' := (hF r' (List.mem_cons_of_mem _ List.mem_cons_self)).1
        have : fixedTxt (r' :: F') ++ rest = r'.k ++ (r'.t ++ (fixedTxt F' ++ rest)) := by
          simp [fixedTxt, List.append_assoc]
        rw [this]; exact startsWithKey_key hg'.kne hg'.kdig _
    have hlen := hg.fixedLen hfx
    have hstep := infoStep_ok hg (r.t ++ (fixedTxt F ++ rest)) r.t (fixedTxt F ++ rest) data
      (valueOf_plain (Or.inr hfx) r.L r.t _ hlen) hg.validDec.1 hg.codec.dec
      (by rw [slice_drop_append]; exact skipSep_of (startswith_digit_false hsep hnext))
    have hne : r.k ++ (r.t ++ (fixedTxt F ++ rest)) ≠ [] := by
      intro h; exact hg.kne (List.append_eq_nil_iff.mp h).1
    rw [htxt, show (r :: F).length + fuel = (F.length + fuel) + 1 by simp [Nat.add_right_comm],
      infoLoop_step hne hstep, dictSet_new (hnew r List.mem_cons_self)]
    have hnd' : ((itemsOf F).map Prod.fst).Nodup := by
      simp only [itemsOf, List.map_cons, List.nodup_cons] at hnd; exact hnd.2
    have hnew' : ∀ x ∈ F, x.k ∉ (data ++ [(r.k, r.v)]).map Prod.fst := by
      intro x hx hmem
      simp only [List.map_append, List.map_cons, List.map_nil, List.mem_append, List.mem_singleton] at hmem
      rcases hmem with hmem | hmem
      · exact hnew x (List.mem_cons_of_mem _ hx) hmem
      · simp only [itemsOf, List.map_cons, List.nodup_cons, List.map_map] at hnd
        apply hnd.1
        rw [← hmem]
        exact List.mem_map.mpr ⟨x, hx, rfl⟩
    rw [infoLoop_fixed hsep F rest _ fuel hF' hrest hnew' hnd']
    simp [itemsOf, List.append_assoc]


theorem padTxt_length {typ : Str} {L : Nat} {t : Str} (h : t.length ≤ L) : (padTxt typ L t).length = L := by
  unfold padTxt
  split
  · rw [Py.rjust_length]; simp; omega
  · rw [Py.ljust_length]; simp; omega

theorem infoLoop_vars {env : Env} {sep : Str} (hsep : SepOK sep) :
    ∀ (V : List RItem) (data : Dict) (fuel : Nat),
      (∀ r ∈ V, r.Good env sep ∧ r.fnc1 = true) →
      (sep = [] → ∀ r ∈ V.dropLast, (r.typ = sDecimal ∨ r.typ = sDate) → r.t.length = r.L) →
      (∀ r ∈ V, r.k ∉ data.map Prod.fst) → ((itemsOf V).map Prod.fst).Nodup →
      infoLoop env sep (V.length + fuel) (varTxt sep V) data = .ok (data ++ itemsOf V)
  | [], data, fuel, _, _, _, _ => by
    simp [varTxt, itemsOf, infoLoop_nil]
  | [r], data, fuel, hV, _, hnew, _ => by
    obtain ⟨hg, hfx⟩ := hV r List.mem_cons_self
    have hslice : Py.slice r.t (some (r.t.length : Int)) none = [] := by
      have := slice_drop_append r.t []
      rwa [List.append_nil] at this
    have hskip : skipSep sep [] = [] := by
      rcases hsep with rfl | ⟨c, rfl, _⟩
      · exact skipSep_nil []
      · exact skipSep_nostart (by simp [Py.startswith, List.isPrefixOf])
    have hstep := infoStep_ok hg r.t r.t [] data
      (valueOf_last r.fnc1 hg.codec.nosep hsep hg.codec.len) hg.validDec.1 hg.codec.dec
      (by rw [hslice]; exact hskip)
    have hne : r.k ++ r.t ≠ [] := by
      intro h; exact hg.kne (List.append_eq_nil_iff.mp h).1
    rw [show varTxt sep [r] = r.k ++ r.t from rfl, show [r].length + fuel = fuel + 1 by simp [Nat.add_comm],
      infoLoop_step hne hstep, infoLoop_nil, dictSet_new (hnew r List.mem_cons_self)]
    rfl
  | r :: r' :: rest, data, fuel, hV, hpad, hnew, hnd => by
    obtain ⟨hg, hfx⟩ := hV r List.mem_cons_self
    have hV' : ∀ x ∈ r' :: rest, x.Good env sep ∧ x.fnc1 = true := fun x hx => hV x (List.mem_cons_of_mem _ hx)
    have hpad' : sep = [] → ∀ x ∈ (r' :: rest).dropLast, (x.typ = sDecimal ∨ x.typ = sDate) → x.t.length = x.L := by
      intro hs x hx
      exact hpad hs x (by rw [List.dropLast_cons_cons]; exact List.mem_cons_of_mem _ hx)
    have hnd' : ((itemsOf (r' :: rest)).map Prod.fst).Nodup := by
      simp only [itemsOf, List.map_cons, List.nodup_cons] at hnd ⊢; exact hnd.2
    have hnew' : ∀ x ∈ r' :: rest, x.k ∉ (data ++ [(r.k, r.v)]).map Prod.fst := by
      intro x hx hmem
      simp only [List.map_append, List.map_cons, List.map_nil, List.mem_append, List.mem_singleton] at hmem
      rcases hmem with hmem | hmem
      · exact hnew x (List.mem_cons_of_mem _ hx) hmem
      · have hnd1 : r.k ∉ (itemsOf (r' :: rest)).map Prod.fst := by
          simp only [itemsOf, List.map_cons, List.nodup_cons] at hnd; exact hnd.1
        apply hnd1
        rw [← hmem, itemsOf, List.map_map]
        exact List.mem_map.mpr ⟨x, hx, rfl⟩
    have hne : ∀ y : Str, r.k ++ y ≠ [] := by
      intro y h; exact hg.kne (List.append_eq_nil_iff.mp h).1
    have hfuel : (r :: r' :: rest).length + fuel = ((r' :: rest).length + fuel) + 1 := by
      simp only [List.length_cons]; omega
    have hfin : data ++ [(r.k, r.v)] ++ itemsOf (r' :: rest) = data ++ itemsOf (r :: r' :: rest) := by
      simp [itemsOf, List.append_assoc]
    rcases hsep with rfl | ⟨c, rfl, hc⟩
    · -- no separator: the value is padded to its maximum length
      have hps : (r.typ = sDecimal ∨ r.typ = sDate) → r.t.length = r.L :=
        hpad rfl r (by rw [List.dropLast_cons_cons]; exact List.mem_cons_self)
      have htxt : varTxt [] (r :: r' :: rest) = r.k ++ (padTxt r.typ r.L r.t ++ varTxt [] (r' :: rest)) := by
        simp [varTxt]
      have hstep := infoStep_ok hg (padTxt r.typ r.L r.t ++ varTxt [] (r' :: rest)) (padTxt r.typ r.L r.t)
        (varTxt [] (r' :: rest)) data
        (valueOf_plain (Or.inl rfl) r.L _ _ (padTxt_length hg.codec.len)) hg.validDec.2 (hg.codec.pad hps)
        (by rw [slice_drop_append]; exact skipSep_nil _)
      rw [htxt, hfuel, infoLoop_step (hne _) hstep, dictSet_new (hnew r List.mem_cons_self),
        infoLoop_vars (Or.inl rfl) (r' :: rest) _ fuel hV' hpad' hnew' hnd', hfin]
    · -- separator `c` after the value
      have hcn : c ∉ r.t := hg.codec.nosep c List.mem_cons_self
      have htxt : varTxt [c] (r :: r' :: rest) = r.k ++ (r.t ++ c :: varTxt [c] (r' :: rest)) := by
        simp [varTxt]
      have hstep := infoStep_ok hg (r.t ++ c :: varTxt [c] (r' :: rest)) r.t (varTxt [c] (r' :: rest)) data
        (by rw [hfx]; exact valueOf_sep hg.codec.ne hcn) hg.validDec.1 hg.codec.dec
        (by rw [slice_drop_append]; exact skipSep_cons c _)
      rw [htxt, hfuel, infoLoop_step (hne _) hstep, dictSet_new (hnew r List.mem_cons_self),
        infoLoop_vars (Or.inr ⟨c, rfl, hc⟩) (r' :: rest) _ fuel hV' hpad' hnew' hnd', hfin]


/-! ## `compact` on the output of `encode` -/

/-- the characters `compact` leaves alone -/
def keepChar (c : Nat) : Prop := Py.cm c = c ∧ c ≠ 40 ∧ c ≠ 41

theorem keepChar_txt {c : Nat} (h : txtChar c = true) : keepChar c := by
  have := txtChar_facts h
  exact ⟨Py.cm_of_ascii_ne (by omega) (by omega), by omega, by omega⟩

theorem cleanP_keep {s : Str} (h : ∀ c ∈ s, keepChar c) : Py.cleanP s [40, 41] = s := by
  apply Py.cleanP_eq_self
  intro c hc
  obtain ⟨h1, h2, h3⟩ := h c hc
  refine ⟨h1, ?_⟩
  have e2 : (c == 40) = false := by simpa using h2
  have e3 : (c == 41) = false := by simpa using h3
  simp [List.contains, List.elem, e2, e3]

theorem cleanP_aiFmt (par : Bool) {k : Str} (hk : AllIn isAsciiDigit k) : Py.cleanP (aiFmt par k) [40, 41] = k := by
  have hkk : Py.cleanP k [40, 41] = k := cleanP_keep (fun c hc => keepChar_txt (digit_txtChar (hk c hc)))
  unfold aiFmt
  cases par
  · simpa using hkk
  · have h40 : Py.cleanP [40] [40, 41] = [] := by decide +kernel
    have h41 : Py.cleanP [41] [40, 41] = [] := by decide +kernel
    simp only [if_true, Py.cleanP_append, h40, h41, hkk, List.nil_append, List.append_nil]

theorem keepChar_pad {typ : Str} {L : Nat} {t : Str} (h : ∀ c ∈ t, keepChar c) : ∀ c ∈ padTxt typ L t, keepChar c := by
  have h48 : keepChar 48 := ⟨Py.cm_of_ascii_ne (by decide) (by decide), by decide, by decide⟩
  have h32 : keepChar 32 := ⟨Py.cm_of_ascii_ne (by decide) (by decide), by decide, by decide⟩
  intro c hc
  unfold padTxt at hc
  split at hc
  · simp only [Py.rjust, List.mem_append, List.mem_replicate] at hc
    rcases hc with ⟨_, rfl⟩ | hc
    · exact h48
    · exact h c hc
  · simp only [Py.ljust, List.mem_append, List.mem_replicate] at hc
    rcases hc with hc | ⟨_, rfl⟩
    · exact h c hc
    · exact h32

/-- the text of the fixed-length items as `encode` writes it -/
def fixedTxtP (par : Bool) (F : List RItem) : Str := (F.map (fun r => aiFmt par r.k ++ r.t)).flatten

/-- the text of the variable-length items as `encode` writes it -/
def varTxtP (par : Bool) (sep : Str) : List RItem → Str
  | [] => []
  | [r] => aiFmt par r.k ++ r.t
  | r :: r' :: rest =>
    aiFmt par r.k ++ (if sep = [] then padTxt r.typ r.L r.t else r.t) ++ sep ++ varTxtP par sep (r' :: rest)

theorem cleanP_fixedTxtP {env : Env} {sep : Str} (par : Bool) :
    ∀ (F : List RItem), (∀ r ∈ F, r.Good env sep) → Py.cleanP (fixedTxtP par F) [40, 41] = fixedTxt F
  | [], _ => rfl
  | r :: F, h => by
    have hg := h r List.mem_cons_self
    have ih := cleanP_fixedTxtP par F (fun x hx => h x (List.mem_cons_of_mem _ hx))
    have ht : Py.cleanP r.t [40, 41] = r.t := cleanP_keep (fun c hc => keepChar_txt (hg.codec.chars c hc))
    simp only [fixedTxtP, fixedTxt, List.map_cons, List.flatten_cons, Py.cleanP_append, cleanP_aiFmt par hg.kdig, ht] at ih ⊢
    rw [ih]

theorem keepChar_sep {sep : Str} (hsep : SepOK sep) : ∀ c ∈ sep, keepChar c := by
  rcases hsep with rfl | ⟨c, rfl, hc⟩
  · intro c hc; cases hc
  · intro x hx
    rw [List.mem_singleton] at hx; subst hx
    exact ⟨Py.cm_of_ascii_ne hc.1 hc.2.1, hc.2.2.1, hc.2.2.2.1⟩

theorem cleanP_varTxtP {env : Env} {sep : Str} (hsep : SepOK sep) (par : Bool) :
    ∀ (V : List RItem), (∀ r ∈ V, r.Good env sep) → Py.cleanP (varTxtP par sep V) [40, 41] = varTxt sep V
  | [], _ => rfl
  | [r], h => by
    have hg := h r List.mem_cons_self
    have ht : Py.cleanP r.t [40, 41] = r.t := cleanP_keep (fun c hc => keepChar_txt (hg.codec.chars c hc))
    simp only [varTxtP, varTxt, Py.cleanP_append, cleanP_aiFmt par hg.kdig, ht]
  | r :: r' :: rest, h => by
    have hg := h r List.mem_cons_self
    have ih := cleanP_varTxtP hsep par (r' :: rest) (fun x hx => h x (List.mem_cons_of_mem _ hx))
    have hkt : ∀ c ∈ r.t, keepChar c := fun c hc => keepChar_txt (hg.codec.chars c hc)
    have ht : Py.cleanP r.t [40, 41] = r.t := cleanP_keep hkt
    have hp : Py.cleanP (padTxt r.typ r.L r.t) [40, 41] = padTxt r.typ r.L r.t := cleanP_keep (keepChar_pad hkt)
    have hs : Py.cleanP sep [40, 41] = sep := cleanP_keep (keepChar_sep hsep)
    simp only [varTxtP, varTxt, Py.cleanP_append, cleanP_aiFmt par hg.kdig, hs, ih, List.append_assoc]
    split
    · rw [hp]
    · rw [ht]

/-! ### `strip` does nothing -/

def HeadOK (s : Str) : Prop := ∀ c, s.head? = some c → Uni.isSpace c = false
def LastOK (s : Str) : Prop := ∀ c, s.getLast? = some c → Uni.isSpace c = false

theorem headOK_append_left {a b : Str} (hne : a ≠ []) (h : HeadOK a) : HeadOK (a ++ b) := by
  intro c hc
  cases a with
  | nil => exact absurd rfl hne
  | cons x xs => exact h c (by simpa using hc)

theorem lastOK_append_right {a b : Str} (hne : b ≠ []) (h : LastOK b) : LastOK (a ++ b) := by
  intro c hc
  rw [List.getLast?_append, List.getLast?_eq_some_getLast hne] at hc
  exact h c (by rw [List.getLast?_eq_some_getLast hne]; simpa using hc)

theorem headOK_key {k : Str} (hd : AllIn isAsciiDigit k) : HeadOK k := by
  intro c hc
  exact isSpace_false_of_txtChar (digit_txtChar (hd c (List.mem_of_mem_head? hc)))

theorem lastOK_txt {t : Str} (h : ∀ c ∈ t, txtChar c = true) : LastOK t := by
  intro c hc
  exact isSpace_false_of_txtChar (h c (List.mem_of_getLast? hc))

theorem varTxt_ne_nil {env : Env} {sep : Str} : ∀ (V : List RItem), V ≠ [] → (∀ r ∈ V, r.Good env sep) → varTxt sep V ≠ []
  | [], h, _ => absurd rfl h
  | [r], _, hg => by
    intro h; exact (hg r List.mem_cons_self).kne (List.append_eq_nil_iff.mp h).1
  | r :: r' :: rest, _, hg => by
    intro h
    simp only [varTxt] at h
    exact (hg r List.mem_cons_self).kne (List.append_eq_nil_iff.mp h).1

theorem lastOK_varTxt {env : Env} {sep : Str} : ∀ (V : List RItem), (∀ r ∈ V, r.Good env sep) → LastOK (varTxt sep V)
  | [], _ => by intro c hc; simp [varTxt] at hc
  | [r], hg => by
    have g := hg r List.mem_cons_self
    exact lastOK_append_right g.codec.ne (lastOK_txt g.codec.chars)
  | r :: r' :: rest, hg => by
    have hg' : ∀ x ∈ r' :: rest, x.Good env sep := fun x hx => hg x (List.mem_cons_of_mem _ hx)
    have ih := lastOK_varTxt (r' :: rest) hg'
    have hne := varTxt_ne_nil (r' :: rest) (by simp) hg'
    simp only [varTxt]
    rw [← List.append_assoc, ← List.append_assoc]
    exact lastOK_append_right hne ih

theorem lastOK_fixedTxt {env : Env} {sep : Str} : ∀ (F : List RItem), (∀ r ∈ F, r.Good env sep) → LastOK (fixedTxt F)
  | [], _ => by intro c hc; simp [fixedTxt] at hc
  | r :: F, hg => by
    have g := hg r List.mem_cons_self
    have ih := lastOK_fixedTxt F (fun x hx => hg x (List.mem_cons_of_mem _ hx))
    by_cases hF : fixedTxt F = []
    · simp only [fixedTxt, List.map_cons, List.flatten_cons] at hF ⊢
      rw [hF, List.append_nil]
      exact lastOK_append_right g.codec.ne (lastOK_txt g.codec.chars)
    · simp only [fixedTxt, List.map_cons, List.flatten_cons] at hF ⊢
      exact lastOK_append_right hF ih

theorem headOK_fixedTxt {env : Env} {sep : Str} : ∀ (F : List RItem), (∀ r ∈ F, r.Good env sep) → HeadOK (fixedTxt F)
  | [], _ => by intro c hc; simp [fixedTxt] at hc
  | r :: F, hg => by
    have g := hg r List.mem_cons_self
    simp only [fixedTxt, List.map_cons, List.flatten_cons, List.append_assoc]
    exact headOK_append_left g.kne (headOK_key g.kdig)

theorem headOK_varTxt {env : Env} {sep : Str} : ∀ (V : List RItem), (∀ r ∈ V, r.Good env sep) → HeadOK (varTxt sep V)
  | [], _ => by intro c hc; simp [varTxt] at hc
  | [r], hg => by
    have g := hg r List.mem_cons_self
    exact headOK_append_left g.kne (headOK_key g.kdig)
  | r :: r' :: rest, hg => by
    have g := hg r List.mem_cons_self
    simp only [varTxt]
    exact headOK_append_left g.kne (headOK_key g.kdig)

/-- **compact_enc** — `compact` turns what `encode` writes (with or without parentheses) into the plain text -/
theorem compact_enc {env : Env} {sep : Str} (hsep : SepOK sep) (par : Bool) (F V : List RItem)
    (hF : ∀ r ∈ F, r.Good env sep) (hV : ∀ r ∈ V, r.Good env sep) :
    Gen.gs1_128.compact (fixedTxtP par F ++ varTxtP par sep V) = .ok (fixedTxt F ++ varTxt sep V) := by
  unfold Gen.gs1_128.compact
  rw [Py.clean_eq]
  simp only [bind, Except.bind, pure, Except.pure]
  rw [Py.cleanP_append, cleanP_fixedTxtP par F hF, cleanP_varTxtP hsep par V hV]
  congr 1
  apply Py.strip_eq_self'
  · by_cases h : fixedTxt F = []
    · rw [h, List.nil_append]; exact headOK_varTxt V hV
    · exact headOK_append_left h (headOK_fixedTxt F hF)
  · by_cases h : varTxt sep V = []
    · rw [h, List.append_nil]; exact lastOK_fixedTxt F hF
    · exact lastOK_append_right h (lastOK_varTxt V hV)

end Props.C16
