import Spec.GS1
import Lemmas.Str
/-!
# Props.C16.Sort — `sorted(data.items())` for a dict with distinct `str` keys
-/
namespace Props.C16
open Spec.GS1 Py

theorem insertSorted_perm {α : Type} (lt : α → α → Bool) (x : α) : ∀ l : List α, (Py.insertSorted lt x l).Perm (x :: l)
  | [] => List.Perm.refl _
  | y :: t => by
    unfold Py.insertSorted
    split
    · exact List.Perm.refl _
    · exact ((insertSorted_perm lt x t).cons y).trans (List.Perm.swap x y t)

theorem sortedBy_perm {α : Type} (lt : α → α → Bool) : ∀ l : List α, (Py.sortedBy lt l).Perm l
  | [] => List.Perm.refl _
  | a :: l => by
    unfold Py.sortedBy
    rw [List.foldr_cons]
    exact (insertSorted_perm lt a _).trans ((sortedBy_perm lt l).cons a)

theorem insertSorted_pairwise {α : Type} {lt : α → α → Bool}
    (htrans : ∀ a b c, lt a b = true → lt b c = true → lt a c = true) (x : α) :
    ∀ l : List α, (∀ y ∈ l, lt x y = true ∨ lt y x = true) → l.Pairwise (fun a b => lt a b = true) →
      (Py.insertSorted lt x l).Pairwise (fun a b => lt a b = true)
  | [], _, _ => by simp [Py.insertSorted]
  | y :: t, htot, hl => by
    unfold Py.insertSorted
    have hy : ∀ {z}, z ∈ t → lt y z = true := fun hz => List.rel_of_pairwise_cons hl hz
    split
    · rename_i hxy
      refine List.Pairwise.cons ?_ hl
      intro z hz
      rcases List.mem_cons.mp hz with rfl | hz
      · exact hxy
      · exact htrans _ _ _ hxy (hy hz)
    · rename_i hxy
      have hyx : lt y x = true := by
        rcases htot y List.mem_cons_self with h | h
        · exact absurd h hxy
        · exact h
      refine List.Pairwise.cons ?_ (insertSorted_pairwise htrans x t
        (fun z hz => htot z (List.mem_cons_of_mem _ hz)) (List.Pairwise.of_cons hl))
      intro z hz
      have := (insertSorted_perm lt x t).subset hz
      rcases List.mem_cons.mp this with rfl | hz'
      · exact hyx
      · exact hy hz'

theorem sortedBy_pairwise {α : Type} {lt : α → α → Bool}
    (htrans : ∀ a b c, lt a b = true → lt b c = true → lt a c = true) :
    ∀ l : List α, l.Pairwise (fun a b => lt a b = true ∨ lt b a = true) →
      (Py.sortedBy lt l).Pairwise (fun a b => lt a b = true)
  | [], _ => by simp [Py.sortedBy]
  | a :: l, h => by
    unfold Py.sortedBy
    rw [List.foldr_cons]
    refine insertSorted_pairwise htrans a _ ?_ (sortedBy_pairwise htrans l (List.Pairwise.of_cons h))
    intro y hy
    exact List.rel_of_pairwise_cons h ((sortedBy_perm lt l).subset hy)

/-- the order `sorted` uses on the items of a dict -/
def keyLt (a b : Str × GsVal) : Bool := Py.strLt a.1 b.1

theorem sortedItems_perm (m : Dict) : (sortedItems m).Perm m := sortedBy_perm _ m

theorem sortedItems_pairwise {m : Dict} (hnd : (m.map Prod.fst).Nodup) :
    (sortedItems m).Pairwise (fun a b => keyLt a b = true) := by
  show (Py.sortedBy keyLt m).Pairwise (fun a b => keyLt a b = true)
  apply sortedBy_pairwise (lt := keyLt)
  · intro a b c h1 h2; exact Py.strLt_trans h1 h2
  · rw [List.Nodup, List.pairwise_map] at hnd
    refine hnd.imp ?_
    intro a b hab
    rcases Py.strLt_trichotomy a.1 b.1 with h | h | h
    · exact Or.inl h
    · exact absurd h hab
    · exact Or.inr h

/-- a mapping with distinct keys has one sorted arrangement -/
theorem sortedItems_congr {m m' : Dict} (hnd : (m.map Prod.fst).Nodup) (hp : m'.Perm m) :
    sortedItems m' = sortedItems m := by
  have hnd' : (m'.map Prod.fst).Nodup := (hp.map Prod.fst).nodup_iff.mpr hnd
  have h1 := sortedItems_pairwise hnd
  have h2 := sortedItems_pairwise hnd'
  refine List.Perm.eq_of_pairwise ?_ h2 h1 (((sortedItems_perm m').trans hp).trans (sortedItems_perm m).symm)
  intro a b _ _ hab hba
  have := Py.strLt_asymm (x := a.1) (y := b.1) hab
  unfold keyLt at hba
  rw [this] at hba; cases hba

end Props.C16
