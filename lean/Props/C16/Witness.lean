import Props.C16.Table
/-!
# Props.C16.Witness — the full statements are false for the code as it is

Counter-examples, kernel-evaluated on the model with the real registry (`realEnv`); the same inputs are replayed on
the real Python code by `tools/corr/gs1.py` (section "witnesses").  Each mapping is shown to be well-formed (`WFmap`).
-/
namespace Props.C16
open Spec.GS1 Py

theorem not_infoEncode_of {env : Env} {sep : Str} {par : Bool} {m : Dict} {w : Str} {r : R Dict}
    (he : encode env sep par m = .ok w) (hi : info env sep w = r) (hr : ∀ m', r = .ok m' → ¬ m'.Perm m) :
    ¬ InfoEncode env sep par m := by
  rintro ⟨w', m', he', hi', hp⟩
  rw [he] at he'; injection he' with he'; subst he'
  rw [hi] at hi'
  exact hr m' hi' hp

theorem not_validateFixed_of {env : Env} {sep x v : Str} (hv : validate env sep x = .ok v)
    (h : validate env sep v ≠ .ok v ∨ ∃ m m', info env sep x = .ok m ∧ info env sep v = .ok m' ∧ ¬ DictEq m' m) :
    ¬ ValidateFixed env sep x := by
  intro hvf
  obtain ⟨h1, m, m', hm, hm', heq⟩ := hvf v hv
  rcases h with h | ⟨n, n', hn, hn', hne⟩
  · exact h h1
  · rw [hm] at hn; rw [hm'] at hn'
    injection hn with hn; injection hn' with hn'
    subst hn hn'
    exact hne heq

/-- none of the witnesses uses an identifier with a validator module -/
theorem no_validator {k : Str} (h : (realEnv.validate k).isNone = true) :
    ∀ f, realEnv.validate k = some f →
      ∃ s, (v : GsVal) = .str s ∧ ∀ n, f (.str (s ++ List.replicate n 32)) = .ok () := by
  intro f hf; rw [hf] at h; cases h

theorem nosep_nil (v : GsVal) : ∀ s ∈ textParts v, ∀ c ∈ ([] : Str), c ∉ s := by
  intro s _ c hc; cases hc

/-! ## `info (encode m) = m` fails -/

/-- R8: `{'4330': '123456'}` — `_max_length` raises AttributeError on the format `N6+[-]` -/
def m8 : Dict := [(gs% "4330", .str (gs% "123456"))]

theorem m8_wf : WFmap realEnv [] m8 := by
  refine ⟨by decide, ?_⟩
  intro kv hkv
  simp only [m8, List.mem_singleton] at hkv; subst hkv
  exact ⟨⟨by decide, by decide⟩,
    ⟨gs% "N6+[-]", gs% "str", true, registered_of_regB (by decide +kernel),
      Fits.text (D := 7) (by decide) (by decide) (by decide) (by decide +kernel) (by decide) (by decide)
        (by intro h; cases h) (by decide)⟩,
    no_validator (by decide +kernel), nosep_nil _⟩

theorem info_encode_false_R8 : WFmap realEnv [] m8 ∧ ¬ InfoEncode realEnv [] false m8 :=
  ⟨m8_wf, not_infoEncode_of (w := gs% "4330123456") (r := .error .attributeError)
    (by decide +kernel) (by decide +kernel) (by intro m' h; cases h)⟩

/-- R16: `{'10': 'A(B)C'}` — `compact` deletes the parentheses inside the value -/
def m16 : Dict := [(gs% "10", .str (gs% "A(B)C"))]

theorem m16_wf : WFmap realEnv [] m16 := by
  refine ⟨by decide, ?_⟩
  intro kv hkv
  simp only [m16, List.mem_singleton] at hkv; subst hkv
  exact ⟨⟨by decide, by decide⟩,
    ⟨gs% "X..20", gs% "str", true, registered_of_regB (by decide +kernel),
      Fits.text (D := 20) (by decide) (by decide) (by decide) (by decide +kernel) (by decide) (by decide)
        (by intro h; cases h) (by decide)⟩,
    no_validator (by decide +kernel), nosep_nil _⟩

theorem info_encode_false_R16 : WFmap realEnv [] m16 ∧ ¬ InfoEncode realEnv [] true m16 :=
  ⟨m16_wf, not_infoEncode_of (w := gs% "(10)A(B)C") (r := .ok [(gs% "10", .str (gs% "ABC"))])
    (by decide +kernel) (by decide +kernel)
    (by intro m' h; injection h with h; subst h; decide)⟩

/-- R17: `{'310': Decimal('0.000123')}` — `str(value)` has 8 characters, the field 6 digits: truncated -/
def m17 : Dict := [(gs% "310", .dec (.fin false 123 (-6)))]

theorem m17_wf : WFmap realEnv [] m17 := by
  refine ⟨by decide, ?_⟩
  intro kv hkv
  simp only [m17, List.mem_singleton] at hkv; subst hkv
  exact ⟨⟨by decide, by decide⟩,
    ⟨gs% "N6", sDecimal, false, registered_of_regB (by decide +kernel),
      Fits.decFixed (ds := gs% "6") (c := 123) (p := 6) (by decide) (by decide) (by decide) (by decide) (by decide)
        (by decide) (by decide) (by decide)⟩,
    no_validator (by decide +kernel), nosep_nil _⟩

theorem info_encode_false_R17 : WFmap realEnv [] m17 ∧ ¬ InfoEncode realEnv [] false m17 :=
  ⟨m17_wf, not_infoEncode_of (w := gs% "3105000012") (r := .ok [(gs% "310", .dec (.fin false 12 (-5)))])
    (by decide +kernel) (by decide +kernel)
    (by intro m' h; injection h with h; subst h; decide)⟩

/-- R18: `{'390': Decimal('1.5'), '91': 'x'}` without separator — the variable-length decimal is zero-padded in
front of its decimal-places digit -/
def m18 : Dict := [(gs% "390", .dec (.fin false 15 (-1))), (gs% "91", .str (gs% "x"))]

theorem m18_wf : WFmap realEnv [] m18 := by
  refine ⟨by decide, ?_⟩
  intro kv hkv
  simp only [m18, List.mem_cons, List.not_mem_nil, or_false] at hkv
  rcases hkv with rfl | rfl
  · exact ⟨⟨by decide, by decide⟩,
      ⟨gs% "N..15", sDecimal, true, registered_of_regB (by decide +kernel),
        Fits.decVar (ds := gs% "15") (c := 15) (p := 1) rfl (by decide) (by decide) (by decide) (by decide) (by decide)
          (by decide) (by decide) (by decide)⟩,
      no_validator (by decide +kernel), nosep_nil _⟩
  · exact ⟨⟨by decide, by decide⟩,
      ⟨gs% "X..90", gs% "str", true, registered_of_regB (by decide +kernel),
        Fits.text (D := 90) (by decide) (by decide) (by decide) (by decide +kernel) (by decide) (by decide)
          (by intro h; cases h) (by decide)⟩,
      no_validator (by decide +kernel), nosep_nil _⟩

theorem info_encode_false_R18 : WFmap realEnv [] m18 ∧ ¬ InfoEncode realEnv [] false m18 :=
  ⟨m18_wf, not_infoEncode_of (w := gs% "390000000000000011591x")
    (r := .ok [(gs% "390", .dec (.fin false 115 0)), (gs% "91", .str (gs% "x"))])
    (by decide +kernel) (by decide +kernel)
    (by intro m' h; injection h with h; subst h; decide)⟩

/-- R19: `{'7007': date(2020, 1, 1), '91': 'x'}` without separator — the date is padded with six blanks, which reach
`strptime` -/
def m19 : Dict := [(gs% "7007", .date ⟨2020, 1, 1⟩), (gs% "91", .str (gs% "x"))]

theorem m19_wf : WFmap realEnv [] m19 := by
  refine ⟨by decide, ?_⟩
  intro kv hkv
  simp only [m19, List.mem_cons, List.not_mem_nil, or_false] at hkv
  rcases hkv with rfl | rfl
  · exact ⟨⟨by decide, by decide⟩,
      ⟨gs% "N6[+N6]", sDate, true, registered_of_regB (by decide +kernel),
        Fits.date (Or.inr ⟨Or.inr (Or.inl rfl), rfl⟩) (by decide)⟩,
      no_validator (by decide +kernel), nosep_nil _⟩
  · exact ⟨⟨by decide, by decide⟩,
      ⟨gs% "X..90", gs% "str", true, registered_of_regB (by decide +kernel),
        Fits.text (D := 90) (by decide) (by decide) (by decide) (by decide +kernel) (by decide) (by decide)
          (by intro h; cases h) (by decide)⟩,
      no_validator (by decide +kernel), nosep_nil _⟩

theorem info_encode_false_R19 : WFmap realEnv [] m19 ∧ ¬ InfoEncode realEnv [] false m19 :=
  ⟨m19_wf, not_infoEncode_of (w := gs% "7007200101      91x") (r := .error .valueError)
    (by decide +kernel) (by decide +kernel) (by intro m' h; cases h)⟩

/-- R20: `{'7011': datetime(2020, 1, 1, 0, 0)}` — midnight is written as a bare date -/
def m20 : Dict := [(gs% "7011", .datetime ⟨2020, 1, 1⟩ 0 0 0)]

theorem m20_wf : WFmap realEnv [] m20 := by
  refine ⟨by decide, ?_⟩
  intro kv hkv
  simp only [m20, List.mem_singleton] at hkv; subst hkv
  exact ⟨⟨by decide, by decide⟩,
    ⟨gs% "N6[+N4]", sDate, true, registered_of_regB (by decide +kernel),
      Fits.dateMinute (Or.inr ⟨Or.inr (Or.inr rfl), rfl⟩) (by decide) (by decide)⟩,
    no_validator (by decide +kernel), nosep_nil _⟩

theorem info_encode_false_R20 : WFmap realEnv [] m20 ∧ ¬ InfoEncode realEnv [] false m20 :=
  ⟨m20_wf, not_infoEncode_of (w := gs% "7011200101") (r := .ok [(gs% "7011", .date ⟨2020, 1, 1⟩)])
    (by decide +kernel) (by decide +kernel)
    (by intro m' h; injection h with h; subst h; decide)⟩

/-- **the full statement `info_encode` is false** (six independent reasons) -/
theorem info_encode_false :
    ¬ ∀ (sep : Str) (par : Bool) (m : Dict), WFmap realEnv sep m → InfoEncode realEnv sep par m :=
  fun h => info_encode_false_R17.2 (h [] false m17 m17_wf)


/-! ## `validate` does not return a fixed point that decodes like its input -/

/-- R14: `validate('11') = '11000101'` — an identifier with an empty value decodes to `datetime(1900, 1, 1)`,
is written as `000101` and reads back as `date(2000, 1, 1)` -/
theorem validate_fixed_false_R14 : ¬ ValidateFixed realEnv [] (gs% "11") :=
  not_validateFixed_of (v := gs% "11000101") (by decide +kernel)
    (Or.inr ⟨[(gs% "11", .datetime ⟨1900, 1, 1⟩ 0 0 0)], [(gs% "11", .date ⟨2000, 1, 1⟩)],
      by decide +kernel, by decide +kernel, fun h => absurd (h (gs% "11")) (by decide)⟩)

/-- R17: `validate('3106000123') = '3105000012'`: 0.000123 becomes 0.00012 -/
theorem validate_fixed_false_R17 : ¬ ValidateFixed realEnv [] (gs% "3106000123") :=
  not_validateFixed_of (v := gs% "3105000012") (by decide +kernel)
    (Or.inr ⟨[(gs% "310", .dec (.fin false 123 (-6)))], [(gs% "310", .dec (.fin false 12 (-5)))],
      by decide +kernel, by decide +kernel, fun h => absurd (h (gs% "310")) (by decide)⟩)

/-- R18: `validate('390100000000000001591x') = '390000000000000011591x'`: 1.5 becomes 115 -/
theorem validate_fixed_false_R18 : ¬ ValidateFixed realEnv [] (gs% "390100000000000001591x") :=
  not_validateFixed_of (v := gs% "390000000000000011591x") (by decide +kernel)
    (Or.inr ⟨[(gs% "390", .dec (.fin false 15 (-1))), (gs% "91", .str (gs% "x"))],
      [(gs% "390", .dec (.fin false 115 0)), (gs% "91", .str (gs% "x"))],
      by decide +kernel, by decide +kernel, fun h => absurd (h (gs% "390")) (by decide)⟩)

/-- R19: `validate('7011200101100091x') = '701120010110  91x'`, which `validate` then refuses -/
theorem validate_fixed_false_R19 : ¬ ValidateFixed realEnv [] (gs% "7011200101100091x") :=
  not_validateFixed_of (v := gs% "701120010110  91x") (by decide +kernel)
    (Or.inl (by
      have : validate realEnv [] (gs% "701120010110  91x") = .error .invalidFormat := by decide +kernel
      rw [this]; intro h; cases h))

/-- R20: `validate('70112001010000') = '7011200101'`: `datetime(2020, 1, 1, 0, 0)` becomes `date(2020, 1, 1)` -/
theorem validate_fixed_false_R20 : ¬ ValidateFixed realEnv [] (gs% "70112001010000") :=
  not_validateFixed_of (v := gs% "7011200101") (by decide +kernel)
    (Or.inr ⟨[(gs% "7011", .datetime ⟨2020, 1, 1⟩ 0 0 0)], [(gs% "7011", .date ⟨2020, 1, 1⟩)],
      by decide +kernel, by decide +kernel, fun h => absurd (h (gs% "7011")) (by decide)⟩)

/-- **the full statement `validate_fixed` is false** -/
theorem validate_fixed_false : ¬ ∀ (sep x : Str), ValidateFixed realEnv sep x :=
  fun h => validate_fixed_false_R14 (h [] _)

/-- `validate('') = ''` although `is_valid('')` is false (the empty element string; C01's finding, recorded here
because it is the one input on which `validate` returns something that `is_valid` refuses) -/
theorem validate_empty : validate realEnv [] [] = .ok [] ∧ isValid realEnv [] [] = .ok false := by decide +kernel

end Props.C16
