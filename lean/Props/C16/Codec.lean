import Props.C16.Spec
import Props.C16.Dec
/-!
# Props.C16.Codec — a value that fits its declared format has a text that decodes back (`Fits → Codec`)
-/
namespace Props.C16
open Spec.GS1 Py

/-! ## helpers -/

theorem gsChar_txtChar {c : Nat} (h : gsChar c = true) (h40 : c ≠ 40) (h41 : c ≠ 41) : txtChar c = true := by
  simp only [gsChar, Bool.and_eq_true, decide_eq_true_eq, bne_iff_ne, ne_eq] at h
  simp only [txtChar, Bool.and_eq_true, decide_eq_true_eq, bne_iff_ne, ne_eq]
  omega

theorem txtChar_of_numChar {c : Nat} (h : isAsciiDigit c = true ∨ c = 69 ∨ c = 45) : txtChar c = true := by
  rcases h with h | rfl | rfl
  · exact digit_txtChar h
  · decide
  · decide

theorem dropWhile_replicate_append {α : Type} (p : α → Bool) (a : α) (hp : p a = true) (n : Nat) (l : List α) :
    (List.replicate n a ++ l).dropWhile p = l.dropWhile p := by
  induction n with
  | zero => rfl
  | succ n ih => rw [List.replicate_succ, List.cons_append, List.dropWhile_cons, if_pos hp, ih]

/-- blanks appended to a text without blanks at its ends are stripped again -/
theorem strip_append_blanks {s : Str} (hne : s ≠ []) (h : ∀ c ∈ s, Uni.isSpace c = false) (n : Nat) :
    Py.strip (s ++ List.replicate n 32) = s := by
  unfold Py.strip Py.stripBy Py.lstripBy Py.rstripBy
  have h1 : (s ++ List.replicate n 32).dropWhile Uni.isSpace = s ++ List.replicate n 32 := by
    apply Py.dropWhile_eq_self_of_head
    intro c hc
    cases s with
    | nil => exact absurd rfl hne
    | cons a t =>
      simp only [List.cons_append, List.head?_cons, Option.some.injEq] at hc
      subst hc; exact h a List.mem_cons_self
  rw [h1, List.reverse_append, List.reverse_replicate,
    dropWhile_replicate_append _ _ (by decide) n, Py.dropWhile_eq_self_of_head, List.reverse_reverse]
  intro c hc
  exact h c (by
    have := List.mem_of_mem_head? hc
    simpa using this)

theorem digitsVal_zeros (z : Nat) : Py.digitsVal (List.replicate z 48) = 0 := by
  induction z with
  | zero => rfl
  | succ z ih => rw [List.replicate_succ, Py.digitsVal_cons, ih]; simp

theorem ne_of_mem_digit {c : Nat} {t : Str} (hc : sepChar c) (ht : AllIn isAsciiDigit t) : c ∉ t := by
  intro h
  have := ht c h
  rw [hc.2.2.2.2.1] at this; cases this

theorem nosep_of_numChars {sep t : Str} (hsep : SepOK sep)
    (ht : ∀ ch ∈ t, isAsciiDigit ch = true ∨ ch = 69 ∨ ch = 45) : ∀ c ∈ sep, c ∉ t := by
  rcases hsep with rfl | ⟨c, rfl, hc⟩
  · intro c hc; cases hc
  · intro x hx hxt
    rw [List.mem_singleton] at hx; subst hx
    rcases ht x hxt with h | h | h
    · rw [hc.2.2.2.2.1] at h; cases h
    · exact hc.2.2.2.2.2.1 h
    · exact hc.2.2.2.2.2.2 h

theorem padTxt_full {typ : Str} {L : Nat} {t : Str} (h : t.length = L) : padTxt typ L t = t := by
  unfold padTxt
  split
  · exact Py.rjust_eq_self (by omega)
  · exact Py.ljust_eq_self (by omega)

/-! ## text -/

theorem codec_text {sep fmt typ : Str} {s : Str} {D : Nat} (h1 : typ ≠ sDecimal) (h2 : typ ≠ sDate) (h3 : typ ≠ sInt)
    (hne : s ≠ []) (hlen : s.length ≤ D) (hch : ∀ c ∈ s, gsChar c = true) (h40 : 40 ∉ s) (h41 : 41 ∉ s)
    (hns : ∀ c ∈ sep, c ∉ s) :
    Codec sep fmt typ D (.str s) s ∧ padTxt typ D s = s ++ List.replicate (D - s.length) 32 := by
  have htc : ∀ c ∈ s, txtChar c = true := fun c hc =>
    gsChar_txtChar (hch c hc) (fun e => h40 (e ▸ hc)) (fun e => h41 (e ▸ hc))
  have hsp : ∀ c ∈ s, Uni.isSpace c = false := fun c hc => isSpace_false_of_txtChar (htc c hc)
  have hpad : padTxt typ D s = s ++ List.replicate (D - s.length) 32 := by
    unfold padTxt
    rw [if_neg (by rintro (h | h) <;> contradiction)]
    simp [Py.ljust]
  have hdec : ∀ x, Py.strip x = s → decodeValue fmt typ x = .ok (.str s) := by
    intro x hx
    unfold decodeValue
    rw [if_neg h1, if_neg h2, if_neg h3, hx]; rfl
  refine ⟨⟨?_, hdec s (Py.strip_eq_self_of_no_space s hsp), hne, hlen, htc, hns, ?_⟩, hpad⟩
  · simp only [encodeValue, if_neg h1, pyStr]; rfl
  · intro _
    rw [hpad]
    exact hdec _ (strip_append_blanks hne hsp _)

/-! ## int -/

theorem codec_int {sep fmt : Str} {n D : Nat} (hsep : SepOK sep) (hD1 : 1 ≤ D) (hD : D ≤ 4300) (hn : n < 10 ^ D) :
    Codec sep fmt sInt D (.int (n : Int)) (Py.strOfNat n) := by
  have hi1 : sInt ≠ sDecimal := by decide
  have hi2 : sInt ≠ sDate := by decide
  have hpow : (10 : Nat) ^ D ≤ 10 ^ 4300 := Nat.pow_le_pow_right (by decide) hD
  have hlen := Py.strOfNat_length_le n D (by omega) hn
  have hdig := Py.strOfNat_allDigits n
  refine ⟨?_, ?_, Py.strOfNat_ne_nil n, hlen, fun c hc => digit_txtChar (hdig c hc), ?_, ?_⟩
  · simp only [encodeValue, if_neg hi1, pyStr]
    rw [Py.strOfIntR_of_small (by simpa using Nat.lt_of_lt_of_le hn hpow), Py.strOfInt_natCast]
  · unfold decodeValue
    rw [if_neg hi1, if_neg hi2, if_pos rfl, Py.intOf_strOfNat n (Nat.lt_of_lt_of_le hn hpow)]; rfl
  · rcases hsep with rfl | ⟨c, rfl, hc⟩
    · intro c hc; cases hc
    · intro x hx; rw [List.mem_singleton] at hx; subst hx; exact ne_of_mem_digit hc hdig
  · intro _
    have hp : padTxt sInt D (Py.strOfNat n) = List.replicate (D - (Py.strOfNat n).length) 48 ++ Py.strOfNat n := by
      unfold padTxt; rw [if_pos (Or.inr rfl)]; simp [Py.rjust]
    rw [hp]
    unfold decodeValue
    rw [if_neg hi1, if_neg hi2, if_pos rfl,
      Py.intOf_of_asciiDigits _ (by simp [Py.strOfNat_ne_nil]) ((AllIn.replicate (by decide) _).append hdig)
        (by simp only [List.length_append, List.length_replicate]; omega),
      Py.digitsVal_append, digitsVal_zeros, Py.digitsVal_strOfNat]
    simp only [Int.zero_mul, Int.zero_add]
    rfl


/-! ## decimal -/

theorem sDecimal_ne_sDate : sDecimal ≠ sDate := by decide

theorem codec_of_dec {sep fmt : Str} {v : GsVal} {t : Str} {L : Nat} (hsep : SepOK sep)
    (henc : encodeValue fmt sDecimal v = .ok t) (hdec : decodeValue fmt sDecimal t = .ok v) (hne : t ≠ [])
    (hlen : t.length ≤ L) (hch : ∀ ch ∈ t, isAsciiDigit ch = true ∨ ch = 69 ∨ ch = 45) :
    Codec sep fmt sDecimal L v t :=
  ⟨henc, hdec, hne, hlen, fun c hc => txtChar_of_numChar (hch c hc), nosep_of_numChars hsep hch,
    fun h => by rw [padTxt_full (h (Or.inl rfl))]; exact hdec⟩

theorem codec_dec_fixed {sep ds : Str} {c p : Nat} (hsep : SepOK sep) (hds : ds ≠ []) (hd : AllIn isAsciiDigit ds)
    (hlen : ds.length ≤ 4300) (hk : 1 ≤ digitsNat ds) (hk4300 : digitsNat ds ≤ 4300) (hc : c < 10 ^ digitsNat ds)
    (hp9 : p ≤ 9) (hpk : p ≤ digitsNat ds) (hR17 : p = 0 ∨ p < digitsNat ds) :
    ∃ t, Codec sep (78 :: ds) sDecimal (digitsNat ds + 1) (.dec (.fin false c (-(p : Int)))) t
      ∧ t.length = digitsNat ds + 1 := by
  obtain ⟨t, henc, hdec, hl, hch⟩ := dec_fixed_codec ds c p hds hd hlen hk hk4300 hc hp9 hpk hR17
  exact ⟨t, codec_of_dec hsep henc hdec (by intro h; rw [h] at hl; simp at hl) (by omega) hch, hl⟩

theorem codec_dec_var {sep ds : Str} {c p : Nat} (hsep : SepOK sep) (hds : ds ≠ []) (hd : AllIn isAsciiDigit ds)
    (hlen : ds.length ≤ 4300) (hk : 1 ≤ digitsNat ds) (hk4300 : digitsNat ds ≤ 4300) (hc : c < 10 ^ digitsNat ds)
    (hp9 : p ≤ 9) (hpk : p ≤ digitsNat ds) (hR17 : p = 0 ∨ p < digitsNat ds) :
    ∃ t, Codec sep (78 :: 46 :: 46 :: ds) sDecimal (digitsNat ds + 1) (.dec (.fin false c (-(p : Int)))) t := by
  obtain ⟨t, henc, hdec, hl2, hl, hch⟩ := dec_var_codec ds c p hds hd hlen hk hk4300 hc hp9 hpk hR17
  exact ⟨t, codec_of_dec hsep henc hdec (by intro h; rw [h] at hl2; simp at hl2) hl hch⟩

/-- `N3+…`: the currency code is spliced in after the decimal-places digit -/
theorem codec_cur {sep fmt : Str} {cur : Str} {d : Dec} {t : Str} {L : Nat}
    (hc : Codec sep fmt sDecimal L (.dec d) t) (hlen : cur.length = 3) (hch : ∀ c ∈ cur, txtChar c = true)
    (hns : ∀ c ∈ sep, c ∉ cur) :
    ∃ t', Codec sep (78 :: 51 :: 43 :: fmt) sDecimal (L + 3) (.tuple (.str cur) (.dec d)) t'
      ∧ t'.length = t.length + 3 := by
  obtain ⟨c1, c2, c3, rfl⟩ : ∃ c1 c2 c3, cur = [c1, c2, c3] := by
    match cur, hlen with
    | [c1, c2, c3], _ => exact ⟨c1, c2, c3, rfl⟩
  cases t with
  | nil => exact absurd rfl hc.ne
  | cons a t' =>
    have henc : encodeValue (78 :: 51 :: 43 :: fmt) sDecimal (.tuple (.str [c1, c2, c3]) (.dec d))
        = .ok (a :: c1 :: c2 :: c3 :: t') := by
      have hs : Py.slice (78 :: 51 :: 43 :: fmt) (some 3) none = fmt := by
        rw [Py.slice_nonneg_none _ (by decide)]; rfl
      have hst : Py.startswith (78 :: 51 :: 43 :: fmt) [78, 51, 43] = true := by
        simp [Py.startswith, List.isPrefixOf]
      rw [encodeValue, if_pos rfl, hst, if_pos rfl, hs, hc.enc]
      simp only [bind, Except.bind, pure, Except.pure]
      rw [Py.getItem_zero _ (by simp)]
      simp only [List.head_cons]
      rw [Py.rjust_eq_self (by simp), Py.slice_nonneg_none _ (by decide)]
      rfl
    have hdec : decodeValue (78 :: 51 :: 43 :: fmt) sDecimal (a :: c1 :: c2 :: c3 :: t')
        = .ok (.tuple (.str [c1, c2, c3]) (.dec d)) := by
      have hinner : decodeDecimal fmt (a :: t') = .ok (.dec d) := by
        have := hc.dec
        unfold decodeValue at this
        rwa [if_pos rfl] at this
      unfold decodeValue
      rw [if_pos rfl]
      simp only [decodeDecimal, bind, Except.bind, pure, Except.pure]
      rw [Py.getItem_zero _ (by simp)]
      simp only [List.head_cons]
      rw [Py.slice_nonneg_none _ (by decide)]
      simp only [List.drop_succ_cons, List.drop_zero, List.singleton_append,
        show (4 : Int).toNat = 4 from rfl, hinner]
      rfl
    refine ⟨a :: c1 :: c2 :: c3 :: t', ⟨henc, hdec, by simp, ?_, ?_, ?_, ?_⟩, by simp⟩
    · have := hc.len; simp only [List.length_cons] at this ⊢; omega
    · intro c hcm
      simp only [List.mem_cons] at hcm
      rcases hcm with rfl | rfl | rfl | rfl | hcm
      · exact hc.chars _ List.mem_cons_self
      · exact hch _ (by simp)
      · exact hch _ (by simp)
      · exact hch _ (by simp)
      · exact hc.chars _ (List.mem_cons_of_mem _ hcm)
    · intro c hcs hcm
      simp only [List.mem_cons] at hcm
      rcases hcm with rfl | rfl | rfl | rfl | hcm
      · exact hc.nosep _ hcs List.mem_cons_self
      · exact hns _ hcs (by simp)
      · exact hns _ hcs (by simp)
      · exact hns _ hcs (by simp)
      · exact hc.nosep _ hcs (List.mem_cons_of_mem _ hcm)
    · intro h
      rw [padTxt_full (h (Or.inl rfl))]; exact hdec


/-! ## the declared maximum of the decimal formats -/

theorem declMaxGo_N (f : Nat) {ds : Str} (hne : ds ≠ []) (hd : AllIn isAsciiDigit ds) :
    declMaxGo (f + 1) (78 :: ds) = some (digitsNat ds) := by
  have h1 : ds.takeWhile isAsciiDigit = ds := Py.takeWhile_eq_self hd
  have h2 : ds.dropWhile isAsciiDigit = [] := Py.dropWhile_eq_nil hd
  rw [declMaxGo, if_neg (by decide), if_neg (by decide), if_pos (by decide)]
  simp only [h1, h2, if_neg hne]
  cases f <;> simp [declMaxGo]

theorem declMaxGo_Ndd (f : Nat) {ds : Str} (hne : ds ≠ []) (hd : AllIn isAsciiDigit ds) :
    declMaxGo (f + 1) (78 :: 46 :: 46 :: ds) = some (digitsNat ds) := by
  have h1 : ds.takeWhile isAsciiDigit = ds := Py.takeWhile_eq_self hd
  have h2 : ds.dropWhile isAsciiDigit = [] := Py.dropWhile_eq_nil hd
  have h3 : (46 :: 46 :: ds).dropWhile isAsciiDigit = 46 :: 46 :: ds := by
    rw [List.dropWhile_cons, if_neg (by decide)]
  rw [declMaxGo, if_neg (by decide), if_neg (by decide), if_pos (by decide)]
  simp only [h3, h1, h2, if_neg hne]
  cases f <;> simp [declMaxGo]

theorem declMax_N {ds : Str} (hne : ds ≠ []) (hd : AllIn isAsciiDigit ds) :
    declMax (78 :: ds) = some (digitsNat ds) := declMaxGo_N _ hne hd

theorem declMax_Ndd {ds : Str} (hne : ds ≠ []) (hd : AllIn isAsciiDigit ds) :
    declMax (78 :: 46 :: 46 :: ds) = some (digitsNat ds) := declMaxGo_Ndd _ hne hd

/-- `N3+` in front of a format whose reading needs at most the fuel that is left -/
theorem declMaxGo_N3p (f : Nat) (rest : Str) :
    declMaxGo (f + 2) (78 :: 51 :: 43 :: rest) = (declMaxGo f rest).map (· + 3) := by
  have h1 : (51 :: 43 :: rest).takeWhile isAsciiDigit = [51] := by
    rw [List.takeWhile_cons, if_pos (by decide), List.takeWhile_cons, if_neg (by decide)]
  have h2 : (51 :: 43 :: rest).dropWhile isAsciiDigit = 43 :: rest := by
    rw [List.dropWhile_cons, if_pos (by decide), List.dropWhile_cons, if_neg (by decide)]
  rw [declMaxGo, if_neg (by decide), if_neg (by decide), if_pos (by decide)]
  simp only [h1, h2]
  rw [if_neg (by decide), declMaxGo, if_pos (by decide)]
  rfl

theorem declMax_N3p_N {ds : Str} (hne : ds ≠ []) (hd : AllIn isAsciiDigit ds) :
    declMax (78 :: 51 :: 43 :: 78 :: ds) = some (digitsNat ds + 3) := by
  unfold declMax
  rw [show (78 :: 51 :: 43 :: 78 :: ds).length = (ds.length + 1 + 1) + 2 by simp, declMaxGo_N3p, declMaxGo_N _ hne hd]
  rfl

theorem declMax_N3p_Ndd {ds : Str} (hne : ds ≠ []) (hd : AllIn isAsciiDigit ds) :
    declMax (78 :: 51 :: 43 :: 78 :: 46 :: 46 :: ds) = some (digitsNat ds + 3) := by
  unfold declMax
  rw [show (78 :: 51 :: 43 :: 78 :: 46 :: 46 :: ds).length = (ds.length + 3 + 1) + 2 by simp, declMaxGo_N3p,
    declMaxGo_Ndd _ hne hd]
  rfl


/-! ## dates -/

theorem codec_of_date {sep fmt : Str} {v : GsVal} {t : Str} {L : Nat} (hsep : SepOK sep)
    (henc : encodeValue fmt sDate v = .ok t) (hdec : decodeValue fmt sDate t = .ok v)
    (hdig : AllIn isAsciiDigit t) (hne : t ≠ []) (hlen : t.length ≤ L) : Codec sep fmt sDate L v t :=
  ⟨henc, hdec, hne, hlen, fun c hc => digit_txtChar (hdig c hc),
    nosep_of_numChars hsep (fun c hc => Or.inl (hdig c hc)),
    fun h => by rw [padTxt_full (h (Or.inr rfl))]; exact hdec⟩

theorem declMax_dates : declMax fN6 = some 6 ∧ declMax fN10 = some 10 ∧ declMax fN6dd12 = some 12
    ∧ declMax fN6oN6 = some 12 ∧ declMax fN6pNdd4 = some 10 ∧ declMax fN6oNdd4 = some 10 ∧ declMax fN6oN4 = some 10
    ∧ declMax fN8pNdd4 = some 12 ∧ declMax fN8oNdd4 = some 12 := by decide

theorem declMax_N6N4 {fmt : Str} (h : IsN6N4 fmt) : declMax fmt = some 10 := by
  rcases h with rfl | rfl | rfl
  · exact declMax_dates.2.2.2.2.1
  · exact declMax_dates.2.2.2.2.2.1
  · exact declMax_dates.2.2.2.2.2.2.1

theorem declMax_N8N4 {fmt : Str} (h : IsN8N4 fmt) : declMax fmt = some 12 := by
  rcases h with rfl | rfl
  · exact declMax_dates.2.2.2.2.2.2.2.1
  · exact declMax_dates.2.2.2.2.2.2.2.2

theorem declMax_range {fmt : Str} (h : fmt = fN6dd12 ∨ fmt = fN6oN6) : declMax fmt = some 12 := by
  rcases h with rfl | rfl
  · exact declMax_dates.2.2.1
  · exact declMax_dates.2.2.2.1

theorem ymdH_digits (d : Py.Date) (h : Int) : AllIn isAsciiDigit (ymd d ++ d2 h) :=
  (ymd_digits d).append (d2_digits h)
theorem ymdHM_digits (d : Py.Date) (h mi : Int) : AllIn isAsciiDigit (ymd d ++ d2 h ++ d2 mi) :=
  (ymdH_digits d h).append (d2_digits mi)
theorem ymdHMS_digits (d : Py.Date) (h mi s : Int) : AllIn isAsciiDigit (ymdHMS d h mi s) :=
  (ymdHM_digits d h mi).append (d2_digits s)

theorem N6N4_not_special {fmt : Str} (h : IsN6N4 fmt) : fmt ≠ fN6 ∧ fmt ≠ fN10 ∧ ¬ IsN8N4 fmt := by
  rcases h with rfl | rfl | rfl <;> decide
theorem N8N4_not_special {fmt : Str} (h : IsN8N4 fmt) :
    fmt ≠ fN6 ∧ fmt ≠ fN10 ∧ ¬ IsN6N4 fmt ∧ fmt ≠ fN12 ∧ fmt ≠ fN6dd12 ∧ fmt ≠ fN6oN6 := by
  rcases h with rfl | rfl <;> decide

/-! ## `Fits → Codec` -/

/-- what the main proof needs about the text of an item -/
structure TextOf (sep fmt typ : Str) (fnc1 : Bool) (D : Nat) (v : GsVal) (t : Str) : Prop where
  codec : Codec sep fmt typ (D + if typ = sDecimal then 1 else 0) v t
  fixed : fnc1 = false → t.length = D + if typ = sDecimal then 1 else 0
  fullDec : typ = sDecimal → ¬ IsVarDec fmt → t.length = D + 1
  fullDate : typ = sDate → FullLengthDate fmt v → t.length = D
  str : ∀ s, v = .str s → t = s ∧ padTxt typ (D + if typ = sDecimal then 1 else 0) t = s ++ List.replicate (D - s.length) 32

theorem textOf_nondec {sep fmt typ : Str} {fnc1 : Bool} {D : Nat} {v : GsVal} {t : Str} (h : typ ≠ sDecimal)
    (codec : Codec sep fmt typ D v t) (fixed : fnc1 = false → t.length = D)
    (fullDate : typ = sDate → FullLengthDate fmt v → t.length = D)
    (str : ∀ s, v = .str s → t = s ∧ padTxt typ D t = s ++ List.replicate (D - s.length) 32) :
    TextOf sep fmt typ fnc1 D v t := by
  refine ⟨?_, ?_, fun h' => absurd h' h, fullDate, ?_⟩ <;> simp only [if_neg h, Nat.add_zero] <;> assumption

theorem textOf_dec {sep fmt : Str} {fnc1 : Bool} {D : Nat} {v : GsVal} {t : Str}
    (codec : Codec sep fmt sDecimal (D + 1) v t) (fixed : fnc1 = false → t.length = D + 1)
    (fullDec : ¬ IsVarDec fmt → t.length = D + 1) (hv : ∀ s, v ≠ .str s) :
    TextOf sep fmt sDecimal fnc1 D v t := by
  refine ⟨?_, ?_, fun _ => fullDec, fun h' => absurd h' sDecimal_ne_sDate, fun s hs => absurd hs (hv s)⟩
    <;> simp only [if_true] <;> assumption

theorem fieldDigits_N {ds : Str} (hd : AllIn isAsciiDigit ds) : fieldDigits (78 :: ds) = some (digitsNat ds) := by
  unfold fieldDigits
  split
  · rename_i fmt heq
    simp only [List.cons.injEq, true_and] at heq
    subst heq
    exact absurd (hd 43 (by simp)) (by decide)
  · rename_i ds' heq
    simp only [List.cons.injEq, true_and] at heq
    subst heq
    exact absurd (hd 46 (by simp)) (by decide)
  · rename_i ds' heq
    simp only [List.cons.injEq, true_and] at heq
    subst heq; rfl
  · rename_i h1 h2 h3; exact absurd rfl (h3 ds)

theorem fieldDigits_N3p (fmt : Str) : fieldDigits (78 :: 51 :: 43 :: fmt) = fieldDigits fmt := by
  rw [fieldDigits]

theorem sInt_ne_sDecimal : sInt ≠ sDecimal := by decide
theorem sInt_ne_sDate : sInt ≠ sDate := by decide

theorem textOf_of_fits {sep : Str} (hsep : SepOK sep) {fnc1 : Bool} {fmt typ : Str} {v : GsVal}
    (hf : Fits fnc1 fmt typ v) {D : Nat} (hD : declMax fmt = some D)
    (h16 : ∀ s ∈ textParts v, 40 ∉ s ∧ 41 ∉ s)
    (h17 : ∀ neg c e, decOf v = some (.fin neg c e) → ∀ K, fieldDigits fmt = some K → e = 0 ∨ -e < (K : Int))
    (h20 : IsN6N4 fmt → ∀ d s, v ≠ .datetime d 0 0 s)
    (hns : ∀ s ∈ textParts v, ∀ c ∈ sep, c ∉ s) :
    ∃ t, TextOf sep fmt typ fnc1 D v t := by
  cases hf with
  | @text fmt typ s D' h1 h2 h3 hD' hne hlen hfix hch =>
    rw [hD] at hD'; injection hD' with hD'; subst hD'
    have hp := h16 s (by simp [textParts])
    obtain ⟨hc, hpad⟩ := codec_text (sep := sep) (fmt := fmt) h1 h2 h3 hne hlen hch hp.1 hp.2 (hns s (by simp [textParts]))
    exact ⟨s, textOf_nondec h1 hc hfix (fun h => absurd h h2)
      (fun s' hs' => by injection hs' with hs'; subst hs'; exact ⟨rfl, hpad⟩)⟩
  | @int fmt n D' hD' hD1 hD4 hn hfix =>
    rw [hD] at hD'; injection hD' with hD'; subst hD'
    exact ⟨Py.strOfNat n, textOf_nondec sInt_ne_sDecimal (codec_int hsep hD1 hD4 hn) hfix
      (fun h => absurd h sInt_ne_sDate) (fun s' hs' => by cases hs')⟩
  | @decFixed ds c p hne hd hl hk hk4 hc hp9 hpk =>
    rw [declMax_N hne hd] at hD; injection hD with hD; subst hD
    have hR : p = 0 ∨ p < digitsNat ds := by
      have := h17 false c (-(p : Int)) rfl (digitsNat ds) (fieldDigits_N hd)
      omega
    obtain ⟨t, hcd, hlen⟩ := codec_dec_fixed hsep hne hd hl hk hk4 hc hp9 hpk hR
    exact ⟨t, textOf_dec hcd (fun _ => hlen) (fun _ => hlen) (fun s' hs' => by cases hs')⟩
  | @decVar ds c p hfnc hne hd hl hk hk4 hc hp9 hpk =>
    rw [declMax_Ndd hne hd] at hD; injection hD with hD; subst hD
    have hR : p = 0 ∨ p < digitsNat ds := by
      have := h17 false c (-(p : Int)) rfl (digitsNat ds) rfl
      omega
    obtain ⟨t, hcd⟩ := codec_dec_var hsep hne hd hl hk hk4 hc hp9 hpk hR
    exact ⟨t, textOf_dec hcd (fun h => by rw [hfnc] at h; cases h) (fun h => absurd trivial h)
      (fun s' hs' => by cases hs')⟩
  | @decCur fmt' cur d hin hcl hcc =>
    have hp := h16 cur (by simp [textParts])
    have hcur : ∀ c ∈ cur, txtChar c = true := fun c hc =>
      gsChar_txtChar (hcc c hc) (fun e => hp.1 (e ▸ hc)) (fun e => hp.2 (e ▸ hc))
    have hnsc := hns cur (by simp [textParts])
    cases hin with
    | @decFixed ds c p hne hd hl hk hk4 hc hp9 hpk =>
      rw [declMax_N3p_N hne hd] at hD; injection hD with hD; subst hD
      have hR : p = 0 ∨ p < digitsNat ds := by
        have := h17 false c (-(p : Int)) rfl (digitsNat ds) (by rw [fieldDigits_N3p, fieldDigits_N hd])
        omega
      obtain ⟨t, hcd, hlen⟩ := codec_dec_fixed hsep hne hd hl hk hk4 hc hp9 hpk hR
      obtain ⟨t', hcd', hlen'⟩ := codec_cur hcd hcl hcur hnsc
      have e : digitsNat ds + 3 + 1 = digitsNat ds + 1 + 3 := by omega
      exact ⟨t', textOf_dec (e ▸ hcd') (fun _ => by omega) (fun _ => by omega) (fun s' hs' => by cases hs')⟩
    | @decVar ds c p hfnc hne hd hl hk hk4 hc hp9 hpk =>
      rw [declMax_N3p_Ndd hne hd] at hD; injection hD with hD; subst hD
      have hR : p = 0 ∨ p < digitsNat ds := by
        have := h17 false c (-(p : Int)) rfl (digitsNat ds) (by rw [fieldDigits_N3p]; rfl)
        omega
      obtain ⟨t, hcd⟩ := codec_dec_var hsep hne hd hl hk hk4 hc hp9 hpk hR
      obtain ⟨t', hcd', hlen'⟩ := codec_cur hcd hcl hcur hnsc
      have e : digitsNat ds + 3 + 1 = digitsNat ds + 1 + 3 := by omega
      exact ⟨t', textOf_dec (e ▸ hcd') (fun h => by rw [hfnc] at h; cases h) (fun h => absurd trivial h)
        (fun s' hs' => by cases hs')⟩
  | @date fmt d hfmt hd =>
    have hdec := decode_date (fmt := fmt) hd
    have hne : ymd d ≠ [] := by simp [ymd, d2]
    rcases hfmt with rfl | ⟨hfmt, hfnc⟩
    · rw [declMax_dates.1] at hD; injection hD with hD; subst hD
      exact ⟨ymd d, textOf_nondec sDate_ne_sDecimal
        (codec_of_date hsep (encode_date_plain d (Or.inl rfl)) hdec (ymd_digits d) hne (by simp [ymd_length]))
        (fun _ => ymd_length d) (fun _ _ => ymd_length d) (fun s' hs' => by cases hs')⟩
    · have henc : encodeValue fmt sDate (.date d) = .ok (ymd d) := by
        rcases hfmt with h | h | h
        · exact encode_date_plain d (Or.inr (Or.inl h))
        · exact encode_date_plain d (Or.inr (Or.inr h))
        · exact encode_date_N6N4 h d
      have hD6 : 6 ≤ D := by
        rcases hfmt with h | h | h
        · rw [declMax_range (Or.inl h)] at hD; injection hD with hD; omega
        · rw [declMax_range (Or.inr h)] at hD; injection hD with hD; omega
        · rw [declMax_N6N4 h] at hD; injection hD with hD; omega
      refine ⟨ymd d, textOf_nondec sDate_ne_sDecimal
        (codec_of_date hsep henc hdec (ymd_digits d) hne (by rw [ymd_length]; exact hD6))
        (fun h => by rw [hfnc] at h; cases h) ?_ (fun s' hs' => by cases hs')⟩
      intro _ hfull
      simp only [FullLengthDate] at hfull
      subst hfull
      rw [declMax_dates.1] at hD; injection hD with hD
  | @dateRange fmt d1 d2 hfmt hd1 hd2 =>
    rw [declMax_range hfmt] at hD; injection hD with hD; subst hD
    exact ⟨ymd d1 ++ ymd d2, textOf_nondec sDate_ne_sDecimal
      (codec_of_date hsep (encode_range d1 d2 hfmt) (decode_range hfmt hd1 hd2)
        ((ymd_digits d1).append (ymd_digits d2)) (by simp [ymd, Spec.GS1.d2]) (by simp [ymd_length]))
      (fun _ => rfl) (fun _ _ => rfl) (fun s' hs' => by cases hs')⟩
  | @dateMinute fmt d h mi hfmt hd ht =>
    obtain ⟨h0, h1, m0, m1, _, _⟩ := ht
    rcases hfmt with rfl | ⟨hfmt, hfnc⟩
    · rw [declMax_dates.2.1] at hD; injection hD with hD; subst hD
      exact ⟨ymd d ++ d2 h ++ d2 mi, textOf_nondec sDate_ne_sDecimal
        (codec_of_date hsep (encode_dt_N10 d h mi 0) (decode_ymdHM hd h0 h1 m0 m1) (ymdHM_digits d h mi)
          (by simp [ymd, d2]) (by simp [ymd, d2]))
        (fun _ => rfl) (fun _ _ => rfl) (fun s' hs' => by cases hs')⟩
    · rw [declMax_N6N4 hfmt] at hD; injection hD with hD; subst hD
      have henc := encode_dt_N6N4 hfmt d (0 : Int) h0 h1 m0 m1
      have hnomid : ¬ (mi = 0 ∧ h = 0) := by
        rintro ⟨rfl, rfl⟩; exact h20 hfmt d 0 rfl
      by_cases hmi : mi = 0
      · have hh : h ≠ 0 := fun e => hnomid ⟨hmi, e⟩
        subst hmi
        rw [if_pos rfl, if_neg hh] at henc
        refine ⟨ymd d ++ d2 h, textOf_nondec sDate_ne_sDecimal
          (codec_of_date hsep henc (decode_ymdH hd h0 h1) (ymdH_digits d h) (by simp [ymd, d2]) (by simp [ymd, d2]))
          (fun h => by rw [hfnc] at h; cases h) ?_ (fun s' hs' => by cases hs')⟩
        intro _ hfull
        simp only [FullLengthDate] at hfull
        have := N6N4_not_special hfmt
        rcases hfull with hfull | ⟨_, hfull⟩ | ⟨hfull, _⟩
        · exact absurd hfull this.2.1
        · exact absurd rfl hfull
        · exact absurd hfull this.2.2
      · rw [if_neg hmi] at henc
        exact ⟨ymd d ++ d2 h ++ d2 mi, textOf_nondec sDate_ne_sDecimal
          (codec_of_date hsep henc (decode_ymdHM hd h0 h1 m0 m1) (ymdHM_digits d h mi) (by simp [ymd, d2])
            (by simp [ymd, d2]))
          (fun _ => rfl) (fun _ _ => rfl) (fun s' hs' => by cases hs')⟩
  | @dateSecond fmt d h mi s hfmt hfnc hd ht =>
    rw [declMax_N8N4 hfmt] at hD; injection hD with hD; subst hD
    have henc := encode_dt_N8N4 hfmt d ht
    have hns := N8N4_not_special hfmt
    obtain ⟨h0, h1, m0, m1, s0, s1⟩ := ht
    have hfullcase : ∀ t : Str, (s ≠ 0 → t.length = 12) →
        sDate = sDate → FullLengthDate fmt (.datetime d h mi s) → t.length = 12 := by
      intro t ht _ hfull
      simp only [FullLengthDate] at hfull
      rcases hfull with hfull | ⟨hfull, _⟩ | ⟨_, hfull⟩
      · exact absurd hfull hns.2.1
      · exact absurd hfull hns.2.2.1
      · exact ht hfull
    by_cases hs : s = 0
    · subst hs
      by_cases hmi : mi = 0
      · subst hmi
        rw [if_pos rfl, if_pos rfl] at henc
        exact ⟨ymd d ++ d2 h, textOf_nondec sDate_ne_sDecimal
          (codec_of_date hsep henc (decode_ymdH hd h0 h1) (ymdH_digits d h) (by simp [ymd, d2]) (by simp [ymd, d2]))
          (fun h => by rw [hfnc] at h; cases h) (hfullcase _ (fun h => absurd rfl h)) (fun s' hs' => by cases hs')⟩
      · rw [if_pos rfl, if_neg hmi] at henc
        exact ⟨ymd d ++ d2 h ++ d2 mi, textOf_nondec sDate_ne_sDecimal
          (codec_of_date hsep henc (decode_ymdHM hd h0 h1 m0 m1) (ymdHM_digits d h mi) (by simp [ymd, d2])
            (by simp [ymd, d2]))
          (fun h => by rw [hfnc] at h; cases h) (hfullcase _ (fun h => absurd rfl h)) (fun s' hs' => by cases hs')⟩
    · rw [if_neg hs] at henc
      exact ⟨ymdHMS d h mi s, textOf_nondec sDate_ne_sDecimal
        (codec_of_date hsep henc (decode_ymdHMS ⟨hns.2.2.2.1, hns.2.2.2.2.1, hns.2.2.2.2.2⟩ hd ⟨h0, h1, m0, m1, s0, s1⟩)
          (ymdHMS_digits d h mi s) (by simp [ymdHMS, ymd, d2]) (by simp [ymdHMS, ymd, d2]))
        (fun h => by rw [hfnc] at h; cases h) (hfullcase _ (fun _ => rfl)) (fun s' hs' => by cases hs')⟩

end Props.C16
