import Props.C16.Main
import Props.C16.Table
/-!
# Props.C16.Examples — the hypotheses of the partial theorems are satisfiable (non-vacuity), and what they give on
the real registry
-/
namespace Props.C16
open Spec.GS1 Py

/-! ## `Registered` on the real registry is decided by `regB` -/

theorem regB_of_registered {env : Env} {k fmt typ : Str} {fnc1 : Bool} (h : Registered env k fmt typ fnc1) :
    regB env k = some (fmt, typ, fnc1) := by
  obtain ⟨p, hl, hp, hf, ht, hc⟩ := h
  have hk : k ≠ [] := by
    intro hk; rw [hk, aiLookup_nil] at hl; cases hl
  rw [aiLookup_eq _ _ hk, Props.C10.findStep_spec] at hl
  injection hl with hl
  obtain ⟨h1, h2⟩ := Prod.mk.inj hl
  unfold regB
  rw [if_neg hk]
  simp only [h1, h2, hp, ne_eq, not_false_eq_true, and_self, if_true, hf, ht, hc]

/-- a property of the registered format/type/flag of `k` only has to be checked on the registered ones -/
theorem forall_registered {env : Env} {k f0 t0 : Str} {c0 : Bool} (hreg : Registered env k f0 t0 c0)
    {P : Str → Str → Bool → Prop} (h : P f0 t0 c0) : ∀ fmt typ fnc1, Registered env k fmt typ fnc1 → P fmt typ fnc1 := by
  intro fmt typ fnc1 hr
  obtain ⟨rfl, rfl, rfl⟩ := registered_unique hreg hr
  exact h

/-- **on the current registry R8 concerns exactly the identifiers 4330–4333 and 8030**: a mapping over the other
registered identifiers satisfies `NoR8` -/
theorem real_NoR8 (m : Dict) (h : ∀ kv ∈ m, kv.1 ∈ Spec.GS1.Data.ais ∧ kv.1 ∉ r8List) : NoR8 realEnv m := by
  intro kv hkv fmt typ fnc1 hreg
  obtain ⟨hin, hnot⟩ := h kv hkv
  have hchk := real_checkAI kv.1 hin
  have hrb := regB_of_registered hreg
  unfold checkAI at hchk
  rw [hrb] at hchk
  simp only [Bool.and_eq_true] at hchk
  have hagree : maxLengthAgrees fmt typ = true := by
    have h1 := hchk.2.1.2
    have : r8List.contains kv.1 = false := by simpa using hnot
    rw [this] at h1
    simpa using h1
  unfold maxLengthAgrees at hagree
  split at hagree
  · rename_i D hD
    exact ⟨D, hD, of_decide_eq_true hagree⟩
  · cases hagree

/-- `info_encode_partial` on the current registry -/
theorem info_encode_real {sep : Str} {par : Bool} {m : Dict} (hsep : SepOK sep) (hwf : WFmap realEnv sep m)
    (hkeys : ∀ kv ∈ m, kv.1 ∈ Spec.GS1.Data.ais ∧ kv.1 ∉ r8List)
    (h16 : NoR16 m) (h17 : NoR17 realEnv m) (h18 : NoR18 realEnv sep m) (h19 : NoR19 realEnv sep m)
    (h20 : NoR20 realEnv m) : InfoEncode realEnv sep par m :=
  info_encode_partial hsep hwf (real_NoR8 m hkeys) h16 h17 h18 h19 h20

/-! ## a mapping of seven identifiers: fixed and variable text, int, decimal, currency amount, date, date-time -/

/-- `{'01': '12345678901231', '10': 'AB-12', '11': date(1999, 12, 31), '30': 42, '310': Decimal('12.34'),
'391': ('978', Decimal('15.00')), '7003': datetime(2024, 2, 29, 13, 45)}` -/
def exMap : Dict :=
  [ (gs% "7003", .datetime ⟨2024, 2, 29⟩ 13 45 0),
    (gs% "10", .str (gs% "AB-12")),
    (gs% "310", .dec (.fin false 1234 (-2))),
    (gs% "30", .int 42),
    (gs% "391", .tuple (.str (gs% "978")) (.dec (.fin false 1500 (-2)))),
    (gs% "11", .date ⟨1999, 12, 31⟩) ]

/-- the separator GS (0x1D) -/
def gsSep : Str := [29]

theorem gsSep_ok : SepOK gsSep := Or.inr ⟨29, rfl, by decide, by decide, by decide, by decide, by decide, by decide, by decide⟩

theorem no_validator' {k : Str} {v : GsVal} (h : (realEnv.validate k).isNone = true) :
    ∀ f, realEnv.validate k = some f → ∃ s, v = .str s ∧ ∀ n, f (.str (s ++ List.replicate n 32)) = .ok () := by
  intro f hf; rw [hf] at h; cases h

theorem exReg7003 : Registered realEnv (gs% "7003") (gs% "N10") sDate true := registered_of_regB (by decide +kernel)
theorem exReg10 : Registered realEnv (gs% "10") (gs% "X..20") (gs% "str") true := registered_of_regB (by decide +kernel)
theorem exReg310 : Registered realEnv (gs% "310") (gs% "N6") sDecimal false := registered_of_regB (by decide +kernel)
theorem exReg30 : Registered realEnv (gs% "30") (gs% "N..8") sInt true := registered_of_regB (by decide +kernel)
theorem exReg391 : Registered realEnv (gs% "391") (gs% "N3+N..15") sDecimal true := registered_of_regB (by decide +kernel)
theorem exReg11 : Registered realEnv (gs% "11") (gs% "N6") sDate false := registered_of_regB (by decide +kernel)

theorem exMap_wf (sep : Str) (hs : ∀ c ∈ sep, c ∉ gs% "AB-12" ∧ c ∉ gs% "978") : WFmap realEnv sep exMap := by
  refine ⟨by decide, ?_⟩
  intro kv hkv
  simp only [exMap, List.mem_cons, List.not_mem_nil, or_false] at hkv
  rcases hkv with rfl | rfl | rfl | rfl | rfl | rfl
  · exact ⟨⟨by decide, by decide⟩, ⟨_, _, _, exReg7003, Fits.dateMinute (Or.inl rfl) (by decide) (by decide)⟩,
      no_validator' (by decide +kernel), by intro s h; cases h⟩
  · exact ⟨⟨by decide, by decide⟩,
      ⟨_, _, _, exReg10, Fits.text (D := 20) (by decide) (by decide) (by decide) (by decide +kernel) (by decide)
        (by decide) (by intro h; cases h) (by decide)⟩,
      no_validator' (by decide +kernel), by
        intro s h c hc
        simp only [textParts, List.mem_singleton] at h; subst h
        exact (hs c hc).1⟩
  · exact ⟨⟨by decide, by decide⟩,
      ⟨_, _, _, exReg310, Fits.decFixed (ds := gs% "6") (c := 1234) (p := 2) (by decide) (by decide) (by decide)
        (by decide) (by decide) (by decide) (by decide) (by decide)⟩,
      no_validator' (by decide +kernel), by intro s h; cases h⟩
  · exact ⟨⟨by decide, by decide⟩,
      ⟨_, _, _, exReg30, Fits.int (n := 42) (D := 8) (by decide +kernel) (by decide) (by decide) (by decide)
        (by intro h; cases h)⟩,
      no_validator' (by decide +kernel), by intro s h; cases h⟩
  · exact ⟨⟨by decide, by decide⟩,
      ⟨_, _, _, exReg391, Fits.decCur (Fits.decVar (ds := gs% "15") (c := 1500) (p := 2) rfl (by decide) (by decide)
        (by decide) (by decide) (by decide) (by decide) (by decide) (by decide)) (by decide) (by decide)⟩,
      no_validator' (by decide +kernel), by
        intro s h c hc
        simp only [textParts, List.mem_singleton] at h; subst h
        exact (hs c hc).2⟩
  · exact ⟨⟨by decide, by decide⟩, ⟨_, _, _, exReg11, Fits.date (Or.inl rfl) (by decide)⟩,
      no_validator' (by decide +kernel), by intro s h; cases h⟩

theorem exMap_keys : ∀ kv ∈ exMap, kv.1 ∈ Spec.GS1.Data.ais ∧ kv.1 ∉ r8List := by decide +kernel

theorem exMap_noR16 : NoR16 exMap := by unfold NoR16; decide

theorem exMap_noR17 : NoR17 realEnv exMap := by
  intro kv hkv
  simp only [exMap, List.mem_cons, List.not_mem_nil, or_false] at hkv
  rcases hkv with rfl | rfl | rfl | rfl | rfl | rfl
  · exact forall_registered exReg7003 (by intro neg c e h; cases h)
  · exact forall_registered exReg10 (by intro neg c e h; cases h)
  · exact forall_registered exReg310 (by
      intro neg c e h K hK
      simp only [decOf, Option.some.injEq, Dec.fin.injEq] at h
      obtain ⟨_, _, rfl⟩ := h
      have : fieldDigits (gs% "N6") = some 6 := by decide
      rw [this] at hK; injection hK with hK; subst hK; decide)
  · exact forall_registered exReg30 (by intro neg c e h; cases h)
  · exact forall_registered exReg391 (by
      intro neg c e h K hK
      simp only [decOf, Option.some.injEq, Dec.fin.injEq] at h
      obtain ⟨_, _, rfl⟩ := h
      have : fieldDigits (gs% "N3+N..15") = some 15 := by decide
      rw [this] at hK; injection hK with hK; subst hK; decide)
  · exact forall_registered exReg11 (by intro neg c e h; cases h)

theorem exMap_noR20 : NoR20 realEnv exMap := by
  intro kv hkv
  simp only [exMap, List.mem_cons, List.not_mem_nil, or_false] at hkv
  rcases hkv with rfl | rfl | rfl | rfl | rfl | rfl
  · exact forall_registered exReg7003 (by intro h; exact absurd h (by decide))
  · exact forall_registered exReg10 (by intro _ d s h; cases h)
  · exact forall_registered exReg310 (by intro _ d s h; cases h)
  · exact forall_registered exReg30 (by intro _ d s h; cases h)
  · exact forall_registered exReg391 (by intro _ d s h; cases h)
  · exact forall_registered exReg11 (by intro _ d s h; cases h)

/-- non-vacuity of `info_encode_partial`: with the separator GS and parentheses … -/
theorem exMap_info_encode_gs : InfoEncode realEnv gsSep true exMap :=
  info_encode_real gsSep_ok (exMap_wf gsSep (by decide)) exMap_keys exMap_noR16 exMap_noR17
    (by intro h; cases h) (by intro h; cases h) exMap_noR20

/-- … and what the theorem talks about, evaluated: the element string and its decoding -/
example : encode realEnv gsSep true exMap
    = .ok (gs% "(11)991231(310)2001234(10)AB-12\x1d(30)42\x1d(391)29781500\x1d(7003)2402291345") := by
  decide +kernel


/-- without separator and parentheses the variable-length text and the integer are padded; `exMap` has a
variable-length decimal (`391`) that is not the last variable-length item, so `NoR18` FAILS for it without a
separator — the smaller mapping below has none -/
def exMap2 : Dict :=
  [ (gs% "30", .int 7), (gs% "21", .str (gs% "CD-1")), (gs% "11", .date ⟨1999, 12, 31⟩), (gs% "10", .str (gs% "AB")) ]

theorem exReg21 : Registered realEnv (gs% "21") (gs% "X..20") (gs% "str") true := registered_of_regB (by decide +kernel)

theorem exMap2_wf (sep : Str) (hs : ∀ c ∈ sep, c ∉ gs% "CD-1" ∧ c ∉ gs% "AB") : WFmap realEnv sep exMap2 := by
  refine ⟨by decide, ?_⟩
  intro kv hkv
  simp only [exMap2, List.mem_cons, List.not_mem_nil, or_false] at hkv
  rcases hkv with rfl | rfl | rfl | rfl
  · exact ⟨⟨by decide, by decide⟩,
      ⟨_, _, _, exReg30, Fits.int (n := 7) (D := 8) (by decide +kernel) (by decide) (by decide) (by decide)
        (by intro h; cases h)⟩,
      no_validator' (by decide +kernel), by intro s h; cases h⟩
  · exact ⟨⟨by decide, by decide⟩,
      ⟨_, _, _, exReg21, Fits.text (D := 20) (by decide) (by decide) (by decide) (by decide +kernel) (by decide)
        (by decide) (by intro h; cases h) (by decide)⟩,
      no_validator' (by decide +kernel), by
        intro s h c hc
        simp only [textParts, List.mem_singleton] at h; subst h
        exact (hs c hc).1⟩
  · exact ⟨⟨by decide, by decide⟩, ⟨_, _, _, exReg11, Fits.date (Or.inl rfl) (by decide)⟩,
      no_validator' (by decide +kernel), by intro s h; cases h⟩
  · exact ⟨⟨by decide, by decide⟩,
      ⟨_, _, _, exReg10, Fits.text (D := 20) (by decide) (by decide) (by decide) (by decide +kernel) (by decide)
        (by decide) (by intro h; cases h) (by decide)⟩,
      no_validator' (by decide +kernel), by
        intro s h c hc
        simp only [textParts, List.mem_singleton] at h; subst h
        exact (hs c hc).2⟩

theorem exMap2_hyps (sep : Str) :
    NoR8 realEnv exMap2 ∧ NoR16 exMap2 ∧ NoR17 realEnv exMap2 ∧ NoR18 realEnv sep exMap2 ∧ NoR19 realEnv sep exMap2
      ∧ NoR20 realEnv exMap2 := by
  have hmem : ∀ kv ∈ exMap2, kv = (gs% "30", .int 7) ∨ kv = (gs% "21", .str (gs% "CD-1"))
      ∨ kv = (gs% "11", .date ⟨1999, 12, 31⟩) ∨ kv = (gs% "10", .str (gs% "AB")) := by
    intro kv hkv; simpa [exMap2] using hkv
  refine ⟨real_NoR8 _ (by decide +kernel), by unfold NoR16; decide, ?_, ?_, ?_, ?_⟩
  · intro kv hkv
    rcases hmem kv hkv with rfl | rfl | rfl | rfl
    · exact forall_registered exReg30 (by intro neg c e h; cases h)
    · exact forall_registered exReg21 (by intro neg c e h; cases h)
    · exact forall_registered exReg11 (by intro neg c e h; cases h)
    · exact forall_registered exReg10 (by intro neg c e h; cases h)
  · -- no decimals at all
    intro _ kv hkv _ fmt fnc1 hreg
    rcases hmem kv hkv with rfl | rfl | rfl | rfl
    · exact absurd (registered_unique exReg30 hreg).2.1 (by decide)
    · exact absurd (registered_unique exReg21 hreg).2.1 (by decide)
    · exact absurd (registered_unique exReg11 hreg).2.1 (by decide)
    · exact absurd (registered_unique exReg10 hreg).2.1 (by decide)
  · -- the only date is `N6`
    intro _ kv hkv _ fmt fnc1 hreg
    rcases hmem kv hkv with rfl | rfl | rfl | rfl
    · exact absurd (registered_unique exReg30 hreg).2.1 (by decide)
    · exact absurd (registered_unique exReg21 hreg).2.1 (by decide)
    · have := (registered_unique exReg11 hreg).1
      simp only [FullLengthDate]; exact this.symm
    · exact absurd (registered_unique exReg10 hreg).2.1 (by decide)
  · intro kv hkv
    rcases hmem kv hkv with rfl | rfl | rfl | rfl
    · exact forall_registered exReg30 (by intro _ d s h; cases h)
    · exact forall_registered exReg21 (by intro _ d s h; cases h)
    · exact forall_registered exReg11 (by intro _ d s h; cases h)
    · exact forall_registered exReg10 (by intro _ d s h; cases h)

/-- non-vacuity of `info_encode_partial` without separator and parentheses (padding) -/
theorem exMap2_info_encode_plain : InfoEncode realEnv [] false exMap2 := by
  obtain ⟨h8, h16, h17, h18, h19, h20⟩ := exMap2_hyps []
  exact info_encode_partial (Or.inl rfl) (exMap2_wf [] (by intro c h; cases h)) h8 h16 h17 h18 h19 h20

example : encode realEnv [] false exMap2
    = .ok (gs% "1199123110AB                  21CD-1                307") := by decide +kernel

/-- non-vacuity of `validate_fixed_partial`: an element string with parentheses, separator `^`, blanks and another
order than `encode` uses -/
def exX : Str := gs% "(30)007^(21)CD-1 ^(11)991231(10)AB"

theorem exX_info : info realEnv [94] exX = .ok exMap2 := by decide +kernel

theorem exX_validate_fixed : ValidateFixed realEnv [94] exX := by
  refine validate_fixed_partial (Or.inr ⟨94, rfl, by decide, by decide, by decide, by decide, by decide, by decide, by decide⟩) ?_
  intro m hm
  rw [exX_info] at hm
  injection hm with hm; subst hm
  exact ⟨exMap2_wf [94] (by decide), exMap2_hyps [94]⟩

example : validate realEnv [94] exX = .ok (gs% "1199123110AB^21CD-1^307") := by decide +kernel


/-! ## the validator clause of `ItemOK` is satisfiable: `stdnum.ean.validate` ignores blank padding -/

theorem cleanP_blanks (n : Nat) (d : Str) (hd : d.contains 32 = true) : Py.cleanP (List.replicate n 32) d = [] := by
  induction n with
  | zero => rfl
  | succ n ih =>
    rw [List.replicate_succ, Py.cleanP_cons, ih]
    have : Py.cm 32 = 32 := Py.cm_of_ascii_ne (by decide) (by decide)
    rw [this, hd]; rfl

theorem ean_compact_pad (s : Str) (n : Nat) : Gen.ean.compact (s ++ List.replicate n 32) = Gen.ean.compact s := by
  unfold Gen.ean.compact
  rw [Py.clean_eq, Py.clean_eq, Py.cleanP_append, cleanP_blanks n _ (by decide), List.append_nil]

theorem eanValidate_pad (s : Str) (n : Nat) :
    eanValidate (.str (s ++ List.replicate n 32)) = eanValidate (.str s) := by
  unfold eanValidate validatorArg Gen.ean.validate
  simp only [bind, Except.bind, pure, Except.pure, ean_compact_pad]

/-- `{'01': '12345678901231', '10': 'AB'}`: the GTIN passes `stdnum.ean.validate` -/
def exMap3 : Dict := [(gs% "01", .str (gs% "12345678901231")), (gs% "10", .str (gs% "AB"))]

theorem exReg01 : Registered realEnv (gs% "01") (gs% "N14") (gs% "str") false := registered_of_regB (by decide +kernel)

theorem exMap3_wf : WFmap realEnv [] exMap3 := by
  refine ⟨by decide, ?_⟩
  intro kv hkv
  simp only [exMap3, List.mem_cons, List.not_mem_nil, or_false] at hkv
  rcases hkv with rfl | rfl
  · refine ⟨⟨by decide, by decide⟩,
      ⟨_, _, _, exReg01, Fits.text (D := 14) (by decide) (by decide) (by decide) (by decide +kernel) (by decide)
        (by decide) (by intro _; rfl) (by decide)⟩, ?_, by intro s _ c hc; cases hc⟩
    intro f hf
    have hfe : realEnv.validate (gs% "01") = some eanValidate := rfl
    rw [hfe] at hf; injection hf with hf; subst hf
    refine ⟨_, rfl, fun n => ?_⟩
    rw [eanValidate_pad]
    decide +kernel
  · exact ⟨⟨by decide, by decide⟩,
      ⟨_, _, _, exReg10, Fits.text (D := 20) (by decide) (by decide) (by decide) (by decide +kernel) (by decide)
        (by decide) (by intro h; cases h) (by decide)⟩,
      no_validator' (by decide +kernel), by intro s _ c hc; cases hc⟩

end Props.C16
