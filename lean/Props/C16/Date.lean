import Spec.GS1
import Lemmas.Str
/-!
# Props.C16.Date — the `date` codec of `Spec.GS1` round-trips (used by `Props.C16`)
-/
namespace Props.C16
open Spec.GS1 Py

/-- a calendar date inside the window of `%y` (1969–2068) -/
def GoodDate (d : Py.Date) : Prop := d.Valid ∧ 1969 ≤ d.year ∧ d.year ≤ 2068

instance (x : Py.Date) : Decidable x.Valid := by unfold Py.Date.Valid; infer_instance
instance (d : Py.Date) : Decidable (GoodDate d) := by unfold GoodDate; infer_instance

/-- two digits of a natural number -/
def dd (n : Nat) : Str := [48 + n / 10 % 10, 48 + n % 10]

theorem d2_eq (i : Int) : d2 i = dd i.toNat := rfl

theorem chunkY_dd : ∀ n, n < 100 → chunkY (48 + n / 10 % 10) (48 + n % 10) = some (n : Int) := by decide +kernel
theorem chunkM_dd : ∀ n, n < 13 → 1 ≤ n → chunkM (48 + n / 10 % 10) (48 + n % 10) = some (n : Int) := by decide +kernel
theorem chunkD_dd : ∀ n, n < 32 → 1 ≤ n → chunkD (48 + n / 10 % 10) (48 + n % 10) = some (n : Int) := by decide +kernel
theorem chunkH_dd : ∀ n, n < 24 → chunkH (48 + n / 10 % 10) (48 + n % 10) = some (n : Int) := by decide +kernel
theorem chunkMin_dd : ∀ n, n < 60 → chunkMin (48 + n / 10 % 10) (48 + n % 10) = some (n : Int) := by decide +kernel
theorem chunkS_dd : ∀ n, n < 60 → chunkS (48 + n / 10 % 10) (48 + n % 10) = some (n : Int) := by decide +kernel


/-- a time of day -/
def GoodTime (h mi s : Int) : Prop := 0 ≤ h ∧ h < 24 ∧ 0 ≤ mi ∧ mi < 60 ∧ 0 ≤ s ∧ s < 60
instance (h mi s : Int) : Decidable (GoodTime h mi s) := by unfold GoodTime; infer_instance

theorem goodDate_bounds {d : Py.Date} (h : GoodDate d) :
    1969 ≤ d.year ∧ d.year ≤ 2068 ∧ 1 ≤ d.month ∧ d.month ≤ 12 ∧ 1 ≤ d.day ∧ d.day ≤ 31
      ∧ d.day ≤ daysInMonth d.year d.month := by
  obtain ⟨⟨_, _, h3, h4, h5, h6⟩, h7, h8⟩ := h
  refine ⟨h7, h8, h3, h4, h5, ?_, h6⟩
  have : daysInMonth d.year d.month ≤ 31 := by
    unfold daysInMonth; split
    · split <;> omega
    · split <;> omega
  omega

/-- the year field: `%y` of the two digits of `year % 100` is the year again (inside the window) -/
theorem year_pivot {y : Int} (h1 : 1969 ≤ y) (h2 : y ≤ 2068) :
    (if ((y % 100).toNat : Int) ≤ 68 then ((y % 100).toNat : Int) + 2000 else ((y % 100).toNat : Int) + 1900) = y := by
  split <;> omega

theorem strptime_ymd {d : Py.Date} (hd : GoodDate d) : strptime (ymd d) = .ok (d, 0, 0, 0) := by
  obtain ⟨hy1, hy2, hm1, hm2, hd1, hd2, hdm⟩ := goodDate_bounds hd
  have e1 := chunkY_dd (d.year % 100).toNat (by omega)
  have e2 := chunkM_dd d.month.toNat (by omega) (by omega)
  have e3 := chunkD_dd d.day.toNat (by omega) (by omega)
  have hmm : ((d.month.toNat : Nat) : Int) = d.month := by omega
  have hdd : ((d.day.toNat : Nat) : Int) = d.day := by omega
  have hyy := year_pivot hy1 hy2
  simp only [strptime, ymd, d2, List.cons_append, List.nil_append, strptimeFields, e1, e2, e3, hmm, hdd, hyy]
  simp only [hdm, true_and]
  cases d; rfl

theorem strptime_ym {d : Py.Date} (hd : GoodDate d) :
    strptime (d2 (d.year % 100) ++ d2 d.month) = .ok (⟨d.year, d.month, 1⟩, 0, 0, 0) := by
  obtain ⟨hy1, hy2, hm1, hm2, hd1, hd2, hdm⟩ := goodDate_bounds hd
  have e1 := chunkY_dd (d.year % 100).toNat (by omega)
  have e2 := chunkM_dd d.month.toNat (by omega) (by omega)
  have hmm : ((d.month.toNat : Nat) : Int) = d.month := by omega
  have hyy := year_pivot hy1 hy2
  have h28 : (1 : Int) ≤ daysInMonth d.year d.month := by
    unfold daysInMonth; split
    · split <;> omega
    · split <;> omega
  simp only [strptime, d2, List.cons_append, List.nil_append, strptimeFields, e1, e2, hmm, hyy]
  rw [if_pos ⟨h28, by decide⟩]
  rfl

theorem strptime_ymdH {d : Py.Date} {h : Int} (hd : GoodDate d) (h0 : 0 ≤ h) (h1 : h < 24) :
    strptime (ymd d ++ d2 h) = .ok (d, h, 0, 0) := by
  obtain ⟨hy1, hy2, hm1, hm2, hd1, hd2, hdm⟩ := goodDate_bounds hd
  have e1 := chunkY_dd (d.year % 100).toNat (by omega)
  have e2 := chunkM_dd d.month.toNat (by omega) (by omega)
  have e3 := chunkD_dd d.day.toNat (by omega) (by omega)
  have e4 := chunkH_dd h.toNat (by omega)
  have hmm : ((d.month.toNat : Nat) : Int) = d.month := by omega
  have hdd : ((d.day.toNat : Nat) : Int) = d.day := by omega
  have hhh : ((h.toNat : Nat) : Int) = h := by omega
  have hyy := year_pivot hy1 hy2
  simp only [strptime, ymd, d2, List.cons_append, List.nil_append, strptimeFields, e1, e2, e3, e4, hmm, hdd, hhh, hyy]
  simp only [hdm, true_and]
  cases d; rfl

theorem strptime_ymdHM {d : Py.Date} {h mi : Int} (hd : GoodDate d) (h0 : 0 ≤ h) (h1 : h < 24)
    (m0 : 0 ≤ mi) (m1 : mi < 60) :
    strptime (ymd d ++ d2 h ++ d2 mi) = .ok (d, h, mi, 0) := by
  obtain ⟨hy1, hy2, hm1, hm2, hd1, hd2, hdm⟩ := goodDate_bounds hd
  have e1 := chunkY_dd (d.year % 100).toNat (by omega)
  have e2 := chunkM_dd d.month.toNat (by omega) (by omega)
  have e3 := chunkD_dd d.day.toNat (by omega) (by omega)
  have e4 := chunkH_dd h.toNat (by omega)
  have e5 := chunkMin_dd mi.toNat (by omega)
  have hmm : ((d.month.toNat : Nat) : Int) = d.month := by omega
  have hdd : ((d.day.toNat : Nat) : Int) = d.day := by omega
  have hhh : ((h.toNat : Nat) : Int) = h := by omega
  have hmi : ((mi.toNat : Nat) : Int) = mi := by omega
  have hyy := year_pivot hy1 hy2
  simp only [strptime, ymd, d2, List.cons_append, List.nil_append, strptimeFields, e1, e2, e3, e4, e5, hmm, hdd, hhh,
    hmi, hyy]
  simp only [hdm, true_and]
  cases d; rfl

theorem strptime_ymdHMS {d : Py.Date} {h mi s : Int} (hd : GoodDate d) (ht : GoodTime h mi s) :
    strptime (ymdHMS d h mi s) = .ok (d, h, mi, s) := by
  obtain ⟨hy1, hy2, hm1, hm2, hd1, hd2, hdm⟩ := goodDate_bounds hd
  obtain ⟨h0, h1, m0, m1, s0, s1⟩ := ht
  have e1 := chunkY_dd (d.year % 100).toNat (by omega)
  have e2 := chunkM_dd d.month.toNat (by omega) (by omega)
  have e3 := chunkD_dd d.day.toNat (by omega) (by omega)
  have e4 := chunkH_dd h.toNat (by omega)
  have e5 := chunkMin_dd mi.toNat (by omega)
  have e6 := chunkS_dd s.toNat (by omega)
  have hmm : ((d.month.toNat : Nat) : Int) = d.month := by omega
  have hdd : ((d.day.toNat : Nat) : Int) = d.day := by omega
  have hhh : ((h.toNat : Nat) : Int) = h := by omega
  have hmi : ((mi.toNat : Nat) : Int) = mi := by omega
  have hss : ((s.toNat : Nat) : Int) = s := by omega
  have hyy := year_pivot hy1 hy2
  simp only [strptime, ymdHMS, ymd, d2, List.cons_append, List.nil_append, strptimeFields, e1, e2, e3, e4, e5, e6, hmm,
    hdd, hhh, hmi, hss, hyy]
  have : s ≤ 59 := by omega
  simp only [hdm, this, true_and]
  cases d; rfl


/-! ## texts -/

theorem dd_digits (n : Nat) : AllIn isAsciiDigit (dd n) := by
  intro c hc
  simp only [dd, List.mem_cons, List.not_mem_nil, or_false] at hc
  rcases hc with rfl | rfl <;> simp only [isAsciiDigit, Bool.and_eq_true, decide_eq_true_eq] <;> omega

theorem ymd_length (d : Py.Date) : (ymd d).length = 6 := rfl

theorem ymd_digits (d : Py.Date) : AllIn isAsciiDigit (ymd d) := by
  intro c hc
  simp only [ymd, d2_eq, List.mem_append] at hc
  rcases hc with (hc | hc) | hc <;> exact dd_digits _ c hc

theorem d2_digits (i : Int) : AllIn isAsciiDigit (d2 i) := dd_digits _

theorem dd_eq_00 {n : Nat} (h : n < 100) : dd n = [48, 48] ↔ n = 0 := by
  simp only [dd, List.cons.injEq, and_true]
  omega

theorem sDate_ne_sDecimal : sDate ≠ sDecimal := by decide

/-! ## `_decode_value` -/

theorem decodeDate6_ymd {d : Py.Date} (hd : GoodDate d) : decodeDate6 (ymd d) = .ok (.date d) := by
  obtain ⟨hy1, hy2, hm1, hm2, hd1, hd2, hdm⟩ := goodDate_bounds hd
  have hs : Py.slice (ymd d) (some 4) none = dd d.day.toNat := rfl
  have hne : dd d.day.toNat ≠ [48, 48] := by
    rw [Ne, dd_eq_00 (by omega)]; omega
  unfold decodeDate6
  rw [hs, if_neg hne, strptime_ymd hd]
  rfl

theorem decode_date {fmt : Str} {d : Py.Date} (hd : GoodDate d) :
    decodeValue fmt sDate (ymd d) = .ok (.date d) := by
  unfold decodeValue
  rw [if_neg sDate_ne_sDecimal, if_pos rfl, if_pos (ymd_length d), decodeDate6_ymd hd]

theorem decode_range {fmt : Str} {d1 d2 : Py.Date} (hf : fmt = fN6dd12 ∨ fmt = fN6oN6) (h1 : GoodDate d1)
    (h2 : GoodDate d2) :
    decodeValue fmt sDate (ymd d1 ++ ymd d2) = .ok (.tuple (.date d1) (.date d2)) := by
  have hl : (ymd d1 ++ ymd d2).length = 12 := rfl
  have ha : Py.slice (ymd d1 ++ ymd d2) none (some 6) = ymd d1 := rfl
  have hb : Py.slice (ymd d1 ++ ymd d2) (some 6) none = ymd d2 := rfl
  unfold decodeValue
  rw [if_neg sDate_ne_sDecimal, if_pos rfl, if_neg (by rw [hl]; decide), if_pos ⟨hl, Or.inr hf⟩, ha, hb,
    decodeDate6_ymd h1, decodeDate6_ymd h2]
  rfl

theorem decode_ymdH {fmt : Str} {d : Py.Date} {h : Int} (hd : GoodDate d) (h0 : 0 ≤ h) (h1 : h < 24) :
    decodeValue fmt sDate (ymd d ++ d2 h) = .ok (.datetime d h 0 0) := by
  have hl : (ymd d ++ d2 h).length = 8 := rfl
  unfold decodeValue
  rw [if_neg sDate_ne_sDecimal, if_pos rfl, if_neg (by rw [hl]; decide), if_neg (by rw [hl]; simp),
    strptime_ymdH hd h0 h1]
  rfl

theorem decode_ymdHM {fmt : Str} {d : Py.Date} {h mi : Int} (hd : GoodDate d) (h0 : 0 ≤ h) (h1 : h < 24)
    (m0 : 0 ≤ mi) (m1 : mi < 60) :
    decodeValue fmt sDate (ymd d ++ d2 h ++ d2 mi) = .ok (.datetime d h mi 0) := by
  have hl : (ymd d ++ d2 h ++ d2 mi).length = 10 := rfl
  unfold decodeValue
  rw [if_neg sDate_ne_sDecimal, if_pos rfl, if_neg (by rw [hl]; decide), if_neg (by rw [hl]; simp),
    strptime_ymdHM hd h0 h1 m0 m1]
  rfl

theorem decode_ymdHMS {fmt : Str} {d : Py.Date} {h mi s : Int} (hf : fmt ≠ fN12 ∧ fmt ≠ fN6dd12 ∧ fmt ≠ fN6oN6)
    (hd : GoodDate d) (ht : GoodTime h mi s) :
    decodeValue fmt sDate (ymdHMS d h mi s) = .ok (.datetime d h mi s) := by
  have hl : (ymdHMS d h mi s).length = 12 := rfl
  unfold decodeValue
  rw [if_neg sDate_ne_sDecimal, if_pos rfl, if_neg (by rw [hl]; decide),
    if_neg (by rintro ⟨_, h | h | h⟩ <;> simp_all), strptime_ymdHMS hd ht]
  rfl

/-! ## `_encode_value` -/

theorem dropTrailing00_snoc2 (pre : Str) (a b : Nat) :
    dropTrailing00 (pre ++ [a, b]) = if a = 48 ∧ b = 48 then pre else pre ++ [a, b] := by
  unfold dropTrailing00
  have he : Py.endswith (pre ++ [a, b]) [48, 48] = (a == 48 && b == 48) := by
    simp only [Py.endswith, List.isSuffixOf, List.reverse_append, List.reverse_cons, List.reverse_nil,
      List.nil_append, List.cons_append, List.isPrefixOf, Bool.and_true]
    rw [Bool.and_comm]
    congr 1 <;> (simp only [BEq.beq]; exact decide_eq_decide.mpr eq_comm)
  rw [he]
  by_cases h : a = 48 ∧ b = 48
  · obtain ⟨rfl, rfl⟩ := h
    simp only [beq_self_eq_true, Bool.and_self, if_true, and_self]
    rw [Py.slice_none_neg _ (by decide : (0 : Int) < 2)]
    simp
  · have : (a == 48 && b == 48) = false := by
      simp only [Bool.and_eq_false_iff, beq_eq_false_iff_ne]; omega
    rw [this, if_neg h]; simp


theorem d2_eq_00 {i : Int} (h0 : 0 ≤ i) (h1 : i < 100) : d2 i = [48, 48] ↔ i = 0 := by
  rw [d2_eq, dd_eq_00 (by omega)]; omega

/-- strip one trailing `00` off `pre ++ d2 i` -/
theorem dropTrailing00_d2 (pre : Str) {i : Int} (h0 : 0 ≤ i) (h1 : i < 100) :
    dropTrailing00 (pre ++ d2 i) = if i = 0 then pre else pre ++ d2 i := by
  have := dropTrailing00_snoc2 pre (48 + i.toNat / 10 % 10) (48 + i.toNat % 10)
  rw [show pre ++ d2 i = pre ++ [48 + i.toNat / 10 % 10, 48 + i.toNat % 10] from rfl, this]
  by_cases hi : i = 0
  · subst hi; simp
  · rw [if_neg hi, if_neg]; omega

theorem encode_date_plain {fmt : Str} (d : Py.Date) (hf : fmt = fN6 ∨ fmt = fN6dd12 ∨ fmt = fN6oN6) :
    encodeValue fmt sDate (.date d) = .ok (ymd d) := by
  simp only [encodeValue, if_neg sDate_ne_sDecimal, if_true, encodeDateText, if_pos hf]
  rfl

theorem encode_dt_N10 (d : Py.Date) (h mi s : Int) :
    encodeValue fN10 sDate (.datetime d h mi s) = .ok (ymd d ++ d2 h ++ d2 mi) := by
  simp only [encodeValue, if_neg sDate_ne_sDecimal, if_true, encodeDateText]
  rfl

theorem encode_range {fmt : Str} (d1 d2 : Py.Date) (hf : fmt = fN6dd12 ∨ fmt = fN6oN6) :
    encodeValue fmt sDate (.tuple (.date d1) (.date d2)) = .ok (ymd d1 ++ ymd d2) := by
  have e1 := encode_date_plain (fmt := fN6) d1 (Or.inl rfl)
  have e2 := encode_date_plain (fmt := fN6) d2 (Or.inl rfl)
  simp only [encodeValue, if_neg sDate_ne_sDecimal, if_true, if_pos hf] at e1 e2 ⊢
  rw [e1, e2]
  rfl

/-- the formats `N6+N..4`, `N6[+N..4]`, `N6[+N4]` -/
def IsN6N4 (fmt : Str) : Prop := fmt = fN6pNdd4 ∨ fmt = fN6oNdd4 ∨ fmt = fN6oN4
/-- the formats `N8+N..4`, `N8[+N..4]` -/
def IsN8N4 (fmt : Str) : Prop := fmt = fN8pNdd4 ∨ fmt = fN8oNdd4
instance (fmt : Str) : Decidable (IsN6N4 fmt) := by unfold IsN6N4; infer_instance
instance (fmt : Str) : Decidable (IsN8N4 fmt) := by unfold IsN8N4; infer_instance

theorem encodeDateText_N6N4 {fmt : Str} (hf : IsN6N4 fmt) (d : Py.Date) (h mi s : Int) :
    encodeDateText fmt d h mi s = .ok (dropTrailing00 (dropTrailing00 (ymd d ++ d2 h ++ d2 mi))) := by
  unfold encodeDateText
  rw [if_neg (by rcases hf with h | h | h <;> subst h <;> decide),
    if_neg (by rcases hf with h | h | h <;> subst h <;> decide), if_pos (show _ ∨ _ ∨ _ from hf)]
  rfl

theorem encodeDateText_N8N4 {fmt : Str} (hf : IsN8N4 fmt) (d : Py.Date) (h mi s : Int) :
    encodeDateText fmt d h mi s = .ok (dropTrailing00 (dropTrailing00 (ymdHMS d h mi s))) := by
  unfold encodeDateText
  rw [if_neg (by rcases hf with h | h <;> subst h <;> decide),
    if_neg (by rcases hf with h | h <;> subst h <;> decide),
    if_neg (by rcases hf with h | h <;> subst h <;> decide), if_pos (show _ ∨ _ from hf)]
  rfl

theorem encode_date_N6N4 {fmt : Str} (hf : IsN6N4 fmt) (d : Py.Date) :
    encodeValue fmt sDate (.date d) = .ok (ymd d) := by
  simp only [encodeValue, if_neg sDate_ne_sDecimal, if_true, encodeDateText_N6N4 hf]
  rw [dropTrailing00_d2 _ (by decide) (by decide), if_pos rfl, dropTrailing00_d2 _ (by decide) (by decide), if_pos rfl]

theorem encode_dt_N6N4 {fmt : Str} (hf : IsN6N4 fmt) (d : Py.Date) {h mi : Int} (s : Int) (h0 : 0 ≤ h) (h1 : h < 24)
    (m0 : 0 ≤ mi) (m1 : mi < 60) :
    encodeValue fmt sDate (.datetime d h mi s) =
      .ok (if mi = 0 then (if h = 0 then ymd d else ymd d ++ d2 h) else ymd d ++ d2 h ++ d2 mi) := by
  simp only [encodeValue, if_neg sDate_ne_sDecimal, if_true, encodeDateText_N6N4 hf]
  rw [dropTrailing00_d2 _ m0 (by omega)]
  by_cases hmi : mi = 0
  · rw [if_pos hmi, if_pos hmi, dropTrailing00_d2 _ h0 (by omega)]
  · rw [if_neg hmi, if_neg hmi, dropTrailing00_d2 _ m0 (by omega), if_neg hmi]

theorem encode_dt_N8N4 {fmt : Str} (hf : IsN8N4 fmt) (d : Py.Date) {h mi s : Int} (ht : GoodTime h mi s) :
    encodeValue fmt sDate (.datetime d h mi s) =
      .ok (if s = 0 then (if mi = 0 then ymd d ++ d2 h else ymd d ++ d2 h ++ d2 mi) else ymdHMS d h mi s) := by
  obtain ⟨h0, h1, m0, m1, s0, s1⟩ := ht
  simp only [encodeValue, if_neg sDate_ne_sDecimal, if_true, encodeDateText_N8N4 hf]
  rw [show ymdHMS d h mi s = (ymd d ++ d2 h ++ d2 mi) ++ d2 s from rfl, dropTrailing00_d2 _ s0 (by omega)]
  by_cases hs : s = 0
  · rw [if_pos hs, if_pos hs, dropTrailing00_d2 _ m0 (by omega)]
  · rw [if_neg hs, if_neg hs, dropTrailing00_d2 _ s0 (by omega), if_neg hs]

end Props.C16
