import Lean.Elab.Term
import Spec.GS1Data
import Props.C16.Spec
/-!
# Props.C16.Table — the well-formedness predicates, evaluated on the real registry

Everything here is kernel evaluation (`decide +kernel`) on the table generated from the current `gs1_ai.dat`
(`Spec.GS1.Data`, re-generated on every check).  The per-identifier check `checkAI` is evaluated chunk by chunk
(`Spec.GS1.Data.aisChunks`, 30 identifiers each) to keep every single evaluation short.
The IBAN validator of identifier 8007 is not modelled; `realEnv` stubs it as "accepts everything".
-/
namespace Props.C16
open Spec.GS1 Py

open Lean Elab Term in
/-- `gs% "ab"` elaborates to the code-point list `[97, 98]` -/
scoped elab "gs% " x:str : term => return toExpr (x.getString.toList.map Char.toNat)

instance decEqR {α : Type} [DecidableEq α] : DecidableEq (R α) := fun a b =>
  match a, b with
  | .ok x, .ok y => if h : x = y then isTrue (by rw [h]) else isFalse (by intro e; injection e; contradiction)
  | .error x, .error y => if h : x = y then isTrue (by rw [h]) else isFalse (by intro e; injection e; contradiction)
  | .ok _, .error _ => isFalse (by intro e; cases e)
  | .error _, .ok _ => isFalse (by intro e; cases e)

/-- `stdnum.iban.validate` is not modelled -/
def stubIban : Str → R Unit := fun _ => .ok ()

/-- the module state of `gs1_128` with the current `gs1_ai.dat` -/
def realEnv : Env := { db := Spec.GS1.Data.db, validate := stdValidators stubIban }

/-! ## a decidable view of `Registered` (through the declarative lookup rule of `Props.C10`) -/

/-- format, type, FNC1 flag of an identifier that the registry returns as itself -/
def regB (env : Env) (k : Str) : Option (Str × Str × Bool) :=
  if k = [] then none else
  let st := Spec.NumDB.levelRule k env.db
  if st.part = k ∧ st.properties ≠ [] then
    match Py.dictGet? st.properties sFormat, Py.dictGet? st.properties sType with
    | some fmt, some typ => some (fmt, typ, fnc1Of st.properties)
    | _, _ => none
  else none

theorem registered_of_regB {env : Env} {k fmt typ : Str} {fnc1 : Bool} (h : regB env k = some (fmt, typ, fnc1)) :
    Registered env k fmt typ fnc1 := by
  unfold regB at h
  split at h
  · cases h
  · rename_i hk
    simp only at h
    split at h
    · rename_i hp
      split at h
      · rename_i f t hf ht
        injection h with h
        obtain ⟨h1, h23⟩ := Prod.mk.inj h
        obtain ⟨h2, h3⟩ := Prod.mk.inj h23
        subst h1 h2 h3
        refine ⟨_, ?_, hp.2, hf, ht, rfl⟩
        rw [aiLookup_eq _ _ hk, Props.C10.findStep_spec, hp.1]
      · cases h
    · cases h

/-! ## the per-identifier check -/

/-- `_max_length` computes the declared maximum (plus one for the decimal-places digit) -/
def maxLengthAgrees (fmt typ : Str) : Bool :=
  match declMax fmt with
  | some D => decide (maxLength fmt typ = .ok ((D + if typ = sDecimal then 1 else 0 : Nat) : Int))
  | none => false

/-- the identifiers whose format `_max_length` cannot parse (R8) -/
def r8List : List Str := [gs% "4330", gs% "4331", gs% "4332", gs% "4333", gs% "8030"]

/-- the identifier is a digit string, the registry returns it as itself (so no registered identifier is a proper
prefix of it) with a format that has a declared maximum and a type; `_max_length` agrees with the declared
maximum exactly when the identifier is not in `r8List`; an identifier that does not need FNC1 has a fixed-length
format (`N<k>` of type `str` or `decimal`, or the date format `N6`) -/
def checkAI (k : Str) : Bool :=
  k != [] && k.all isAsciiDigit &&
  match regB realEnv k with
  | some (fmt, typ, fnc1) =>
    (declMax fmt).isSome && (maxLengthAgrees fmt typ == !r8List.contains k) &&
    (fnc1 || (fmt.take 1 == [78] && (fmt.drop 1).all isAsciiDigit && fmt.length ≥ 2 &&
      (typ == gs% "str" || typ == sDecimal || (typ == sDate && fmt == fN6))))
  | none => false

/-- every entry of every level has length ≥ 1 (so `info`'s loop never runs out of fuel) -/
theorem real_wf : Spec.NumDB.wfList realEnv.db = true := by decide +kernel

theorem real_chunk0 : ∀ k ∈ Spec.GS1.Data.aisChunks.getD 0 [], checkAI k = true := by decide +kernel

theorem real_chunk1 : ∀ k ∈ Spec.GS1.Data.aisChunks.getD 1 [], checkAI k = true := by decide +kernel
theorem real_chunk2 : ∀ k ∈ Spec.GS1.Data.aisChunks.getD 2 [], checkAI k = true := by decide +kernel
theorem real_chunk3 : ∀ k ∈ Spec.GS1.Data.aisChunks.getD 3 [], checkAI k = true := by decide +kernel
theorem real_chunk4 : ∀ k ∈ Spec.GS1.Data.aisChunks.getD 4 [], checkAI k = true := by decide +kernel
theorem real_chunk5 : ∀ k ∈ Spec.GS1.Data.aisChunks.getD 5 [], checkAI k = true := by decide +kernel
theorem real_chunk6 : ∀ k ∈ Spec.GS1.Data.aisChunks.getD 6 [], checkAI k = true := by decide +kernel
theorem real_chunk7 : ∀ k ∈ Spec.GS1.Data.aisChunks.getD 7 [], checkAI k = true := by decide +kernel
theorem real_chunk8 : ∀ k ∈ Spec.GS1.Data.aisChunks.getD 8 [], checkAI k = true := by decide +kernel
theorem real_chunk9 : ∀ k ∈ Spec.GS1.Data.aisChunks.getD 9 [], checkAI k = true := by decide +kernel
theorem real_chunk10 : ∀ k ∈ Spec.GS1.Data.aisChunks.getD 10 [], checkAI k = true := by decide +kernel
theorem real_chunk11 : ∀ k ∈ Spec.GS1.Data.aisChunks.getD 11 [], checkAI k = true := by decide +kernel

theorem real_chunks_count : Spec.GS1.Data.aisChunks.length ≤ 12 := by decide +kernel
theorem real_ais_flatten : Spec.GS1.Data.ais = Spec.GS1.Data.aisChunks.flatten := by decide +kernel

/-- **real_checkAI** — the per-identifier check holds for every registered identifier of the current table -/
theorem real_checkAI : ∀ k ∈ Spec.GS1.Data.ais, checkAI k = true := by
  intro k hk
  rw [real_ais_flatten, List.mem_flatten] at hk
  obtain ⟨c, hc, hkc⟩ := hk
  obtain ⟨i, hi, rfl⟩ := List.getElem_of_mem hc
  have hlen := real_chunks_count
  have hget : Spec.GS1.Data.aisChunks.getD i [] = Spec.GS1.Data.aisChunks[i] := by
    simp [List.getD, hi]
  rw [← hget] at hkc
  have : i < 12 := by omega
  match i, this with
  | 0, _ => exact real_chunk0 k hkc
  | 1, _ => exact real_chunk1 k hkc
  | 2, _ => exact real_chunk2 k hkc
  | 3, _ => exact real_chunk3 k hkc
  | 4, _ => exact real_chunk4 k hkc
  | 5, _ => exact real_chunk5 k hkc
  | 6, _ => exact real_chunk6 k hkc
  | 7, _ => exact real_chunk7 k hkc
  | 8, _ => exact real_chunk8 k hkc
  | 9, _ => exact real_chunk9 k hkc
  | 10, _ => exact real_chunk10 k hkc
  | 11, _ => exact real_chunk11 k hkc

/-- the identifiers of `r8List` are registered (so R8 is about registered identifiers) -/
theorem real_r8_registered : ∀ k ∈ r8List, k ∈ Spec.GS1.Data.ais := by decide +kernel

end Props.C16
