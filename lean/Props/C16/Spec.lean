import Spec.GS1
import Props.C16.Frame
import Props.C16.Date
/-!
# Props.C16.Spec — the statements of C16: well-formed mappings, the defect-excluding hypotheses, the two properties

* `WFmap env sep m` spells out "identifiers registered, values fit their declared formats".
* `InfoEncode`, `ValidateFixed` are the two halves of the property.
* `NoR8` … `NoR20` exclude exactly the known defects of the code as it is (see `Props/C16.lean`).
-/
namespace Props.C16
open Spec.GS1 Py

/-! ## the declared maximum length of a format (a reading of the GS1 notation that is independent of `_max_length`) -/

/-- `N6`, `X..20`, `N6..12`: class letter `N X Y Z`, a count, or `..` and a maximum; `+` concatenates, `[` `]`
bracket an optional part (it counts for the maximum), `-` is one character.  Fuel = length of the input. -/
def declMaxGo : Nat → Str → Option Nat
  | _, [] => some 0
  | 0, _ :: _ => none
  | f + 1, c :: s =>
    if c = 91 ∨ c = 93 ∨ c = 43 then declMaxGo f s
    else if c = 45 then (declMaxGo f s).map (· + 1)
    else if c = 78 ∨ c = 88 ∨ c = 89 ∨ c = 90 then
      let d1 := s.takeWhile isAsciiDigit
      let r1 := s.dropWhile isAsciiDigit
      match r1 with
      | 46 :: 46 :: r2 =>
        let d2 := r2.takeWhile isAsciiDigit
        if d2 = [] then none else (declMaxGo f (r2.dropWhile isAsciiDigit)).map (· + digitsNat d2)
      | _ => if d1 = [] then none else (declMaxGo f r1).map (· + digitsNat d1)
    else none

/-- the declared maximum number of characters of a value of format `fmt` -/
def declMax (fmt : Str) : Option Nat := declMaxGo fmt.length fmt

/-! ## well-formed mappings -/

/-- characters of text values: printable ASCII without blank and backtick (a superset of the GS1 character
sets 82, 39 and 64; it contains the parentheses) -/
def gsChar (c : Nat) : Bool := decide (33 ≤ c) && decide (c ≤ 126) && c != 96

/-- `k` is a registered identifier: the registry returns `k` ITSELF (not a shorter identifier) with properties -/
def Registered (env : Env) (k fmt typ : Str) (fnc1 : Bool) : Prop :=
  ∃ p, aiLookup env.db k = .ok (k, p) ∧ p ≠ [] ∧ Py.dictGet? p sFormat = some fmt ∧ Py.dictGet? p sType = some typ
    ∧ fnc1Of p = fnc1

/-- the value fits the declared format.  `fnc1 = false` (no FNC1 needed: a predefined-length identifier) demands
the full length.  Dates must lie in the window of `%y` (1969–2068). -/
inductive Fits (fnc1 : Bool) : Str → Str → GsVal → Prop
  /-- text (type `str` or anything else that is not `decimal`, `date`, `int`): 1 … declared maximum characters -/
  | text {fmt typ : Str} {s : Str} {D : Nat} :
      typ ≠ sDecimal → typ ≠ sDate → typ ≠ sInt → declMax fmt = some D → s ≠ [] → s.length ≤ D →
      (fnc1 = false → s.length = D) → (∀ c ∈ s, gsChar c = true) → Fits fnc1 fmt typ (.str s)
  /-- a non-negative integer of at most the declared number of digits -/
  | int {fmt : Str} {n D : Nat} :
      declMax fmt = some D → 1 ≤ D → D ≤ 4300 → n < 10 ^ D → (fnc1 = false → (Py.strOfNat n).length = D) →
      Fits fnc1 fmt sInt (.int (n : Int))
  /-- `N<k>`: `c / 10^p` with `c < 10^k`, `p ≤ 9` implied decimal places -/
  | decFixed {ds : Str} {c p : Nat} :
      ds ≠ [] → AllIn isAsciiDigit ds → ds.length ≤ 4300 → 1 ≤ digitsNat ds → digitsNat ds ≤ 4300 →
      c < 10 ^ digitsNat ds → p ≤ 9 → p ≤ digitsNat ds →
      Fits fnc1 (78 :: ds) sDecimal (.dec (.fin false c (-(p : Int))))
  /-- `N..<k>` (needs FNC1) -/
  | decVar {ds : Str} {c p : Nat} :
      fnc1 = true → ds ≠ [] → AllIn isAsciiDigit ds → ds.length ≤ 4300 → 1 ≤ digitsNat ds → digitsNat ds ≤ 4300 →
      c < 10 ^ digitsNat ds → p ≤ 9 → p ≤ digitsNat ds →
      Fits fnc1 (78 :: 46 :: 46 :: ds) sDecimal (.dec (.fin false c (-(p : Int))))
  /-- `N3+…`: a three-character (currency) code and an amount -/
  | decCur {fmt : Str} {cur : Str} {d : Dec} :
      Fits fnc1 fmt sDecimal (.dec d) → cur.length = 3 → (∀ c ∈ cur, gsChar c = true) →
      Fits fnc1 (78 :: 51 :: 43 :: fmt) sDecimal (.tuple (.str cur) (.dec d))
  /-- a date (`YYMMDD`) -/
  | date {fmt : Str} {d : Py.Date} :
      (fmt = fN6 ∨ ((fmt = fN6dd12 ∨ fmt = fN6oN6 ∨ IsN6N4 fmt) ∧ fnc1 = true)) → GoodDate d →
      Fits fnc1 fmt sDate (.date d)
  /-- a date range -/
  | dateRange {fmt : Str} {d1 d2 : Py.Date} :
      (fmt = fN6dd12 ∨ fmt = fN6oN6) → GoodDate d1 → GoodDate d2 →
      Fits fnc1 fmt sDate (.tuple (.date d1) (.date d2))
  /-- date with hour and minute (`N10`, `N6[+N4]` …) -/
  | dateMinute {fmt : Str} {d : Py.Date} {h mi : Int} :
      (fmt = fN10 ∨ (IsN6N4 fmt ∧ fnc1 = true)) → GoodDate d → GoodTime h mi 0 →
      Fits fnc1 fmt sDate (.datetime d h mi 0)
  /-- date with hour, minute and second (`N8[+N..4]`) -/
  | dateSecond {fmt : Str} {d : Py.Date} {h mi s : Int} :
      IsN8N4 fmt → fnc1 = true → GoodDate d → GoodTime h mi s →
      Fits fnc1 fmt sDate (.datetime d h mi s)

/-- the text parts of a value (a text, or the currency code of an amount) -/
def textParts : GsVal → List Str
  | .str s => [s]
  | .tuple (.str s) _ => [s]
  | _ => []

/-- one item of a well-formed mapping -/
structure ItemOK (env : Env) (sep : Str) (k : Str) (v : GsVal) : Prop where
  /-- identifiers are digit strings -/
  key : k ≠ [] ∧ AllIn isAsciiDigit k
  /-- registered, and the value fits the declared format -/
  fits : ∃ fmt typ fnc1, Registered env k fmt typ fnc1 ∧ Fits fnc1 fmt typ v
  /-- an identifier with a validator module carries a text the module accepts (with or without blank padding) -/
  valid : ∀ f, env.validate k = some f → ∃ s, v = .str s ∧ ∀ n, f (.str (s ++ List.replicate n 32)) = .ok ()
  /-- the separator does not occur inside text values -/
  nosep : ∀ s ∈ textParts v, ∀ c ∈ sep, c ∉ s

/-- **WFmap** — a mapping of distinct registered identifiers to values that fit their declared formats -/
def WFmap (env : Env) (sep : Str) (m : Dict) : Prop :=
  (m.map Prod.fst).Nodup ∧ ∀ kv ∈ m, ItemOK env sep kv.1 kv.2

/-! ## the hypotheses that exclude the known defects -/

/-- R8 — `_max_length` parses the format and returns its declared maximum (false for `N6+[-]`, `Z..90`) -/
def NoR8 (env : Env) (m : Dict) : Prop :=
  ∀ kv ∈ m, ∀ fmt typ fnc1, Registered env kv.1 fmt typ fnc1 →
    ∃ D, declMax fmt = some D ∧ maxLength fmt typ = .ok ((D + if typ = sDecimal then 1 else 0 : Nat) : Int)

/-- R16 — no parentheses inside text values (`compact` deletes them) -/
def NoR16 (m : Dict) : Prop := ∀ kv ∈ m, ∀ s ∈ textParts kv.2, 40 ∉ s ∧ 41 ∉ s

/-- the decimal inside a value -/
def decOf : GsVal → Option Dec
  | .dec d => some d
  | .tuple _ (.dec d) => some d
  | _ => none

/-- the digits of the amount field of a decimal format (`N6` → 6, `N..15` → 15, `N3+N..15` → 15) -/
def fieldDigits : Str → Option Nat
  | 78 :: 51 :: 43 :: fmt => fieldDigits fmt
  | 78 :: 46 :: 46 :: ds => some (digitsNat ds)
  | 78 :: ds => some (digitsNat ds)
  | _ => none

/-- R17 — a decimal with decimal places has fewer places than the field has digits (otherwise `str(value)` is longer
than the field and gets truncated) -/
def NoR17 (env : Env) (m : Dict) : Prop :=
  ∀ kv ∈ m, ∀ fmt typ fnc1, Registered env kv.1 fmt typ fnc1 → ∀ neg c e, decOf kv.2 = some (.fin neg c e) →
    ∀ K, fieldDigits fmt = some K → e = 0 ∨ -e < (K : Int)

/-- the identifier `k` needs FNC1 and is not the last such identifier of the mapping: without a separator its value
gets padded -/
def Padded (env : Env) (m : Dict) (k : Str) : Prop :=
  ∃ kv' ∈ m, Py.strLt k kv'.1 = true ∧ ∃ fmt typ, Registered env kv'.1 fmt typ true

/-- a variable-length decimal format (`N..k`, `N3+N..k`) -/
def IsVarDec : Str → Prop
  | 78 :: 51 :: 43 :: fmt => IsVarDec fmt
  | 78 :: 46 :: 46 :: _ => True
  | _ => False

/-- R18 — without a separator no variable-length decimal gets padded (zeros in front of the decimal-places digit) -/
def NoR18 (env : Env) (sep : Str) (m : Dict) : Prop :=
  sep = [] → ∀ kv ∈ m, Padded env m kv.1 → ∀ fmt fnc1, Registered env kv.1 fmt sDecimal fnc1 → ¬ IsVarDec fmt

/-- the date value uses the full length of its format -/
def FullLengthDate (fmt : Str) : GsVal → Prop
  | .date _ => fmt = fN6
  | .tuple _ _ => True
  | .datetime _ _ mi s => fmt = fN10 ∨ (IsN6N4 fmt ∧ mi ≠ 0) ∨ (IsN8N4 fmt ∧ s ≠ 0)
  | _ => False

/-- R19 — without a separator no shorter-than-maximal date gets padded (blanks reach `strptime`) -/
def NoR19 (env : Env) (sep : Str) (m : Dict) : Prop :=
  sep = [] → ∀ kv ∈ m, Padded env m kv.1 → ∀ fmt fnc1, Registered env kv.1 fmt sDate fnc1 → FullLengthDate fmt kv.2

/-- R20 — no midnight `datetime` for `N6[+N4]` (it is written as a bare date) -/
def NoR20 (env : Env) (m : Dict) : Prop :=
  ∀ kv ∈ m, ∀ fmt typ fnc1, Registered env kv.1 fmt typ fnc1 → IsN6N4 fmt → ∀ d s, kv.2 ≠ .datetime d 0 0 s

/-! ## the statements -/

/-- decoding the encoding returns the mapping (as a `dict`: same items, possibly in another order) -/
def InfoEncode (env : Env) (sep : Str) (par : Bool) (m : Dict) : Prop :=
  ∃ w m', encode env sep par m = .ok w ∧ info env sep w = .ok m' ∧ m'.Perm m

/-- `dict.__eq__` on mappings with distinct keys -/
def DictEq (a b : Dict) : Prop := ∀ k, Py.dictGet? a k = Py.dictGet? b k

/-- the validated form is a fixed point of `validate` and decodes to the same mapping -/
def ValidateFixed (env : Env) (sep : Str) (x : Str) : Prop :=
  ∀ v, validate env sep x = .ok v →
    validate env sep v = .ok v ∧ ∃ m m', info env sep x = .ok m ∧ info env sep v = .ok m' ∧ DictEq m' m

end Props.C16
