import Lean.Elab.Term
import Spec.NumDB
import PyRt.Str
/-!
# Props.C10 — registry lookup splits numbers losslessly and by the documented prefix rules

All theorems are about `Spec.NumDB` (the hand model of `stdnum/numdb.py`, tied to the real code by
`tools/corr/numdb.py`), for **all** trees and **all** numbers.
-/
namespace Props.C10
open Spec.NumDB
open Py (Str)

/-! ## the string order of the model is the runtime's -/

theorem strLe_eq_pyrt : ∀ (a b : Str), strLe a b = Py.strLe a b
  | [], [] => by simp [strLe, Py.strLe, Py.strLt]
  | [], _ :: _ => by simp [strLe, Py.strLe, Py.strLt]
  | _ :: _, [] => by simp [strLe, Py.strLe, Py.strLt]
  | a :: as, b :: bs => by
    have ih := strLe_eq_pyrt as bs
    simp only [Py.strLe] at ih
    simp only [strLe, Py.strLe, Py.strLt]
    by_cases h1 : a < b
    · have : ¬ b < a := by omega
      simp [h1, this]
    · by_cases h2 : b < a
      · simp [h1, h2]
      · simp [h1, h2, ih]

/-! ## depth and well-formedness of trees -/

theorem depthList_append (a b : List Entry) : depthList (a ++ b) = max (depthList a) (depthList b) := by
  induction a with
  | nil => simp [depthList]
  | cons e es ih => simp [depthList, ih, Nat.max_assoc]

theorem Entry.depth_eq (e : Entry) : e.depth = depthList e.children + 1 := by
  cases e; simp [Entry.depth]

theorem depth_children_lt {db : List Entry} {e : Entry} (h : e ∈ db) :
    depthList e.children + 1 ≤ depthList db := by
  induction db with
  | nil => cases h
  | cons a as ih =>
    simp only [depthList]
    rcases List.mem_cons.mp h with rfl | h
    · rw [← Entry.depth_eq]; exact Nat.le_max_left _ _
    · exact Nat.le_trans (ih h) (Nat.le_max_right _ _)

theorem depthList_eq_zero {db : List Entry} (h : depthList db = 0) : db = [] := by
  cases db with
  | nil => rfl
  | cons a as =>
    have := depth_children_lt (db := a :: as) (e := a) (List.mem_cons_self)
    omega

theorem wfList_append (a b : List Entry) : wfList (a ++ b) = (wfList a && wfList b) := by
  induction a with
  | nil => simp [wfList]
  | cons e es ih => simp [wfList, ih, Bool.and_assoc]

theorem Entry.wf_iff (e : Entry) : e.wf = true ↔ 1 ≤ e.length ∧ wfList e.children = true := by
  cases e; simp [Entry.wf]

theorem wfList_iff (db : List Entry) : wfList db = true ↔ ∀ e ∈ db, e.wf = true := by
  induction db with
  | nil => simp [wfList]
  | cons a as ih => simp [wfList, ih]

/-! ## the loop of `_find` -/

theorem entryMatches_eq (n : Str) (e : Entry) : entryMatches n e = matchesNumber n e := rfl

/-- invariants of the `for` loop are proved entry by entry -/
theorem foldl_findStep_inv {P : FindState → Prop} {Q : Entry → Prop}
    (hstep : ∀ st e, Q e → P st → P (findStep st e)) :
    ∀ (db : List Entry), (∀ e ∈ db, Q e) → ∀ st, P st → P (db.foldl findStep st) := by
  intro db
  induction db with
  | nil => intro _ st h; exact h
  | cons a as ih =>
    intro hq st h
    exact ih (fun e he => hq e (List.mem_cons_of_mem _ he)) _
      (hstep st a (hq a (List.mem_cons_self)) h)

/-- the running `part` is always a prefix of the number -/
theorem findLoop_part_prefix (n : Str) (db : List Entry) :
    ∃ k, k ≤ n.length ∧ (findLoop n db).part = n.take k := by
  unfold findLoop
  refine foldl_findStep_inv (P := fun st => ∃ k, k ≤ n.length ∧ st.part = n.take k) (Q := fun _ => True)
    ?_ db (fun _ _ => trivial) _ ⟨n.length, Nat.le_refl _, by simp⟩
  intro st e _ ⟨k, hk, hp⟩
  unfold findStep
  split
  · split
    · rename_i hlt
      refine ⟨e.length, ?_, ?_⟩
      · simp [hp, List.length_take] at hlt; omega
      · simp only [hp, List.take_take]
        simp [hp, List.length_take] at hlt
        congr 1; omega
    · exact ⟨k, hk, hp⟩
  · exact ⟨k, hk, hp⟩

theorem findLoop_part_append_drop (n : Str) (db : List Entry) :
    (findLoop n db).part ++ n.drop (findLoop n db).part.length = n := by
  obtain ⟨k, hk, hp⟩ := findLoop_part_prefix n db
  rw [hp, List.length_take, Nat.min_eq_left hk, List.take_append_drop]

theorem findLoop_part_length_le (n : Str) (db : List Entry) :
    (findLoop n db).part.length ≤ n.length := by
  obtain ⟨k, hk, hp⟩ := findLoop_part_prefix n db
  rw [hp, List.length_take]; omega

/-- `next_prefixes` lies strictly deeper in the tree than `prefixes` -/
theorem findLoop_next_depth (n : Str) (db : List Entry) :
    depthList (findLoop n db).next ≤ depthList db - 1 := by
  unfold findLoop
  refine foldl_findStep_inv (P := fun st => depthList st.next ≤ depthList db - 1)
    (Q := fun e => depthList e.children ≤ depthList db - 1) ?_ db ?_ _ (by simp [depthList])
  · intro st e hq hp
    unfold findStep
    split
    · split
      · simp only [List.nil_append]; exact hq
      · simp only [depthList_append]; exact Nat.max_le.mpr ⟨hp, hq⟩
    · exact hp
  · intro e he
    have := depth_children_lt he
    omega

theorem findLoop_nil (n : Str) : findLoop n [] = { part := n, properties := [], next := [] } := rfl

/-! ## fuel is irrelevant: `_find` terminates on every (finite) tree -/

theorem findAux_nil (f : Nat) (db : List Entry) : findAux f db [] = [] := by
  cases f <;> simp [findAux]

theorem findAux_succ (f : Nat) (db : List Entry) (n : Str) (hn : n ≠ []) :
    findAux (f + 1) db n = ((findLoop n db).part, (findLoop n db).properties)
      :: findAux f (findLoop n db).next (n.drop (findLoop n db).part.length) := by
  simp [findAux, hn]

/-- any two sufficient amounts of fuel give the same result -/
theorem findAux_fuel_irrel : ∀ (f f' : Nat) (db : List Entry) (n : Str),
    (n = [] ∨ depthList db + 1 ≤ f) → (n = [] ∨ depthList db + 1 ≤ f') →
    findAux f db n = findAux f' db n := by
  intro f
  induction f with
  | zero =>
    intro f' db n h _
    have hn : n = [] := by
      rcases h with h | h
      · exact h
      · omega
    subst hn; simp [findAux_nil]
  | succ f ih =>
    intro f' db n h h'
    by_cases hn : n = []
    · subst hn; simp [findAux_nil]
    · have hf : depthList db + 1 ≤ f + 1 := h.resolve_left hn
      have hf' : depthList db + 1 ≤ f' := h'.resolve_left hn
      obtain ⟨f'', rfl⟩ : ∃ f'', f' = f'' + 1 := ⟨f' - 1, by omega⟩
      rw [findAux_succ _ _ _ hn, findAux_succ _ _ _ hn]
      congr 1
      by_cases hd : depthList db = 0
      · have := depthList_eq_zero hd; subst this
        simp [findLoop_nil, findAux_nil]
      · have := findLoop_next_depth n db
        exact ih f'' _ _ (Or.inr (by omega)) (Or.inr (by omega))

theorem find_nil (db : List Entry) : find db [] = [] := findAux_nil _ _

/-- **find_unfold** — `_find` returns the first part with its properties, followed by the lookup of the
remainder in the collected children. -/
theorem find_unfold (db : List Entry) (n : Str) (hn : n ≠ []) :
    find db n = ((findLoop n db).part, (findLoop n db).properties)
      :: find (findLoop n db).next (n.drop (findLoop n db).part.length) := by
  unfold find
  rw [findAux_succ _ _ _ hn]
  congr 1
  by_cases hd : depthList db = 0
  · have := depthList_eq_zero hd; subst this
    simp [findLoop_nil, findAux_nil]
  · have := findLoop_next_depth n db
    refine findAux_fuel_irrel _ _ _ _ (Or.inr ?_) (Or.inr ?_) <;> omega

/-- induction along the calls of `_find` -/
theorem find_induct (P : List Entry → Str → List (Str × Dict) → Prop)
    (hnil : ∀ db, P db [] [])
    (hcons : ∀ db n, n ≠ [] →
      P (findLoop n db).next (n.drop (findLoop n db).part.length)
        (find (findLoop n db).next (n.drop (findLoop n db).part.length)) →
      P db n (((findLoop n db).part, (findLoop n db).properties)
        :: find (findLoop n db).next (n.drop (findLoop n db).part.length))) :
    ∀ db n, P db n (find db n) := by
  have key : ∀ (m : Nat) db n, depthList db + (if n = [] then 0 else 1) ≤ m → P db n (find db n) := by
    intro m
    induction m with
    | zero =>
      intro db n h
      have hn : n = [] := by
        by_cases hn : n = []
        · exact hn
        · simp [hn] at h
      subst hn; rw [find_nil]; exact hnil db
    | succ m ih =>
      intro db n h
      by_cases hn : n = []
      · subst hn; rw [find_nil]; exact hnil db
      · rw [find_unfold db n hn]
        apply hcons db n hn
        apply ih
        simp only [hn, if_false] at h
        by_cases hd : depthList db = 0
        · have := depthList_eq_zero hd; subst this
          simp [findLoop_nil, depthList]
        · have := findLoop_next_depth n db
          split <;> omega
  intro db n
  exact key _ db n (Nat.le_refl _)

/-! ## C10, first half: the parts concatenate back to the number -/

/-- **concat_parts** — for every tree (even with length-0 entries) and every number -/
theorem concat_parts (db : List Entry) (n : Str) : ((find db n).map Prod.fst).flatten = n := by
  refine find_induct (fun _ n r => (r.map Prod.fst).flatten = n) (fun _ => rfl) ?_ db n
  intro db n _ ih
  simp only [List.map_cons, List.flatten_cons, ih]
  exact findLoop_part_append_drop n db

theorem split_concat (db : List Entry) (n : Str) : (split db n).flatten = n := concat_parts db n

/-! ## C10, second half: each level follows the declarative rule -/

/-- the entries of a level selected by the rule: matching and of length `l` -/
def selected (n : Str) (db : List Entry) (l : Nat) : List Entry :=
  (db.filter (matchesNumber n)).filter (fun e => e.length == l)

/-- loop invariant: after the entries `pre`, the loop variables are what the rule prescribes for `pre` -/
def LoopInv (n : Str) (pre : List Entry) (st : FindState) : Prop :=
  (pre.filter (matchesNumber n) = [] ∧ st = { part := n, properties := [], next := [] }) ∨
  (∃ l, (∃ e ∈ pre.filter (matchesNumber n), e.length = l) ∧
     (∀ e ∈ pre.filter (matchesNumber n), l ≤ e.length) ∧
     st = { part := n.take l, properties := mergeProps (selected n pre l),
            next := (selected n pre l).flatMap Entry.children })

theorem matchesNumber_length_le {n : Str} {e : Entry} (h : matchesNumber n e = true) :
    e.length ≤ n.length := by
  simp [matchesNumber] at h; exact h.1.1

theorem entryMatches_take (n : Str) (l : Nat) (hl : l ≤ n.length) (e : Entry) :
    entryMatches (n.take l) e = (decide (e.length ≤ l) && matchesNumber n e) := by
  by_cases h : e.length ≤ l
  · have h1 : (n.take l).take e.length = n.take e.length := by
      rw [List.take_take, Nat.min_eq_left h]
    have h2 : e.length ≤ n.length := Nat.le_trans h hl
    simp [entryMatches, matchesNumber, h1, h, h2, List.length_take, Nat.min_eq_left hl]
  · simp [entryMatches, h, List.length_take, Nat.min_eq_left hl]

theorem mergeProps_append_singleton (es : List Entry) (e : Entry) :
    mergeProps (es ++ [e]) = dictUpdate (mergeProps es) e.props := by
  simp [mergeProps, List.foldl_append]

theorem mergeProps_singleton (e : Entry) : mergeProps [e] = dictUpdate [] e.props := rfl

theorem loopInv_step (n : Str) (pre : List Entry) (st : FindState) (e : Entry)
    (h : LoopInv n pre st) : LoopInv n (pre ++ [e]) (findStep st e) := by
  rcases h with ⟨hm, rfl⟩ | ⟨l, ⟨e0, he0, he0l⟩, hmin, rfl⟩
  · -- nothing has matched so far
    by_cases hme : matchesNumber n e = true
    · right
      have hle := matchesNumber_length_le hme
      refine ⟨e.length, ⟨e, by simp [List.filter_append, hme], rfl⟩, ?_, ?_⟩
      · intro x hx
        simp [List.filter_append, hm, hme] at hx
        rw [hx]; exact Nat.le_refl _
      · have hsel : selected n (pre ++ [e]) e.length = [e] := by
          simp [selected, List.filter_append, hm, hme]
        simp only [findStep, entryMatches_eq, hme, if_true, hsel, mergeProps_singleton]
        by_cases hlt : e.length < n.length
        · simp [hlt]
        · have : e.length = n.length := by omega
          simp [this]
    · left
      simp only [Bool.not_eq_true] at hme
      refine ⟨by simp [List.filter_append, hm, hme], ?_⟩
      simp [findStep, entryMatches_eq, hme]
  · -- the current shortest match has length l
    have hl : l ≤ n.length := by
      have := matchesNumber_length_le (List.mem_filter.mp he0).2
      omega
    have hpart : (n.take l).length = l := by rw [List.length_take]; omega
    right
    by_cases hme : matchesNumber n e = true
    · have hfil : (pre ++ [e]).filter (matchesNumber n) = pre.filter (matchesNumber n) ++ [e] := by
        simp [List.filter_append, hme]
      rcases Nat.lt_trichotomy e.length l with hlt | heq | hgt
      · -- strictly shorter: reset
        refine ⟨e.length, ⟨e, by simp [hfil], rfl⟩, ?_, ?_⟩
        · intro x hx
          rw [hfil] at hx
          rcases List.mem_append.mp hx with hx | hx
          · have := hmin x hx; omega
          · simp at hx; rw [hx]; exact Nat.le_refl _
        · have hsel : selected n (pre ++ [e]) e.length = [e] := by
            unfold selected
            rw [hfil, List.filter_append]
            have : (pre.filter (matchesNumber n)).filter (fun x => x.length == e.length) = [] := by
              rw [List.filter_eq_nil_iff]
              intro x hx
              have := hmin x hx
              simp; omega
            simp [this]
          have hm' : entryMatches (n.take l) e = true := by
            rw [entryMatches_take n l hl]; simp [hme]; omega
          have ht : (n.take l).take e.length = n.take e.length := by
            rw [List.take_take, Nat.min_eq_left (Nat.le_of_lt hlt)]
          simp [findStep, hm', hpart, hlt, hsel, mergeProps_singleton, ht]
      · -- same length: merge
        refine ⟨l, ⟨e0, by rw [hfil]; exact List.mem_append_left _ he0, he0l⟩, ?_, ?_⟩
        · intro x hx
          rw [hfil] at hx
          rcases List.mem_append.mp hx with hx | hx
          · exact hmin x hx
          · simp at hx; rw [hx]; omega
        · have hsel : selected n (pre ++ [e]) l = selected n pre l ++ [e] := by
            unfold selected
            rw [hfil, List.filter_append]
            simp [heq]
          have hm' : entryMatches (n.take l) e = true := by
            rw [entryMatches_take n l hl]; simp [hme]; omega
          have hnlt : ¬ e.length < l := by omega
          simp [findStep, hm', hpart, hnlt, hsel, mergeProps_append_singleton, List.flatMap_append]
      · -- longer than the current part: ignored
        refine ⟨l, ⟨e0, by rw [hfil]; exact List.mem_append_left _ he0, he0l⟩, ?_, ?_⟩
        · intro x hx
          rw [hfil] at hx
          rcases List.mem_append.mp hx with hx | hx
          · exact hmin x hx
          · simp at hx; rw [hx]; omega
        · have hsel : selected n (pre ++ [e]) l = selected n pre l := by
            unfold selected
            rw [hfil, List.filter_append]
            have : ¬ e.length = l := by omega
            simp [this]
          have hm' : entryMatches (n.take l) e = false := by
            rw [entryMatches_take n l hl]
            have : ¬ e.length ≤ l := by omega
            simp [this]
          simp [findStep, hm', hsel]
    · simp only [Bool.not_eq_true] at hme
      have hfil : (pre ++ [e]).filter (matchesNumber n) = pre.filter (matchesNumber n) := by
        simp [List.filter_append, hme]
      refine ⟨l, ⟨e0, by rw [hfil]; exact he0, he0l⟩, by rw [hfil]; exact hmin, ?_⟩
      have hsel : selected n (pre ++ [e]) l = selected n pre l := by
        unfold selected; rw [hfil]
      have hm' : entryMatches (n.take l) e = false := by
        rw [entryMatches_take n l hl]; simp [hme]
      simp [findStep, hm', hsel]

theorem loopInv_foldl (n : Str) : ∀ (rest pre : List Entry) (st : FindState),
    LoopInv n pre st → LoopInv n (pre ++ rest) (rest.foldl findStep st) := by
  intro rest
  induction rest with
  | nil => intro pre st h; simpa using h
  | cons e es ih =>
    intro pre st h
    have := ih (pre ++ [e]) (findStep st e) (loopInv_step n pre st e h)
    simpa using this

theorem loopInv_findLoop (n : Str) (db : List Entry) : LoopInv n db (findLoop n db) := by
  have := loopInv_foldl n db [] { part := n, properties := [], next := [] } (Or.inl ⟨rfl, rfl⟩)
  simpa [findLoop] using this

/-- **findLoop_spec** — the result of the loop of `_find` is the declarative rule.
Let `M` be the entries of the level that match the number (`length ≤ |n|` and
`low ≤ n[:length] ≤ high`, code-point lexicographic).  If `M` is empty the result is `(n, {}, [])`;
otherwise, for `l` the minimal length in `M`: `part = n[:l]`, the properties are the left-to-right
`dict.update` merge of the props of the entries of `M` of length `l` (file order) and the next level is
the concatenation of their children. -/
theorem findLoop_spec (n : Str) (db : List Entry) :
    (db.filter (matchesNumber n) = [] →
      findLoop n db = { part := n, properties := [], next := [] }) ∧
    (∀ l, (∃ e ∈ db.filter (matchesNumber n), e.length = l) →
      (∀ e ∈ db.filter (matchesNumber n), l ≤ e.length) →
      findLoop n db = { part := n.take l, properties := mergeProps (selected n db l),
                        next := (selected n db l).flatMap Entry.children }) := by
  constructor
  · intro hm
    rcases loopInv_findLoop n db with ⟨_, h⟩ | ⟨l, ⟨e, he, _⟩, _, _⟩
    · exact h
    · rw [hm] at he; cases he
  · intro l ⟨e, he, hel⟩ hmin
    rcases loopInv_findLoop n db with ⟨hm, _⟩ | ⟨l', ⟨e', he', hel'⟩, hmin', h⟩
    · rw [hm] at he; cases he
    · have : l' = l := by
        have h1 := hmin e' he'
        have h2 := hmin' e he
        omega
      subst this; exact h

theorem minLength_spec : ∀ (m : List Entry), m ≠ [] →
    (∃ e ∈ m, e.length = minLength m) ∧ (∀ e ∈ m, minLength m ≤ e.length)
  | [], h => absurd rfl h
  | [e], _ => ⟨⟨e, List.mem_singleton.mpr rfl, rfl⟩, by
      intro x hx; rw [List.mem_singleton.mp hx]; exact Nat.le_refl _⟩
  | e :: e' :: es, _ => by
    obtain ⟨⟨x, hx, hxl⟩, hmin⟩ := minLength_spec (e' :: es) (by simp)
    simp only [minLength]
    constructor
    · by_cases h : e.length ≤ minLength (e' :: es)
      · exact ⟨e, List.mem_cons_self, by rw [Nat.min_eq_left h]⟩
      · exact ⟨x, List.mem_cons_of_mem _ hx, by rw [hxl]; omega⟩
    · intro y hy
      rcases List.mem_cons.mp hy with rfl | hy
      · exact Nat.min_le_left _ _
      · exact Nat.le_trans (Nat.min_le_right _ _) (hmin y hy)

/-- **findStep_spec** — the loop of `_find` computes exactly the (executable) declarative rule
`levelRule`: shortest matching length wins, props of all matching ranges of that length are merged in file
order, their children are concatenated; no match: the whole number, no props, no children. -/
theorem findStep_spec (n : Str) (db : List Entry) : findLoop n db = levelRule n db := by
  unfold levelRule
  by_cases hm : db.filter (matchesNumber n) = []
  · simp only [hm, if_true]; exact (findLoop_spec n db).1 hm
  · simp only [hm, if_false]
    obtain ⟨hex, hmin⟩ := minLength_spec _ hm
    exact (findLoop_spec n db).2 _ hex hmin

/-- **unmatched_tail** — if no entry of the level matches, the (non-empty) remainder is returned as one
property-less part. -/
theorem unmatched_tail (db : List Entry) (n : Str) (hn : n ≠ [])
    (h : ∀ e ∈ db, matchesNumber n e = false) : find db n = [(n, [])] := by
  have hm : db.filter (matchesNumber n) = [] := by
    rw [List.filter_eq_nil_iff]; intro e he; simp [h e he]
  rw [find_unfold db n hn, (findLoop_spec n db).1 hm]
  simp [find_nil]

/-- the first part is non-empty and the remainder is looked up in the children -/
theorem find_matched (db : List Entry) (n : Str) (hn : n ≠ []) (l : Nat)
    (hex : ∃ e ∈ db.filter (matchesNumber n), e.length = l)
    (hmin : ∀ e ∈ db.filter (matchesNumber n), l ≤ e.length) :
    find db n = (n.take l, mergeProps (selected n db l))
      :: find ((selected n db l).flatMap Entry.children) (n.drop l) := by
  have hl : l ≤ n.length := by
    obtain ⟨e, he, hel⟩ := hex
    have := matchesNumber_length_le (List.mem_filter.mp he).2
    omega
  rw [find_unfold db n hn, (findLoop_spec n db).2 l hex hmin]
  simp [List.length_take, Nat.min_eq_left hl]

/-! ## well-formed trees (all lengths ≥ 1): parts are non-empty, at most `|n|` parts -/

theorem findLoop_wf (n : Str) (db : List Entry) (hn : n ≠ []) (hwf : wfList db = true) :
    wfList (findLoop n db).next = true ∧ (findLoop n db).part ≠ [] := by
  unfold findLoop
  refine foldl_findStep_inv (P := fun st => wfList st.next = true ∧ st.part ≠ [])
    (Q := fun e => e.wf = true) ?_ db ((wfList_iff db).mp hwf) _ ⟨rfl, hn⟩
  intro st e hq ⟨h1, h2⟩
  obtain ⟨hlen, hch⟩ := (Entry.wf_iff e).mp hq
  unfold findStep
  split
  · split
    · refine ⟨by simpa using hch, ?_⟩
      intro h
      have h' : st.part.take e.length = [] := h
      have hlen0 : (st.part.take e.length).length = 0 := by rw [h']; rfl
      rw [List.length_take] at hlen0
      have : st.part.length ≠ 0 := by
        intro h0; exact h2 (List.eq_nil_of_length_eq_zero h0)
      omega
    · exact ⟨by simp [wfList_append, h1, hch], h2⟩
  · exact ⟨h1, h2⟩

/-- **parts_nonempty** — in a tree whose entries all have `length ≥ 1`, every part is non-empty -/
theorem parts_nonempty (db : List Entry) (n : Str) (hwf : wfList db = true) :
    ∀ p ∈ find db n, p.1 ≠ [] := by
  refine find_induct (fun db _ r => wfList db = true → ∀ p ∈ r, p.1 ≠ []) ?_ ?_ db n hwf
  · intro _ _ p hp; cases hp
  · intro db n hn ih hwf p hp
    obtain ⟨h1, h2⟩ := findLoop_wf n db hn hwf
    rcases List.mem_cons.mp hp with rfl | hp
    · exact h2
    · exact ih h1 p hp

/-- **parts_count** — … and there are at most `|n|` parts -/
theorem parts_count (db : List Entry) (n : Str) (hwf : wfList db = true) :
    (find db n).length ≤ n.length := by
  refine find_induct (fun db n r => wfList db = true → r.length ≤ n.length) ?_ ?_ db n hwf
  · intro _ _; exact Nat.le_refl _
  · intro db n hn ih hwf
    obtain ⟨h1, h2⟩ := findLoop_wf n db hn hwf
    have h3 := ih h1
    have h4 := findLoop_part_length_le n db
    have h5 : (findLoop n db).part.length ≠ 0 := by
      intro h0; exact h2 (List.eq_nil_of_length_eq_zero h0)
    simp only [List.length_cons, List.length_drop] at h3 ⊢
    omega

/-! ## the reader -/

/-! ### what the regular expressions guarantee: tokens are non-empty -/

theorem matchTok_ne_nil {s t r : Str} (h : matchTok s = some (t, r)) : t ≠ [] := by
  unfold matchTok at h
  dsimp only at h
  split at h
  · cases h
  · rename_i hne
    simp only [Option.some.injEq, Prod.mk.injEq] at h
    rw [← h.1]; exact hne

/-- a parsed range: `low` (and `high`, if given) is a non-empty token -/
def GoodRange (r : Str × Option Str) : Prop := r.1 ≠ [] ∧ ∀ h, r.2 = some h → h ≠ []

theorem matchRange_good {s : Str} {r : Str × Option Str} {rest : Str}
    (h : matchRange s = some (r, rest)) : GoodRange r := by
  unfold matchRange at h
  split at h
  · cases h
  · rename_i t rest0 ht
    have htne := matchTok_ne_nil ht
    split at h
    · split at h
      · rename_i t2 rest2 ht2
        simp only [Option.some.injEq, Prod.mk.injEq] at h
        rw [← h.1]
        exact ⟨htne, fun x hx => by cases hx; exact matchTok_ne_nil ht2⟩
      · simp only [Option.some.injEq, Prod.mk.injEq] at h
        rw [← h.1]; exact ⟨htne, fun x hx => by cases hx⟩
    · simp only [Option.some.injEq, Prod.mk.injEq] at h
      rw [← h.1]; exact ⟨htne, fun x hx => by cases hx⟩

theorem matchMoreRanges_good : ∀ (f : Nat) (s : Str), ∀ r ∈ (matchMoreRanges f s).1, GoodRange r := by
  intro f
  induction f with
  | zero => intro s r hr; simp [matchMoreRanges] at hr
  | succ f ih =>
    intro s r hr
    unfold matchMoreRanges at hr
    split at hr
    · split at hr
      · rename_i r0 rest hm
        simp only [List.mem_cons] at hr
        rcases hr with rfl | hr
        · exact matchRange_good hm
        · exact ih _ _ hr
      · cases hr
    · cases hr

theorem matchRanges_good {s : Str} {rs : List (Str × Option Str)} {rest : Str}
    (h : matchRanges s = some (rs, rest)) : rs ≠ [] ∧ ∀ r ∈ rs, GoodRange r := by
  unfold matchRanges at h
  split at h
  · cases h
  · rename_i r0 rest0 hm
    simp only [Option.some.injEq, Prod.mk.injEq] at h
    rw [← h.1]
    refine ⟨by simp, ?_⟩
    intro r hr
    rcases List.mem_cons.mp hr with rfl | hr
    · exact matchRange_good hm
    · exact matchMoreRanges_good _ _ _ hr

theorem matchLine_good {line : Str} {indent : Nat} {rs : List (Str × Option Str)} {props : Str}
    (h : matchLine line = some (indent, rs, props)) : rs ≠ [] ∧ ∀ r ∈ rs, GoodRange r := by
  unfold matchLine at h
  split at h
  · cases h
  · rename_i rs0 rest hm
    have hg := matchRanges_good hm
    simp only at h
    split at h
    · simp only [Option.some.injEq, Prod.mk.injEq] at h; rw [← h.2.1]; exact hg
    · split at h
      · cases h
      · simp only [Option.some.injEq, Prod.mk.injEq] at h; rw [← h.2.1]; exact hg

/-- what `_parse` yields for a line: at least one range, `length = len(low) ≥ 1` -/
def GoodRanges (rs : List (Nat × Str × Str)) : Prop := ∀ r ∈ rs, r.1 = r.2.1.length ∧ 1 ≤ r.1

/-- **parseLine_good** — one tuple per range token, `length = |low| ≥ 1`, at least one tuple per line -/
theorem parseLine_good {line : Str} {p : PLine} (h : parseLine line = .ok (some p)) :
    p.ranges ≠ [] ∧ GoodRanges p.ranges := by
  unfold parseLine at h
  split at h
  · cases h
  · split at h
    · cases h
    · split at h
      · cases h
      · rename_i indent rs props hm
        obtain ⟨hne, hg⟩ := matchLine_good hm
        simp only [pure, Except.pure, Except.ok.injEq, Option.some.injEq] at h
        subst h
        refine ⟨by simpa using hne, ?_⟩
        intro r hr
        simp only [List.mem_map] at hr
        obtain ⟨r0, hr0, rfl⟩ := hr
        have := (hg r0 hr0).1
        refine ⟨rfl, ?_⟩
        have : r0.1.length ≠ 0 := fun h0 => this (List.eq_nil_of_length_eq_zero h0)
        show 1 ≤ r0.1.length
        omega

/-! ### invariants of the line tree -/

mutual
/-- every line of the tree has good ranges -/
def goodNode : LNode → Prop
  | .mk r _ ch => (r ≠ [] ∧ GoodRanges r) ∧ goodList ch
def goodList : List LNode → Prop
  | [] => True
  | nd :: l => goodNode nd ∧ goodList l
end

theorem goodList_iff (l : List LNode) : goodList l ↔ ∀ nd ∈ l, goodNode nd := by
  induction l with
  | nil => simp [goodList]
  | cons a as ih => simp [goodList, ih]

theorem appendAt_good : ∀ (q : List Nat) (nd : LNode) (l l' : List LNode),
    goodNode nd → goodList l → appendAt q nd l = some l' → goodList l' := by
  intro q
  induction q with
  | nil =>
    intro nd l l' hnd hl h
    simp only [appendAt, Option.some.injEq] at h
    subst h; exact ⟨hnd, hl⟩
  | cons i q ih =>
    intro nd l l' hnd hl h
    unfold appendAt at h
    split at h
    · split at h
      · rename_i r pr ch hget
        split at h
        · rename_i ch' happ
          simp only [Option.some.injEq] at h
          subst h
          have hmem := List.mem_of_getElem? hget
          have hnode := (goodList_iff l).mp hl _ hmem
          simp only [goodNode] at hnode
          have hch' := ih nd ch ch' hnd hnode.2 happ
          rw [goodList_iff]
          intro x hx
          rcases List.mem_or_eq_of_mem_set hx with hx | rfl
          · exact (goodList_iff l).mp hl x hx
          · simp only [goodNode]; exact ⟨hnode.1, hch'⟩
        · cases h
      · cases h
    · cases h

mutual
/-- `length = |low| ≥ 1` everywhere in an entry tree -/
def entryLenOk : Entry → Prop
  | ⟨len, low, _, _, ch⟩ => (len = low.length ∧ 1 ≤ len) ∧ lenOkList ch
def lenOkList : List Entry → Prop
  | [] => True
  | e :: es => entryLenOk e ∧ lenOkList es
end

theorem lenOkList_append (a b : List Entry) : lenOkList (a ++ b) ↔ lenOkList a ∧ lenOkList b := by
  induction a with
  | nil => simp [lenOkList]
  | cons e es ih => simp [lenOkList, ih, and_assoc]

mutual
theorem entryLenOk_wf : ∀ e : Entry, entryLenOk e → e.wf = true
  | ⟨len, low, high, props, ch⟩, h => by
    simp only [entryLenOk] at h
    simp [Entry.wf, h.1.2, lenOkList_wf ch h.2]
theorem lenOkList_wf : ∀ l : List Entry, lenOkList l → wfList l = true
  | [], _ => rfl
  | e :: es, h => by
    simp only [lenOkList] at h
    simp [wfList, entryLenOk_wf e h.1, lenOkList_wf es h.2]
end

theorem lenOk_map_ranges (rs : List (Nat × Str × Str)) (props : Dict) (kids : List Entry)
    (hr : GoodRanges rs) (hk : lenOkList kids) :
    lenOkList (rs.map (fun r =>
      ({ length := r.1, low := r.2.1, high := r.2.2, props := props, children := kids } : Entry))) := by
  induction rs with
  | nil => simp [lenOkList]
  | cons r rs ih =>
    simp only [List.map_cons, lenOkList, entryLenOk]
    exact ⟨⟨hr r (List.mem_cons_self), hk⟩, ih (fun x hx => hr x (List.mem_cons_of_mem _ hx))⟩

mutual
theorem expand_lenOk : ∀ nd : LNode, goodNode nd → lenOkList nd.expand
  | .mk r p ch, h => by
    simp only [goodNode] at h
    simp only [LNode.expand]
    exact lenOk_map_ranges r p _ h.1.2 (expandList_lenOk ch [] h.2 trivial)
theorem expandList_lenOk : ∀ (l : List LNode) (acc : List Entry),
    goodList l → lenOkList acc → lenOkList (expandList l acc)
  | [], acc, _, ha => by simpa [expandList] using ha
  | nd :: l, acc, h, ha => by
    simp only [goodList] at h
    simp only [expandList]
    exact expandList_lenOk l _ h.2 ((lenOkList_append _ _).mpr ⟨expand_lenOk nd h.1, ha⟩)
end

theorem readStep_good {st st' : RState} {p : PLine} (hst : goodList st.root)
    (hp : p.ranges ≠ [] ∧ GoodRanges p.ranges) (h : readStep st p = .ok st') : goodList st'.root := by
  unfold readStep at h
  split at h
  · simp only [pure, Except.pure, Except.ok.injEq] at h; subst h; exact hst
  · simp only at h
    split at h
    · cases h
    · split at h
      · cases h
      · split at h
        · cases h
        · rename_i root' happ
          simp only [pure, Except.pure, Except.ok.injEq] at h
          subst h
          exact appendAt_good _ _ _ _ (by simp only [goodNode, goodList]; exact ⟨hp, trivial⟩) hst happ

theorem readLoop_good : ∀ (lines : List Str) (st st' : RState),
    goodList st.root → readLoop st lines = .ok st' → goodList st'.root := by
  intro lines
  induction lines with
  | nil =>
    intro st st' hst h
    simp only [readLoop, pure, Except.pure, Except.ok.injEq] at h
    subst h; exact hst
  | cons l ls ih =>
    intro st st' hst h
    unfold readLoop at h
    split at h
    · cases h
    · exact ih _ _ hst h
    · rename_i p hp
      split at h
      · cases h
      · rename_i st1 hs
        exact ih _ _ (readStep_good hst (parseLine_good hp) hs) h

/-- **read_lenOk** — every entry, at every depth, of a tree produced by the reader has
`length = |low| ≥ 1` -/
theorem read_lenOk {lines : List Str} {db : List Entry} (h : Spec.NumDB.read lines = .ok db) : lenOkList db := by
  unfold Spec.NumDB.read at h
  split at h
  · cases h
  · rename_i t ht
    simp only [Except.ok.injEq] at h
    subst h
    unfold readTree at ht
    split at ht
    · cases ht
    · rename_i st hst
      simp only [Except.ok.injEq] at ht
      subst ht
      exact expandList_lenOk _ _ (readLoop_good lines _ _ (by simp [RState.init, goodList]) hst) trivial

/-- **read_wf** — a registry produced by the reader never contains a length-0 entry, so the
well-formedness hypothesis of `parts_nonempty` / `parts_count` holds for every file that can be read -/
theorem read_wf {lines : List Str} {db : List Entry} (h : Spec.NumDB.read lines = .ok db) : wfList db = true :=
  lenOkList_wf db (read_lenOk h)

/-! ### every line ends up in the tree exactly once -/

/-- `(ranges, props)` of a line -/
abbrev LineKey := List (Nat × Str × Str) × Dict

mutual
/-- the lines of a (sub)tree -/
def nodeKeys : LNode → List LineKey
  | .mk r p ch => (r, p) :: keysList ch
def keysList : List LNode → List LineKey
  | [] => []
  | nd :: l => nodeKeys nd ++ keysList l
end

theorem keysList_set : ∀ (l : List LNode) (j : Nat) (x y : LNode) (extra : List LineKey),
    l[j]? = some x → (nodeKeys y).Perm (extra ++ nodeKeys x) →
    (keysList (l.set j y)).Perm (extra ++ keysList l) := by
  intro l
  induction l with
  | nil => intro j x y extra h; simp at h
  | cons a as ih =>
    intro j x y extra h hp
    cases j with
    | zero =>
      simp only [List.getElem?_cons_zero, Option.some.injEq] at h
      subst h
      simp only [List.set_cons_zero, keysList]
      rw [← List.append_assoc]
      exact hp.append_right _
    | succ j =>
      simp only [List.getElem?_cons_succ] at h
      simp only [List.set_cons_succ, keysList]
      exact ((ih j x y extra h hp).append_left _).trans (List.perm_append_comm_assoc _ _ _)

theorem appendAt_keys : ∀ (q : List Nat) (nd : LNode) (l l' : List LNode),
    appendAt q nd l = some l' → (keysList l').Perm (nodeKeys nd ++ keysList l) := by
  intro q
  induction q with
  | nil =>
    intro nd l l' h
    simp only [appendAt, Option.some.injEq] at h
    subst h; simp only [keysList]; exact List.Perm.refl _
  | cons i q ih =>
    intro nd l l' h
    unfold appendAt at h
    split at h
    · split at h
      · rename_i r pr ch hget
        split at h
        · rename_i ch' happ
          simp only [Option.some.injEq] at h
          subst h
          refine keysList_set l _ _ _ _ hget ?_
          simp only [nodeKeys]
          exact ((ih nd ch ch' happ).cons _).trans List.perm_middle.symm
        · cases h
      · cases h
    · cases h

/-- the key of the node created for a parsed line -/
def lineKey (p : PLine) : LineKey := (p.ranges, p.props)

theorem readStep_keys {st st' : RState} {p : PLine} (hp : p.ranges ≠ [])
    (h : readStep st p = .ok st') : (keysList st'.root).Perm (lineKey p :: keysList st.root) := by
  unfold readStep at h
  split at h
  · contradiction
  · simp only at h
    split at h
    · cases h
    · split at h
      · cases h
      · split at h
        · cases h
        · rename_i root' happ
          simp only [pure, Except.pure, Except.ok.injEq] at h
          subst h
          have := appendAt_keys _ _ _ _ happ
          simpa [nodeKeys, keysList, lineKey] using this

theorem readLoop_keys : ∀ (lines : List Str) (st st' : RState), readLoop st lines = .ok st' →
    ∃ ps, parseLines lines = .ok ps ∧ (keysList st'.root).Perm (ps.map lineKey ++ keysList st.root) := by
  intro lines
  induction lines with
  | nil =>
    intro st st' h
    simp only [readLoop, pure, Except.pure, Except.ok.injEq] at h
    subst h
    exact ⟨[], rfl, List.Perm.refl _⟩
  | cons l ls ih =>
    intro st st' h
    unfold readLoop at h
    split at h
    · cases h
    · rename_i hpl
      obtain ⟨ps, hps, hperm⟩ := ih _ _ h
      exact ⟨ps, by simp [parseLines, hpl, hps], hperm⟩
    · rename_i p hpl
      split at h
      · cases h
      · rename_i st1 hs
        obtain ⟨ps, hps, hperm⟩ := ih _ _ h
        refine ⟨p :: ps, by simp [parseLines, hpl, hps], ?_⟩
        have h1 := readStep_keys (parseLine_good hpl).1 hs
        exact (hperm.trans ((h1.append_left _).trans List.perm_middle)).trans (by simp)

/-- **readTree_lines_perm** — when `read` succeeds every line parsed, and the lines of the tree are
exactly the parsed data lines: each line (its range tokens with the shared props) occurs exactly once. -/
theorem readTree_lines_perm {lines : List Str} {t : List LNode} (h : readTree lines = .ok t) :
    ∃ ps, parseLines lines = .ok ps ∧ (keysList t).Perm (ps.map lineKey) := by
  unfold readTree at h
  split at h
  · cases h
  · rename_i st hst
    simp only [Except.ok.injEq] at h
    subst h
    obtain ⟨ps, hps, hperm⟩ := readLoop_keys lines _ _ hst
    exact ⟨ps, hps, by simpa [RState.init, keysList] using hperm⟩

/-! ### one entry per range; the ranges of a line share props and children; file order -/

theorem expand_eq (r : List (Nat × Str × Str)) (p : Dict) (ch : List LNode) :
    (LNode.mk r p ch).expand = r.map (fun x =>
      ({ length := x.1, low := x.2.1, high := x.2.2, props := p, children := expandList ch [] } : Entry)) := by
  simp [LNode.expand]

/-- **expand_ranges** — a line gives one entry per range token, in the order of the tokens -/
theorem expand_ranges (nd : LNode) :
    nd.expand.map (fun e => (e.length, e.low, e.high)) = nd.ranges := by
  cases nd with
  | mk r p ch => simp [expand_eq, LNode.ranges, Function.comp_def]

/-- **expand_shared** — all entries of a line carry the line's props and the same children -/
theorem expand_shared (nd : LNode) :
    ∀ e ∈ nd.expand, e.props = nd.props ∧ e.children = expandList nd.children [] := by
  cases nd with
  | mk r p ch =>
    intro e he
    rw [expand_eq] at he
    obtain ⟨x, _, rfl⟩ := List.mem_map.mp he
    exact ⟨rfl, rfl⟩

/-- **expandList_eq** — the entry tree lists the lines oldest first (lists are stored newest first) -/
theorem expandList_eq (l : List LNode) (acc : List Entry) :
    expandList l acc = l.reverse.flatMap LNode.expand ++ acc := by
  induction l generalizing acc with
  | nil => simp [expandList]
  | cons nd l ih => simp [expandList, ih, List.flatMap_append]

theorem read_eq_expand {lines : List Str} {db : List Entry} (h : Spec.NumDB.read lines = .ok db) :
    ∃ t, readTree lines = .ok t ∧ db = t.reverse.flatMap LNode.expand := by
  unfold Spec.NumDB.read at h
  split at h
  · cases h
  · rename_i t ht
    simp only [Except.ok.injEq] at h
    exact ⟨t, ht, by rw [← h, expandList_eq]; simp⟩

/-! ### where a line goes: appended at the end of the addressed list -/

/-- the list object at `path` (newest first) -/
def listAt : List Nat → List LNode → Option (List LNode)
  | [], l => some l
  | i :: q, l =>
    if i < l.length then
      match l[revIdx l.length i]? with
      | some nd => listAt q nd.children
      | none => none
    else none

theorem lengthAt_eq : ∀ (q : List Nat) (l : List LNode), lengthAt q l = (listAt q l).map List.length := by
  intro q
  induction q with
  | nil => intro l; rfl
  | cons i q ih =>
    intro l
    unfold lengthAt listAt
    split
    · split <;> simp [*]
    · rfl

theorem revIdx_lt {len i : Nat} (h : i < len) : revIdx len i < len := by unfold revIdx; omega

/-- **appendAt_listAt** — `append` changes the addressed list by putting the node at its (file-order)
end; the depth of the new node is the length of the path -/
theorem appendAt_listAt : ∀ (q : List Nat) (nd : LNode) (l l' : List LNode),
    appendAt q nd l = some l' → ∃ old, listAt q l = some old ∧ listAt q l' = some (nd :: old) := by
  intro q
  induction q with
  | nil =>
    intro nd l l' h
    simp only [appendAt, Option.some.injEq] at h
    subst h; exact ⟨l, rfl, rfl⟩
  | cons i q ih =>
    intro nd l l' h
    unfold appendAt at h
    split at h
    · rename_i hi
      split at h
      · rename_i r pr ch hget
        split at h
        · rename_i ch' happ
          simp only [Option.some.injEq] at h
          subst h
          obtain ⟨old, h1, h2⟩ := ih nd ch ch' happ
          refine ⟨old, ?_, ?_⟩
          · simp only [listAt, hi, if_true, hget, LNode.children]; exact h1
          · have hj := revIdx_lt hi
            simp only [listAt, List.length_set, hi, if_true, List.getElem?_set_self hj, LNode.children]
            exact h2
        · cases h
      · cases h
    · cases h

/-- **readStep_spec** — one line of the file: it is appended to the list `stack[indent]`; that list is the
old `stack[indent]` on a dedent or equal indent, and the children of the newest line of
`stack[last_indent]` on a deeper indent. -/
theorem readStep_spec {st st' : RState} {p : PLine} (hp : p.ranges ≠ [])
    (h : readStep st p = .ok st') :
    ∃ q, stackGet st'.stack st'.last = some q ∧ st'.last = p.indent ∧
      appendAt q (.mk p.ranges p.props []) st.root = some st'.root ∧
      (p.indent ≤ st.last → st'.stack = st.stack) ∧
      (st.last < p.indent → ∃ q0 k, stackGet st.stack st.last = some q0 ∧
          lengthAt q0 st.root = some (k + 1) ∧ q = q0 ++ [k] ∧
          st'.stack = stackSet st.stack p.indent q) := by
  unfold readStep at h
  split at h
  · contradiction
  · by_cases hlt : p.indent > st.last
    · simp only [hlt, if_true] at h
      split at h
      · cases h
      · rename_i stack hstack
        split at hstack
        · cases hstack
        · rename_i q0 hq0
          split at hstack
          · cases hstack
          · cases hstack
          · rename_i k hk
            simp only [pure, Except.pure, Except.ok.injEq] at hstack
            split at h
            · cases h
            · rename_i q hq
              split at h
              · cases h
              · rename_i root' happ
                simp only [pure, Except.pure, Except.ok.injEq] at h
                subst h
                have hqq : q = q0 ++ [k] := by
                  rw [← hstack] at hq
                  have : stackGet (stackSet st.stack p.indent (q0 ++ [k])) p.indent = some (q0 ++ [k]) := by
                    generalize st.stack = s
                    induction s with
                    | nil => simp [stackSet, stackGet]
                    | cons a s ih =>
                      simp only [stackSet]
                      split <;> simp_all [stackGet]
                  rw [this] at hq; exact (Option.some.inj hq).symm
                refine ⟨q, hq, rfl, happ, fun hle => absurd hlt (by omega), fun _ => ?_⟩
                exact ⟨q0, k, hq0, hk, hqq, by rw [← hstack, hqq]⟩
    · simp only [hlt, if_false, pure, Except.pure] at h
      split at h
      · cases h
      · rename_i q hq
        split at h
        · cases h
        · rename_i root' happ
          simp only [Except.ok.injEq] at h
          subst h
          exact ⟨q, hq, rfl, happ, fun _ => rfl, fun h' => absurd h' (by omega)⟩

/-- appending below the newest line of the list at `q` makes the node the newest child of that line -/
theorem appendAt_child : ∀ (q : List Nat) (nd : LNode) (l : List LNode) (x : LNode) (old : List LNode),
    listAt q l = some (x :: old) →
    ∃ l', appendAt (q ++ [old.length]) nd l = some l' ∧
      listAt q l' = some (.mk x.ranges x.props (nd :: x.children) :: old) := by
  intro q
  induction q with
  | nil =>
    intro nd l x old h
    simp only [listAt, Option.some.injEq] at h
    subst h
    cases x with
    | mk r pr ch =>
      refine ⟨.mk r pr (nd :: ch) :: old, ?_, rfl⟩
      simp [appendAt, revIdx]
  | cons i q ih =>
    intro nd l x old h
    unfold listAt at h
    split at h
    · rename_i hi
      split at h
      · rename_i y hget
        cases y with
        | mk r pr ch =>
          obtain ⟨ch', h1, h2⟩ := ih nd ch x old h
          refine ⟨l.set (revIdx l.length i) (.mk r pr ch'), ?_, ?_⟩
          · simp only [List.cons_append, appendAt, hi, if_true, hget]
            rw [h1]
          · have hj := revIdx_lt hi
            simp only [listAt, List.length_set, hi, if_true, List.getElem?_set_self hj, LNode.children]
            exact h2
      · cases h
    · cases h

/-- **read_child_of_previous** — a line indented deeper than the line before it becomes the (so far only)
child of that line: right depth, whatever the indent widths are. -/
theorem read_child_of_previous {st st1 st2 : RState} {p1 p2 : PLine}
    (hp1 : p1.ranges ≠ []) (hp2 : p2.ranges ≠ [])
    (h1 : readStep st p1 = .ok st1) (h2 : readStep st1 p2 = .ok st2) (hlt : p1.indent < p2.indent) :
    ∃ q old, stackGet st1.stack p1.indent = some q ∧
      listAt q st1.root = some (.mk p1.ranges p1.props [] :: old) ∧
      listAt q st2.root = some (.mk p1.ranges p1.props [.mk p2.ranges p2.props []] :: old) := by
  obtain ⟨q1, hq1, hl1, happ1, _, _⟩ := readStep_spec hp1 h1
  obtain ⟨q2, _, _, happ2, _, hdeep⟩ := readStep_spec hp2 h2
  obtain ⟨old, _, hold'⟩ := appendAt_listAt _ _ _ _ happ1
  obtain ⟨q0, k, hq0, hk, hq2, _⟩ := hdeep (by omega)
  have : q0 = q1 := by rw [hq1] at hq0; exact (Option.some.inj hq0).symm
  subst this
  have hk' : k = old.length := by
    rw [lengthAt_eq, hold'] at hk
    simp at hk; omega
  subst hk'
  obtain ⟨l', ha, hl'⟩ := appendAt_child q0 (.mk p2.ranges p2.props []) st1.root _ old hold'
  rw [hq2, ha] at happ2
  have : l' = st2.root := Option.some.inj happ2
  subst this
  rw [hl1] at hq1
  exact ⟨q0, old, hq1, hold', by simpa [LNode.ranges, LNode.props, LNode.children] using hl'⟩

/-- **read_sibling_of_previous** — a line with the same indent as the line before it is appended right
after that line, to the same list. -/
theorem read_sibling_of_previous {st st1 st2 : RState} {p1 p2 : PLine}
    (hp1 : p1.ranges ≠ []) (hp2 : p2.ranges ≠ [])
    (h1 : readStep st p1 = .ok st1) (h2 : readStep st1 p2 = .ok st2) (heq : p2.indent = p1.indent) :
    ∃ q old, stackGet st1.stack p1.indent = some q ∧
      listAt q st1.root = some (.mk p1.ranges p1.props [] :: old) ∧
      listAt q st2.root = some (.mk p2.ranges p2.props [] :: .mk p1.ranges p1.props [] :: old) := by
  obtain ⟨q1, hq1, hl1, happ1, _, _⟩ := readStep_spec hp1 h1
  obtain ⟨q2, hq2, hl2, happ2, hsame, _⟩ := readStep_spec hp2 h2
  obtain ⟨old, _, hold'⟩ := appendAt_listAt _ _ _ _ happ1
  have hst : st2.stack = st1.stack := hsame (by omega)
  have : q2 = q1 := by
    rw [hst, hl2, heq, ← hl1, hq1] at hq2; exact (Option.some.inj hq2).symm
  subst this
  obtain ⟨old2, ho2, ho2'⟩ := appendAt_listAt _ _ _ _ happ2
  rw [hold'] at ho2
  have := Option.some.inj ho2
  subst this
  rw [hl1] at hq1
  exact ⟨q2, old, hq1, hold', ho2'⟩

/-! ### a file without indentation: the entries are the range tokens in file order -/

theorem readLoop_flat : ∀ (lines : List Str) (ps : List PLine) (st : RState),
    parseLines lines = .ok ps → (∀ p ∈ ps, p.indent = 0) → st.last = 0 → stackGet st.stack 0 = some [] →
    ∃ st', readLoop st lines = .ok st' ∧
      st'.root = (ps.reverse.map fun p => LNode.mk p.ranges p.props []) ++ st.root := by
  intro lines
  induction lines with
  | nil =>
    intro ps st hps _ _ _
    simp only [parseLines, pure, Except.pure, Except.ok.injEq] at hps
    subst hps
    exact ⟨st, rfl, by simp⟩
  | cons l ls ih =>
    intro ps st hps h0 hlast hstack
    unfold parseLines at hps
    split at hps
    · cases hps
    · rename_i hpl
      obtain ⟨st', h1, h2⟩ := ih ps st hps h0 hlast hstack
      exact ⟨st', by simp [readLoop, hpl, h1], h2⟩
    · rename_i p hpl
      split at hps
      · cases hps
      · rename_i ps' hps'
        simp only [Except.ok.injEq] at hps
        subst hps
        have hp0 : p.indent = 0 := h0 p (List.mem_cons_self)
        have hne := (parseLine_good hpl).1
        have hstep : readStep st p = .ok { root := .mk p.ranges p.props [] :: st.root,
                                           stack := st.stack, last := 0 } := by
          simp [readStep, hne, hp0, hlast, hstack, appendAt, pure, Except.pure]
        obtain ⟨st', h1, h2⟩ := ih ps' { root := .mk p.ranges p.props [] :: st.root,
                                         stack := st.stack, last := 0 } hps'
          (fun x hx => h0 x (List.mem_cons_of_mem _ hx)) rfl hstack
        exact ⟨st', by simp [readLoop, hpl, hstep, h1], by simp [h2]⟩

/-- **read_flat** — for a file whose data lines are all unindented, the registry is exactly the sequence
of tuples generated by `_parse` (one entry per range token, in file order, props shared per line, no
children). -/
theorem read_flat {lines : List Str} {ps : List PLine} (hps : parseLines lines = .ok ps)
    (h0 : ∀ p ∈ ps, p.indent = 0) :
    Spec.NumDB.read lines = .ok (ps.flatMap fun p => p.ranges.map fun r =>
      ({ length := r.1, low := r.2.1, high := r.2.2, props := p.props, children := [] } : Entry)) := by
  obtain ⟨st', h1, h2⟩ := readLoop_flat lines ps RState.init hps h0 rfl rfl
  simp only [Spec.NumDB.read, readTree, h1, h2, expandList_eq]
  simp only [RState.init, List.flatMap_def, List.append_nil, List.map_reverse, List.reverse_reverse,
    List.map_map]
  congr 2

/-! ## non-vacuity: the hypotheses hold and the statements say something on a concrete registry -/

section Examples

open Lean Elab Term in
/-- `str% "ab"` elaborates to the code-point list `[97, 98]` (`Py.ofString` on a literal makes the
kernel decode UTF-8, which is very slow) -/
scoped elab "str% " x:str : term => return toExpr (x.getString.toList.map Char.toNat)

/-- a small registry file: nesting, a two-range line, ranges of equal length that overlap (`100-999`,
`200`) with a property overriding another one, ranges of different lengths that overlap (`200`, `00-89`),
a comment and a blank line -/
private def exText : Str :=
  str% "# test\n0-8 prop1=\"foo\"\n  100-999 prop2=\"bar\"\n  200,300-399 prop3=\"baz\" prop2=\"over\"\n    333 prop4=\"bax\"\n\n90-99 prop1=\"booz\"\n  200 c=\"ignored\"\n  00-89 prop2=\"foo\"\n"

/-- the same registry as a tree -/
private def exDb : List Entry :=
  [ ⟨1, str% "0", str% "8", [(str% "prop1", str% "foo")],
      [ ⟨3, str% "100", str% "999", [(str% "prop2", str% "bar")], []⟩,
        ⟨3, str% "200", str% "200", [(str% "prop3", str% "baz"), (str% "prop2", str% "over")],
          [⟨3, str% "333", str% "333", [(str% "prop4", str% "bax")], []⟩]⟩,
        ⟨3, str% "300", str% "399", [(str% "prop3", str% "baz"), (str% "prop2", str% "over")],
          [⟨3, str% "333", str% "333", [(str% "prop4", str% "bax")], []⟩]⟩ ]⟩,
    ⟨2, str% "90", str% "99", [(str% "prop1", str% "booz")],
      [ ⟨3, str% "200", str% "200", [(str% "c", str% "ignored")], []⟩,
        ⟨2, str% "00", str% "89", [(str% "prop2", str% "foo")], []⟩ ]⟩ ]

private def exLevel1 : List Entry :=
  [ ⟨3, str% "100", str% "999", [(str% "prop2", str% "bar")], []⟩,
    ⟨3, str% "200", str% "200", [(str% "prop3", str% "baz"), (str% "prop2", str% "over")],
      [⟨3, str% "333", str% "333", [(str% "prop4", str% "bax")], []⟩]⟩,
    ⟨3, str% "300", str% "399", [(str% "prop3", str% "baz"), (str% "prop2", str% "over")], []⟩ ]

private def exLevel2 : List Entry :=
  [ ⟨3, str% "200", str% "200", [(str% "c", str% "ignored")], []⟩,
    ⟨2, str% "00", str% "89", [(str% "prop2", str% "foo")], []⟩ ]

private theorem isOk_exists {α : Type} {x : Py.R α} (h : Py.isOk x = true) : ∃ v, x = .ok v := by
  cases x with
  | ok v => exact ⟨v, rfl⟩
  | error e => simp [Py.isOk] at h

-- the reader produces exactly `exDb` behaviour: lookups through the parsed file
example : (readText exText).toOption.map (fun db => info db (str% "0200333")) =
    some [(str% "0", [(str% "prop1", str% "foo")]),
          (str% "200", [(str% "prop2", str% "over"), (str% "prop3", str% "baz")]),
          (str% "333", [(str% "prop4", str% "bax")])] := by decide +kernel

-- find / concat_parts on a three-level lookup
example : find exDb (str% "0200333") =
    [(str% "0", [(str% "prop1", str% "foo")]),
     (str% "200", [(str% "prop2", str% "over"), (str% "prop3", str% "baz")]),
     (str% "333", [(str% "prop4", str% "bax")])] := by decide +kernel
example : ((find exDb (str% "0200333")).map Prod.fst).flatten = str% "0200333" := concat_parts _ _
example : split exDb (str% "902006") = [str% "90", str% "20", str% "06"] := by decide +kernel

-- findStep_spec: two matching ranges of the minimal length 3 are merged (later key overrides, first
-- position kept), children concatenated
example : (levelRule (str% "200333") exLevel1).part = str% "200" ∧
    (levelRule (str% "200333") exLevel1).properties = [(str% "prop2", str% "over"), (str% "prop3", str% "baz")] ∧
    (levelRule (str% "200333") exLevel1).next.length = 1 ∧
    ((exLevel1.filter (matchesNumber (str% "200333"))).length = 2) := by decide +kernel
example : findLoop (str% "200333") exLevel1 = levelRule (str% "200333") exLevel1 := findStep_spec _ _
-- overlapping ranges of different lengths: the shorter one (`00-89`, listed later) wins
example : (levelRule (str% "2006") exLevel2).part = str% "20" ∧
    (levelRule (str% "2006") exLevel2).properties = [(str% "prop2", str% "foo")] ∧
    ((exLevel2.filter (matchesNumber (str% "2006"))).length = 2) := by decide +kernel
-- the relational form: its hypotheses are satisfiable
example : (∃ e ∈ exLevel2.filter (matchesNumber (str% "2006")), e.length = 2) ∧
    (∀ e ∈ exLevel2.filter (matchesNumber (str% "2006")), 2 ≤ e.length) := by decide +kernel

-- find_unfold
example : find exDb (str% "902006") = (str% "90", [(str% "prop1", str% "booz")]) :: find exLevel2 (str% "2006") := by
  decide +kernel

-- unmatched_tail: hypothesis satisfiable, conclusion as stated
example : ∀ e ∈ exDb, matchesNumber (str% "A1") e = false := by decide +kernel
example : find exDb (str% "A1") = [(str% "A1", [])] :=
  unmatched_tail exDb (str% "A1") (by decide) (by decide +kernel)
-- … also below the top level: the remainder `06` of `902006` is one property-less part
example : find [] (str% "06") = [(str% "06", [])] := unmatched_tail [] _ (by decide) (fun _ h => by cases h)

-- parts_nonempty / parts_count: the hypothesis holds for the example tree
example : wfList exDb = true := by decide +kernel
example : (find exDb (str% "0200333")).length ≤ 7 := parts_count exDb (str% "0200333") (by decide +kernel)
-- … and is needed: with a length-0 entry `_find` still terminates but returns empty parts
example : find [⟨0, [], [], [(str% "a", str% "b")], [⟨0, [], [], [], []⟩]⟩] (str% "12") =
    [([], [(str% "a", str% "b")]), ([], []), (str% "12", [])] := by decide +kernel

-- reader: the example file is readable, so `read_wf`, `read_lenOk`, `readTree_lines_perm`,
-- `read_eq_expand` apply to it
example : ∃ db, Spec.NumDB.read (splitLines exText) = .ok db := isOk_exists (by decide +kernel)
example : ∃ t, readTree (splitLines exText) = .ok t := isOk_exists (by decide +kernel)
-- reader errors: first data line indented (IndexError), dedent to an unseen indent (KeyError),
-- a line `_line_re` does not match (AttributeError on `None.group`)
example : Py.isOk (readText (str% " 1\n")) = false ∧ Py.isOk (readText (str% "1\n  2\n 3\n")) = false ∧
    Py.isOk (readText (str% "1\n\t2\n")) = false ∧ Py.isOk (readText (str% "1\n-2\n")) = false := by
  decide +kernel

-- read_child_of_previous / read_sibling_of_previous: hypotheses satisfiable
private def exP1 : PLine := { indent := 0, ranges := [(1, str% "0", str% "8")], props := [(str% "a", str% "b")] }
private def exP2 : PLine := { indent := 3, ranges := [(2, str% "10", str% "19"), (2, str% "30", str% "30")], props := [] }
example : ∃ st1 st2, readStep RState.init exP1 = .ok st1 ∧ readStep st1 exP2 = .ok st2 ∧
    exP1.indent < exP2.indent ∧ exP1.ranges ≠ [] ∧ exP2.ranges ≠ [] :=
  ⟨_, _, rfl, rfl, by decide, by decide, by decide⟩
example : ∃ st1 st2, readStep RState.init exP1 = .ok st1 ∧ readStep st1 exP1 = .ok st2 :=
  ⟨_, _, rfl, rfl⟩

-- read_flat: hypotheses satisfiable (two unindented lines, three range tokens)
example : ∃ ps, parseLines (splitLines (str% "1,2 a=\"x\"\n# c\n30-39\n")) = .ok ps ∧
    (∀ p ∈ ps, p.indent = 0) ∧ (ps.map (fun p => p.ranges.length)) = [2, 1] :=
  ⟨_, rfl, by decide +kernel, by decide +kernel⟩

-- parseLine_good
example : ∃ p, parseLine (str% "  200,300-399 prop3=\"baz\"\n") = .ok (some p) ∧
    p.ranges = [(3, str% "200", str% "200"), (3, str% "300", str% "399")] ∧ p.indent = 2 :=
  ⟨_, rfl, by decide +kernel, by decide +kernel⟩

end Examples

#print axioms strLe_eq_pyrt
#print axioms concat_parts
#print axioms split_concat
#print axioms findLoop_spec
#print axioms findStep_spec
#print axioms find_unfold
#print axioms find_nil
#print axioms find_matched
#print axioms unmatched_tail
#print axioms parts_nonempty
#print axioms parts_count
#print axioms findAux_fuel_irrel
#print axioms find_induct
#print axioms parseLine_good
#print axioms read_lenOk
#print axioms read_wf
#print axioms readTree_lines_perm
#print axioms expand_ranges
#print axioms expand_shared
#print axioms expandList_eq
#print axioms read_eq_expand
#print axioms appendAt_listAt
#print axioms readStep_spec
#print axioms read_child_of_previous
#print axioms read_sibling_of_previous
#print axioms read_flat

end Props.C10
