import Props.C07a
import Props.C07b
import Props.C07c
import Props.C07d
/-!
# C07 — international identifiers agree with an independent reading of their standard

Statements about the **generated** `Gen.M.validate` (regenerated from /repo on every run), for ALL strings `x`:

  `(Gen.M.validate x).toOption = if Std_M (canon_M x) = true then some (canon_M x) else none`

where `Std_M` is the declarative predicate of `Spec/Standards.lean` (written from the published rule: congruences over
the whole number, shapes, shared DATA tables only) and `canon_M x` is the value of the module's `compact(x)`.
`tools/corr/standards.py` compares `Std_M ∘ canon_M` with the independent Python transcription
`tools/search/c07_reference.py` through `Driver/Standards.lean`.

The proofs live in `Props/C07u.lean` (Unicode table facts), `C07a.lean`, `C07b.lean`, `C07c.lean`, `C07d.lean`.

| format | theorem(s) | status |
|---|---|---|
| ISSN | `issn_agrees_with_standard` | full |
| EAN/GTIN | `ean_agrees_with_standard` | full |
| ISBN (10, SBN, 13) | `isbn_agrees_with_standard` | full |
| ISMN | `ismn_agrees_with_standard` | full |
| IMO | `imo_agrees_with_standard` | full |
| IMEI | `imei_agrees_with_standard` | full |
| CUSIP | `cusip_agrees_with_standard` | full |
| SEDOL | `sedol_agrees_with_standard` | full |
| ISIN | `isin_agrees_with_standard` | full |
| CAS RN | `casrn_agrees_with_standard` | full |
| ISRC | `isrc_agrees_with_standard` | full |
| FIGI | `figi_agrees_with_code_list`, `figi_disagrees`, `figi_witness`, `figi_agrees_with_standard_partial` | code lacks the reserved prefixes GH, KY |
| LEI | `lei_agrees_with_code_rule`, `lei_disagrees`, `lei_witness`, `lei_agrees_with_standard_partial` | code has no length check; check digits may be letters |
| ISO 11649 | `iso11649_agrees_with_code_rule`, `iso11649_disagrees`, `iso11649_witness`, `iso11649_agrees_with_standard_partial` | check digits may be letters |
| ISNI | `isni_disagrees`, `isni_witness`, `isni_agrees_with_standard_partial` | non-ASCII digit accepted as last character |
| GRid | `grid_agrees_with_code_rule`, `grid_disagrees`, `grid_witness`, `grid_agrees_with_standard_partial` | scheme element `A1` not checked |
| BIC | `bic_agrees_with_shape`, `bic_disagrees`, `bic_witness`, `bic_agrees_with_standard_partial` | country code not looked up in ISO 3166 |
| IBAN | — | `Gen.iban.validate` is not translated (nested function `_struct_to_re`, registry type) |
| Bitcoin | — | `Gen.bitcoin.validate` is not translated (`functools.reduce`, `bytes`) |

Each `M_disagrees` is `¬ ∀ x, (Gen.M.validate x).toOption = if Std_M (canon_M x) = true then … else none`, proved from a
concrete witness evaluated by the kernel on the generated function; each `_partial` theorem has exactly the
hypothesis that excludes the leniency (see the statement).
-/

#print axioms Props.C07.tame_of_compact
#print axioms Props.C07.issn_agrees_with_standard
#print axioms Props.C07.ean_agrees_with_standard
#print axioms Props.C07.isbn_agrees_with_standard
#print axioms Props.C07.ismn_agrees_with_standard
#print axioms Props.C07.imo_agrees_with_standard
#print axioms Props.C07.imei_agrees_with_standard
#print axioms Props.C07.cusip_agrees_with_standard
#print axioms Props.C07.sedol_agrees_with_standard
#print axioms Props.C07.isin_agrees_with_standard
#print axioms Props.C07.casrn_agrees_with_standard
#print axioms Props.C07.isrc_agrees_with_standard
#print axioms Props.C07.figi_agrees_with_code_list
#print axioms Props.C07.figi_disagrees
#print axioms Props.C07.figi_witness
#print axioms Props.C07.figi_agrees_with_standard_partial
#print axioms Props.C07.lei_agrees_with_code_rule
#print axioms Props.C07.lei_disagrees
#print axioms Props.C07.lei_witness
#print axioms Props.C07.lei_agrees_with_standard_partial
#print axioms Props.C07.iso11649_agrees_with_code_rule
#print axioms Props.C07.iso11649_disagrees
#print axioms Props.C07.iso11649_witness
#print axioms Props.C07.iso11649_agrees_with_standard_partial
#print axioms Props.C07.isni_disagrees
#print axioms Props.C07.isni_witness
#print axioms Props.C07.isni_agrees_with_standard_partial
#print axioms Props.C07.grid_agrees_with_code_rule
#print axioms Props.C07.grid_disagrees
#print axioms Props.C07.grid_witness
#print axioms Props.C07.grid_agrees_with_standard_partial
#print axioms Props.C07.bic_agrees_with_shape
#print axioms Props.C07.bic_disagrees
#print axioms Props.C07.bic_witness
#print axioms Props.C07.bic_agrees_with_standard_partial
