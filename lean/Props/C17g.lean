import Gen.id_npwp
import Props.C17c
import Props.C11data.id_loc_link
/-!
# C17, continued — `id.npwp` (Luhn over a prefix of the number); see the table in `Props/C17f.lean`
-/
namespace Props.C17
open Py Spec.Checksum Lemmas.Refine Lemmas.Fold Props.C06 Props.C06Gen

/-! ## stdnum.id.npwp (15 digits: Luhn over the first 9; 16 digits with a leading `0`: Luhn over the first 10;
16 digits otherwise: a NIK, which has no check digit and is outside the property) -/

theorem take10 (s : Str) : slice s none (some 10) = s.take 10 := slice_none_nonneg s (by decide)

/-- what an accepted NPWP is: digits, returned unchanged when the input was digits already, and one of the
three readings -/
theorem id_npwp_ok (x v : Str) (h : Gen.id_npwp.validate x = .ok v) :
    (AllIn isAsciiDigit x → v = x) ∧
      (AllIn isAsciiDigit v ∧
        ((v.length = 15 ∧ isOk (Gen.luhn.validate (v.take 9) d10) = true) ∨
         (v.length = 16 ∧ startswith v [48] = false) ∨
         (v.length = 16 ∧ startswith v [48] = true ∧ isOk (Gen.luhn.validate (v.take 10) d10) = true))) := by
  unfold Gen.id_npwp.validate Gen.id_npwp.compact at h
  invert_validate h
  generalize hn : strip (cleanP x [32, 45, 46]) = n at h
  rw [take9, take10] at h
  obtain ⟨hd, hcase⟩ := h
  have hD := digits_of_isDigitsB hd
  have hx : AllIn isAsciiDigit x → n = x := fun hx => by rw [← hn, digits_compact hx _ (by decide)]
  rcases hcase with ⟨h15, a, hl, rfl⟩ | ⟨_, h16, ⟨hs, hnik⟩ | ⟨hs, a, hl, rfl⟩⟩
  · exact ⟨hx, hD, Or.inl ⟨by omega, isOk_true_of_ok hl⟩⟩
  · unfold Gen.id_nik.validate Gen.id_nik.compact at hnik
    invert_validate hnik
    obtain ⟨_, _, _, _, _, _, hv⟩ := hnik
    rw [digits_compact hD _ (by decide)] at hv
    subst hv
    exact ⟨hx, hD, Or.inr (Or.inl ⟨by omega, hs⟩)⟩
  · exact ⟨hx, hD, Or.inr (Or.inr ⟨by omega, hs, isOk_true_of_ok hl⟩)⟩

theorem startswith_set_succ (v p : Str) (i c : Nat) (hp : p.length ≤ i) :
    startswith (v.set i c) p = startswith v p := by
  unfold startswith
  induction p generalizing v i with
  | nil => simp
  | cons a p ih =>
    cases v with
    | nil => simp
    | cons b v =>
      cases i with
      | zero => simp at hp
      | succ i =>
        simp only [List.set_cons_succ, List.isPrefixOf_cons_cons]
        rw [ih v i (by simpa using hp)]

/-- old 15-digit NPWP: the Luhn digit protects the first nine digits -/
theorem id_npwp15_single_error_partial (x v : Str) (h : Gen.id_npwp.validate x = .ok v) (h15 : v.length = 15)
    (i c : Nat) (h9 : i < 9) (hc : isAsciiDigit c = true) (hne : c ≠ v[i]'(by omega)) :
    isOk (Gen.id_npwp.validate (v.set i c)) = false := by
  obtain ⟨_, hD, hcase⟩ := id_npwp_ok x v h
  have hL : isOk (Gen.luhn.validate (v.take 9) d10) = true := by
    rcases hcase with ⟨_, hL⟩ | ⟨h16, _⟩ | ⟨h16, _⟩
    · exact hL
    · omega
    · omega
  have hj : i < (v.take 9).length := by simp; omega
  have hdet : isOk (Gen.luhn.validate ((v.take 9).set i c) d10) = false :=
    luhn_detects (v.take 9) i c hj (fun a ha => hD a (List.mem_of_mem_take ha)) hc
    (by rw [List.getElem_take]; exact hne) hL
  cases hw : Gen.id_npwp.validate (v.set i c) with
  | error e => rfl
  | ok v' =>
    obtain ⟨hxw, _, hcw⟩ := id_npwp_ok _ _ hw
    obtain rfl := hxw (allIn_set hD i c hc)
    rcases hcw with ⟨_, hL'⟩ | ⟨h16, _⟩ | ⟨h16, _⟩
    · rw [List.take_set, hdet] at hL'; cases hL'
    · simp at h16; omega
    · simp at h16; omega

/-- 16-digit NPWP with the leading `0`: the Luhn digit protects positions 1–9 (position 0 selects the reading) -/
theorem id_npwp16_single_error_partial (x v : Str) (h : Gen.id_npwp.validate x = .ok v) (h16 : v.length = 16)
    (h0 : startswith v [48] = true)
    (i c : Nat) (h1 : 1 ≤ i) (h10 : i < 10) (hc : isAsciiDigit c = true) (hne : c ≠ v[i]'(by omega)) :
    isOk (Gen.id_npwp.validate (v.set i c)) = false := by
  obtain ⟨_, hD, hcase⟩ := id_npwp_ok x v h
  have hL : isOk (Gen.luhn.validate (v.take 10) d10) = true := by
    rcases hcase with ⟨h15, _⟩ | ⟨_, hs⟩ | ⟨_, _, hL⟩
    · omega
    · rw [h0] at hs; cases hs
    · exact hL
  have hj : i < (v.take 10).length := by simp; omega
  have hdet : isOk (Gen.luhn.validate ((v.take 10).set i c) d10) = false :=
    luhn_detects (v.take 10) i c hj (fun a ha => hD a (List.mem_of_mem_take ha)) hc
    (by rw [List.getElem_take]; exact hne) hL
  cases hw : Gen.id_npwp.validate (v.set i c) with
  | error e => rfl
  | ok v' =>
    obtain ⟨hxw, _, hcw⟩ := id_npwp_ok _ _ hw
    obtain rfl := hxw (allIn_set hD i c hc)
    rw [startswith_set_succ v [48] i c (by simpa using h1)] at hcw
    rcases hcw with ⟨h15, _⟩ | ⟨_, hs⟩ | ⟨_, _, hL'⟩
    · simp at h15; omega
    · rw [h0] at hs; cases hs
    · rw [List.take_set, hdet] at hL'; cases hL'

theorem ex_npwp15 : Gen.id_npwp.validate (str% "01.300.066.6-091.000") = .ok (str% "013000666091000") := by
  decide +kernel
example : isOk (Gen.id_npwp.validate (str% "013000666091000")) = true := by decide +kernel
example : isOk (Gen.id_npwp.validate (str% "013100666091000")) = false :=
  id_npwp15_single_error_partial _ _ ex_npwp15 (by decide) 3 49 (by decide) (by decide) (by decide)

theorem ex_npwp16 : Gen.id_npwp.validate (str% "0831326608101000") = .ok (str% "0831326608101000") := by
  decide +kernel
example : isOk (Gen.id_npwp.validate (str% "0831326708101000")) = false :=
  id_npwp16_single_error_partial _ _ ex_npwp16 (by decide) (by decide) 7 55 (by decide) (by decide) (by decide)
    (by decide)

/-- the full-strength statement is **false** of the code: the last six digits of a 15-digit NPWP (tax office
and branch code) are not covered by the check digit.  `013000666091000` → `013000666091001`, both accepted. -/
theorem id_npwp_single_error_false :
    ¬ ∀ (x v : Str), Gen.id_npwp.validate x = .ok v → ∀ (i c : Nat) (hi : i < v.length),
      isAsciiDigit c = true → c ≠ v[i] → isOk (Gen.id_npwp.validate (v.set i c)) = false := by
  intro H
  have := H _ _ ex_npwp15 14 49 (by decide) (by decide) (by decide)
  revert this
  decide +kernel


/-- `1831326608101000` is a NIK (its registration place `1831` is looked up in the embedded `id/loc.dat`, which
the kernel has read itself: `Props.C11.Data.id_loc.db_eq`) -/
theorem ex_npwp_nik :
    Gen.id_npwp.validate [49, 56, 51, 49, 51, 50, 54, 54, 48, 56, 49, 48, 49, 48, 48, 48] =
      .ok [49, 56, 51, 49, 51, 50, 54, 54, 48, 56, 49, 48, 49, 48, 48, 48] := by
  unfold Gen.id_npwp.validate Gen.id_nik.validate Gen.id_nik._check_registration_place
  rw [Props.C11.Data.id_loc.db_eq]
  decide +kernel

/-- position 0 of a 16-digit NPWP is **not** protected either, although it lies inside `number[:10]`: replacing
the leading `0` switches `validate` to the NIK reading, which has no check digit.
`0831326608101000` → `1831326608101000`, both accepted. -/
theorem id_npwp16_single_error_false :
    ¬ ∀ (x v : Str), Gen.id_npwp.validate x = .ok v → v.length = 16 → startswith v [48] = true →
      ∀ (i c : Nat) (hi : i < v.length), i < 10 → isAsciiDigit c = true → c ≠ v[i] →
        isOk (Gen.id_npwp.validate (v.set i c)) = false := by
  intro H
  have := H _ _ ex_npwp16 (by decide) (by decide) 0 49 (by decide) (by decide) (by decide) (by decide)
  have e : (List.set [48, 56, 51, 49, 51, 50, 54, 54, 48, 56, 49, 48, 49, 48, 48, 48] 0 49 : Str) =
      [49, 56, 51, 49, 51, 50, 54, 54, 48, 56, 49, 48, 49, 48, 48, 48] := rfl
  rw [e, ex_npwp_nik] at this
  cases this

end Props.C17

#print axioms Props.C17.id_npwp_ok
#print axioms Props.C17.id_npwp15_single_error_partial
#print axioms Props.C17.id_npwp16_single_error_partial
#print axioms Props.C17.id_npwp_single_error_false
#print axioms Props.C17.id_npwp16_single_error_false
#print axioms Props.C17.ex_npwp_nik
#print axioms Props.C17.ex_npwp15
#print axioms Props.C17.ex_npwp16
