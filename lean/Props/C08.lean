import Props.C08a
import Props.C08b
import Props.C08c
import Props.C08d
import Props.C08e
import Props.C08f
import Props.C08g
import Props.C08h
import Props.C08j
/-!
# C08 — conversions between formats preserve validity and identity; paired conversions undo each other

Statements about the **generated** conversion functions (`Gen.M.to_*`, regenerated from /repo on every run).  The
hypothesis is always `Gen.src.validate x … = .ok v` for an arbitrary input string `x`; `v` is then the compact number.
Per relation: *target-valid* (the target module's `validate` accepts the result, and what it returns), *identity* (how
the payload of `v` is embedded in the result, stated as the explicit form of the result) and *inverse* where the
library has the paired conversion.

`Props/C08p.lean` shared helpers, `C08a.lean` EAN family on the compact number, `C08e.lean` EAN family on separated
presentations and the witnesses against the unrestricted statements, `C08b.lean` ISIN family, `C08c.lean` national
identifiers, `C08d.lean` Irish VAT and AIC, `C08f.lean` SIRET, `C08g.lean` ISAN, `C08h.lean` MEID, `C08i.lean`/`C08j.lean` bank accounts
and IBAN (the registry through `Props.C11.Data.iban.db_eq`).

| relation | theorems | status |
|---|---|---|
| ISSN → EAN-13 (`issue_code` any two digits) | `issn_to_ean_valid` | full (every input `x`) |
| ISBN-10 → ISBN-13 | `isbn10_to_isbn13`, `isbn13_to_isbn13` (compact number), `isbn10_to_isbn13_pres` (separated), `isbn_to_isbn13_full_false` | false for every `x`: a separator after the check digit |
| ISBN-13 → ISBN-10 | `isbn13_to_isbn10`, `isbn10_to_isbn10`, `isbn13_979_to_isbn10` (979: `InvalidComponent`), `isbn13_to_isbn10_pres`, `isbn_to_isbn10_full_false` | false for every `x`: separator inside `978`, separator after the check digit |
| ISBN inverse | `isbn10_roundtrip`, `isbn13_roundtrip` | full on compact numbers |
| ISMN-10 → ISMN-13 | `ismn10_to_ismn13`, `ismn13_to_ismn13`, `ismn10_to_ismn13_pres`, `ismn_to_ismn13_full_false` | false for every `x`: a separator before the `M` |
| CUSIP → ISIN | `cusip_to_isin_partial`, `cusip_to_isin_special`, `cusip_to_isin_full_false` | known defect: `* @ #` raise `ValueError` |
| SEDOL → ISIN, WKN → ISIN | `sedol_to_isin`, `wkn_to_isin` (both through `from_natid_valid`) | full |
| ACN → ABN | `acn_to_abn` | full |
| CUI → RUC → DNI | `cui_to_ruc` (with inverse), `ruc_to_dni` (with inverse), `ruc_to_dni_company` | full |
| GSTIN → PAN | `gstin_to_pan` | full |
| SIREN → TVA | `siren_to_tva_partial`, `siren_to_tva_compact`, `siren_to_tva_pres`, `siren_to_tva_full_false` | false for every `x`: white space that `strip()` removes in front of the number |
| SIRET → SIREN, SIRET → TVA | `to_siren_eq` (every input), `siret_to_siren_pres`, `siret_to_siren_full_false` | false for every `x`: full-width digits are valid but not counted by `to_siren` |
| old → new Irish VAT | `ie_vat_convert_old`, `ie_vat_convert_new` | full |
| AIC base 32 → base 10 | `aic_base32_to_base10` | `to_base32` not translated (`while`) |
| CCC → IBAN → CCC | `ccc_to_iban_pres`, `ccc_to_iban_valid` (with `iban.validate(check_country=True)` and inverse) | ASCII presentations |
| kontonr → IBAN → kontonr | `kontonr_to_iban_pres`, `kontonr_to_iban_valid_partial` (11 digits), `kontonr_to_iban_full_false` (7 digits, known defect), `kontonr_to_iban_witness_0000` | known defect + the optional `0000` prefix |

| ISAN ± check characters | `isan_strip_add` (strip valid, add valid, strip∘add, uniqueness of the check characters), `isan_roundtrip` | full (every input `x`) |

| MEID decimal → hex | `meid_dec_to_hex` (`validate`/`compact` of an 18-digit decimal MEID: 14 hex digits, valid, identity) | hex → decimal is in `meid.format`, not translated |

Not stated: MEID hex → decimal (`meid.format` not translated: a variable changes type), German tax number
(`de.stnr._get_formats` not translated), `it.aic.to_base32` (`while` loop).
-/

#print axioms Props.C08.issn_to_ean_valid
#print axioms Props.C08.isbn10_to_isbn13
#print axioms Props.C08.isbn13_to_isbn13
#print axioms Props.C08.isbn13_to_isbn10
#print axioms Props.C08.isbn13_979_to_isbn10
#print axioms Props.C08.isbn10_to_isbn10
#print axioms Props.C08.isbn10_roundtrip
#print axioms Props.C08.isbn13_roundtrip
#print axioms Props.C08.ismn10_to_ismn13
#print axioms Props.C08.ismn13_to_ismn13
#print axioms Props.C08.isbn10_to_isbn13_pres
#print axioms Props.C08.isbn13_to_isbn10_pres
#print axioms Props.C08.ismn10_to_ismn13_pres
#print axioms Props.C08.isbn_to_isbn13_witness
#print axioms Props.C08.isbn_to_isbn13_full_false
#print axioms Props.C08.isbn_to_isbn10_witness
#print axioms Props.C08.isbn_to_isbn10_full_false
#print axioms Props.C08.ismn_to_ismn13_witness
#print axioms Props.C08.ismn_to_ismn13_full_false
#print axioms Props.C08.from_natid_valid
#print axioms Props.C08.cusip_to_isin_partial
#print axioms Props.C08.cusip_to_isin_special
#print axioms Props.C08.cusip_to_isin_witness
#print axioms Props.C08.cusip_to_isin_full_false
#print axioms Props.C08.sedol_to_isin
#print axioms Props.C08.wkn_to_isin
#print axioms Props.C08.acn_to_abn
#print axioms Props.C08.cui_to_ruc
#print axioms Props.C08.ruc_to_dni
#print axioms Props.C08.ruc_to_dni_company
#print axioms Props.C08.gstin_to_pan
#print axioms Props.C08.siren_to_tva_partial
#print axioms Props.C08.siren_to_tva_compact
#print axioms Props.C08.siren_to_tva_pres
#print axioms Props.C08.siren_to_tva_witness
#print axioms Props.C08.siren_to_tva_full_false
#print axioms Props.C08.to_siren_eq
#print axioms Props.C08.siret_to_siren_pres
#print axioms Props.C08.siret_to_siren_witness
#print axioms Props.C08.siret_to_siren_full_false
#print axioms Props.C08.ie_vat_convert_old
#print axioms Props.C08.ie_vat_convert_new
#print axioms Props.C08.aic_base32_to_base10
#print axioms Props.C08.ccc_to_iban_pres
#print axioms Props.C08.kontonr_to_iban_pres
#print axioms Props.C08.ccc_to_iban_valid
#print axioms Props.C08.kontonr_to_iban_valid_partial
#print axioms Props.C08.kontonr_to_iban_witness
#print axioms Props.C08.kontonr_to_iban_full_false
#print axioms Props.C08.kontonr_to_iban_witness_0000
#print axioms Props.C08.isan_strip_add
#print axioms Props.C08.isan_roundtrip
#print axioms Props.C08.meid_dec_to_hex
