import Spec.Checksum
import Lemmas.Fold
/-!
# C06 — generic checksum algorithms give their promised guarantees at any length

All theorems are about the string-level model functions of `Spec/Checksum.lean` (`validate`,
`calc_check_digit`), for words of **every length** over the alphabet.  They are proved on the value-level
state machines through the refinement lemmas of `Spec/Checksum.lean` and the abstract fold theorems of
`Lemmas/Fold.lean`.  Positions are presented as `u ++ a :: v` (substitution at position `u.length`) and
`u ++ a :: b :: v` (transposition of positions `u.length`, `u.length + 1`); `Lemmas.Fold.split_at`,
`set_eq_split`, `split_at₂` convert from `List.set`/index form.

Per module `X` ∈ luhn, verhoeff, damm, mod_11_2, mod_37_2, mod_11_10, mod_37_36, mod_97_10:
* `X_append_valid`   — `validate (p ++ calc_check_digit p) = ok` (mod_97_10: `mod_97_10_append_valid_partial`)
* `X_check_unique`   — for a character `c` of the alphabet, `validate (p ++ [c])` ok ↔ `c` is the generated one
  (mod_97_10: `mod_97_10_check_iff`, `mod_97_10_check_unique_in_range`, `mod_97_10_check_digits_not_unique`)
* `X_subst_detected` — a single substitution in a valid number gives InvalidChecksum
* `X_swap_detected`  — an adjacent transposition of different characters gives InvalidChecksum
  (verhoeff, damm, mod_11_2, mod_37_2 for every odd alphabet size, mod_97_10 for two characters of the same
  kind); `luhn_swap_undetected_iff` (missed iff {first, last alphabet symbol}, every even alphabet size);
  `mod_11_10_swap_undetected_iff`, `mod_37_36_swap_undetected_iff` (missed iff the running checksums after
  the first of the two characters are M/2 and M/2+1) with the witnesses `…_swap_not_always_detected`.

What is false of the code (proved here with witnesses):
* `mod_97_10_append_valid_fails_at_4299` / `mod_97_10_calc_fails_when_long`: with CPython's 4300-digit
  `int()` limit, `calc_check_digits` raises ValueError for payloads of ≥ 4299 decimal digits and nothing
  validates; `mod_97_10_append_valid_partial` carries the hypothesis that the limit is not hit.
* `mod_11_10_swap_not_always_detected`, `mod_37_36_swap_not_always_detected`: hybrid systems miss some
  adjacent transpositions (`560`/`650`, `901`/`910`).
* `mod_97_10_check_digits_not_unique`, `mod_97_10_mixed_kinds_undetected`.
-/
namespace Props.C06
open Py Spec.Checksum Lemmas.Fold

/-! ## generic helpers -/

theorem isOk_iff {α : Type} (x : R α) : isOk x = true ↔ ∃ r, x = .ok r := by
  cases x <;> simp [isOk]

/-- `validate` succeeds iff the checksum has the target value -/
theorem validateBody_of_ok (ck : R Nat) (c t : Nat) (n : Str) (h : ck = .ok c) :
    validateBody ck t n = if c = t then .ok n else .error .invalidChecksum := by
  subst h
  by_cases hct : c = t <;> simp [validateBody, tryExcept, hct]

theorem validateBody_of_error (ck : R Nat) (e : Exc) (t : Nat) (n : Str) (h : ck = .error e) :
    validateBody ck t n = .error .invalidFormat := by
  subst h
  simp [validateBody, tryExcept, Exc.caughtBy]

/-! ### alphabets -/

theorem idxOf_lt {l : List Nat} {c : Nat} (h : c ∈ l) : l.idxOf c < l.length :=
  List.idxOf_lt_length_iff.mpr h

theorem idxOf_inj {l : List Nat} {a b : Nat} (ha : a ∈ l) (hb : b ∈ l) (h : l.idxOf a = l.idxOf b) :
    a = b := by
  have h1 := List.getElem_idxOf (idxOf_lt ha)
  have h2 := List.getElem_idxOf (idxOf_lt hb)
  rw [← h1, ← h2]
  simp only [h]

theorem idxOf_getElem {l : List Nat} (hnd : l.Nodup) (i : Nat) (h : i < l.length) :
    l.idxOf l[i] = i := by
  induction l generalizing i with
  | nil => simp at h
  | cons x l ih =>
    rw [List.nodup_cons] at hnd
    cases i with
    | zero => simp
    | succ i =>
      simp only [List.length_cons, Nat.add_lt_add_iff_right] at h
      have hne : ¬ (x == l[i]) = true := by
        intro he
        exact hnd.1 ((beq_iff_eq.mp he) ▸ List.getElem_mem h)
      simp only [List.getElem_cons_succ, List.idxOf_cons, hne, cond_false]
      rw [ih hnd.2 i h]

theorem getItem_eq {α : Type} (l : List α) (i : Nat) (h : i < l.length) : getItem l i = .ok l[i] := by
  unfold getItem
  rw [List.getElem?_eq_getElem h]
  rfl

/-! ### modular arithmetic with a symbolic modulus -/

theorem mod_two (n a : Nat) (h : a < 2 * n) : a % n = if a < n then a else a - n := by
  split
  · exact Nat.mod_eq_of_lt ‹_›
  · rw [Nat.mod_eq_sub_mod (by omega), Nat.mod_eq_of_lt (by omega)]

theorem add_mod_inj_right (n s a b : Nat) (ha : a < n) (hb : b < n) (h : (s + a) % n = (s + b) % n) :
    a = b := by
  have hn : 0 < n := by omega
  have hs : s % n < n := Nat.mod_lt _ hn
  have h' : (s % n + a) % n = (s % n + b) % n := by rw [Nat.mod_add_mod, Nat.mod_add_mod]; exact h
  generalize s % n = r at hs h'
  rw [mod_two n _ (by omega), mod_two n _ (by omega)] at h'
  split at h' <;> split at h' <;> omega

theorem add_mod_cancel_iff (n s x y : Nat) (hn : 0 < n) : (s + x) % n = (s + y) % n ↔ x % n = y % n := by
  constructor
  · intro h
    rw [← Nat.add_mod_mod s x n, ← Nat.add_mod_mod s y n] at h
    exact add_mod_inj_right n s _ _ (Nat.mod_lt _ hn) (Nat.mod_lt _ hn) h
  · intro h
    rw [← Nat.add_mod_mod s x n, ← Nat.add_mod_mod s y n, h]

theorem add_mod_inj_left (n s t x : Nat) (hs : s < n) (ht : t < n) (h : (s + x) % n = (t + x) % n) :
    s = t := by
  rw [Nat.add_comm s, Nat.add_comm t] at h
  exact add_mod_inj_right n x s t hs ht h

/-- Python's `(1 - x) % m` for `x ≤ 1 + 2 m` -/
theorem pmod_one_sub (x m : Nat) (h : x ≤ 1 + 2 * m) : pmod (1 - (x : Int)) m = (1 + 2 * m - x) % m := by
  unfold pmod
  have e : (1 - (x : Int)) = ((1 + 2 * m - x : Nat) : Int) + (-2) * (m : Int) := by omega
  rw [e, Int.add_mul_emod_self_right, Int.ofNat_mod_ofNat, Int.toNat_natCast]

theorem idxOf_eq_iff {l : List Nat} (hnd : l.Nodup) {a : Nat} (ha : a ∈ l) (i : Nat) :
    l.idxOf a = i ↔ l[i]? = some a := by
  constructor
  · intro h
    subst h
    rw [List.getElem?_eq_getElem (idxOf_lt ha), List.getElem_idxOf]
  · intro h
    obtain ⟨hi, he⟩ := List.getElem?_eq_some_iff.mp h
    subst he
    exact idxOf_getElem hnd i hi

theorem map_idx_lt {l w : List Nat} (hw : ∀ c ∈ w, c ∈ l) : ∀ x ∈ w.map (l.idxOf ·), x < l.length := by
  intro x hx
  obtain ⟨c, hc, rfl⟩ := List.mem_map.mp hx
  exact idxOf_lt (hw c hc)

theorem mem_split {P : Nat → Prop} {u v : List Nat} {a : Nat}
    (h : ∀ c ∈ u ++ a :: v, P c) : (∀ c ∈ u, P c) ∧ P a ∧ (∀ c ∈ v, P c) := by
  refine ⟨fun c hc => h c (by simp [hc]), h a (by simp), fun c hc => h c (by simp [hc])⟩

/-! ## Luhn (mod N for every even N) -/

theorem dbl_lo (n i : Nat) (h : i * 2 < n) : Luhn.dbl n i = i * 2 := by
  unfold Luhn.dbl; rw [Nat.div_eq_of_lt h, Nat.mod_eq_of_lt h]; omega

theorem dbl_hi (n i : Nat) (h1 : n ≤ i * 2) (h2 : i < n) : Luhn.dbl n i = i * 2 - n + 1 := by
  unfold Luhn.dbl
  have hd : i * 2 / n = 1 := by apply Nat.div_eq_of_lt_le <;> omega
  have hm : i * 2 % n = i * 2 - n := by rw [Nat.mod_eq_sub_mod h1, Nat.mod_eq_of_lt (by omega)]
  omega

/-- the doubling map `i ↦ (2i) div n + (2i) mod n` is a permutation of `0 .. n-1` for even `n` -/
theorem dbl_lt (k i : Nat) (hi : i < 2 * k) : Luhn.dbl (2 * k) i < 2 * k := by
  by_cases h : i * 2 < 2 * k
  · rw [dbl_lo _ _ h]; exact h
  · rw [dbl_hi _ _ (by omega) hi]; omega

theorem dbl_inj (k i j : Nat) (hi : i < 2 * k) (hj : j < 2 * k)
    (h : Luhn.dbl (2 * k) i = Luhn.dbl (2 * k) j) : i = j := by
  by_cases h1 : i * 2 < 2 * k <;> by_cases h2 : j * 2 < 2 * k
  · rw [dbl_lo _ _ h1, dbl_lo _ _ h2] at h; omega
  · rw [dbl_lo _ _ h1, dbl_hi _ _ (by omega) hj] at h; omega
  · rw [dbl_hi _ _ (by omega) hi, dbl_lo _ _ h2] at h; omega
  · rw [dbl_hi _ _ (by omega) hi, dbl_hi _ _ (by omega) hj] at h; omega

/-- `dbl a - a` collides only for `{0, n-1}` -/
theorem luhn_collide (k a b : Nat) (ha : a < 2 * k) (hb : b < 2 * k) (hab : a ≠ b) :
    (a + Luhn.dbl (2 * k) b) % (2 * k) = (b + Luhn.dbl (2 * k) a) % (2 * k) ↔
      (a = 0 ∧ b = 2 * k - 1) ∨ (a = 2 * k - 1 ∧ b = 0) := by
  have h1 := dbl_lt k a ha
  have h2 := dbl_lt k b hb
  rw [mod_two (2 * k) _ (by omega), mod_two (2 * k) _ (by omega)]
  by_cases c1 : a * 2 < 2 * k <;> by_cases c2 : b * 2 < 2 * k
  · rw [dbl_lo _ _ c1, dbl_lo _ _ c2]; split <;> split <;> omega
  · rw [dbl_lo _ _ c1, dbl_hi _ _ (by omega) hb]; split <;> split <;> omega
  · rw [dbl_hi _ _ (by omega) ha, dbl_lo _ _ c2]; split <;> split <;> omega
  · rw [dbl_hi _ _ (by omega) ha, dbl_hi _ _ (by omega) hb]; split <;> split <;> omega

theorem luhn_vchecksum_run (n : Nat) (vals : List Nat) :
    Luhn.vchecksum n vals = run (Luhn.vstep n) 0 0 vals.reverse := by
  unfold Luhn.vchecksum; rw [run_eq_foldl_zipIdx]

theorem luhn_step_lt (n i s v : Nat) (hn : 0 < n) : Luhn.vstep n i s v < n := Nat.mod_lt _ hn

theorem luhn_step_inj_state (n : Nat) (i a s t : Nat) (hs : s < n) (ht : t < n)
    (h : Luhn.vstep n i s a = Luhn.vstep n i t a) : s = t :=
  add_mod_inj_left n s t _ hs ht h

theorem luhn_weight_lt (k i v : Nat) (hv : v < 2 * k) : Luhn.weight (2 * k) i v < 2 * k := by
  unfold Luhn.weight; split
  · exact hv
  · exact dbl_lt k v hv

theorem luhn_step_inj_letter (k : Nat) (i s a b : Nat) (ha : a < 2 * k) (hb : b < 2 * k)
    (h : Luhn.vstep (2 * k) i s a = Luhn.vstep (2 * k) i s b) : a = b := by
  have := add_mod_inj_right (2 * k) s _ _ (luhn_weight_lt k i a ha) (luhn_weight_lt k i b hb) h
  unfold Luhn.weight at this
  split at this
  · exact this
  · exact dbl_inj k a b ha hb this

/-- additivity: the Luhn state machine started in `s` ends in `s +` (result when started in `0`) -/
theorem luhn_run_add (n : Nat) (l : List Nat) : ∀ (i s : Nat), s < n →
    run (Luhn.vstep n) i s l = (s + run (Luhn.vstep n) i 0 l) % n := by
  induction l with
  | nil => intro i s hs; simp [Nat.mod_eq_of_lt hs]
  | cons v l ih =>
    intro i s hs
    have hn : 0 < n := by omega
    simp only [run_cons]
    rw [ih (i + 1) _ (luhn_step_lt n i s v hn), ih (i + 1) (Luhn.vstep n i 0 v) (luhn_step_lt n i 0 v hn)]
    simp only [Luhn.vstep, Nat.zero_add, Nat.mod_add_mod, Nat.add_mod_mod, Nat.add_assoc]

/-- value of the check character: `alphabet[-ck]` -/
theorem luhn_append_val (n : Nat) (vals : List Nat) (d : Nat) (hn : 0 < n) (hd : d < n) :
    Luhn.vchecksum n (vals ++ [d]) = (d + Luhn.vchecksum n (vals ++ [0])) % n := by
  simp only [luhn_vchecksum_run, List.reverse_append, List.reverse_cons, List.reverse_nil, List.nil_append,
    List.cons_append, run_cons]
  have e : ∀ x, x < n → Luhn.vstep n 0 0 x = x := by
    intro x hx; simp [Luhn.vstep, Luhn.weight, Nat.mod_eq_of_lt hx]
  rw [e d hd, e 0 hn, luhn_run_add n _ 1 d hd]

/-- string level = value level, for every word over the alphabet -/
theorem luhn_validate_eq (alphabet w : Str) (hne : w ≠ []) (hw : ∀ c ∈ w, c ∈ alphabet) :
    Luhn.validate w alphabet =
      if Luhn.vchecksum alphabet.length (w.map (alphabet.idxOf ·)) = 0 then .ok w
      else .error .invalidChecksum := by
  have hal : alphabet ≠ [] := by
    cases w with
    | nil => exact absurd rfl hne
    | cons c w => exact List.ne_nil_of_mem (hw c List.mem_cons_self)
  unfold Luhn.validate
  rw [if_neg (by simpa using hne), validateBody_of_ok _ _ _ _ (Luhn.checksum_eq alphabet w hal hw)]

theorem luhn_calc_eq (alphabet p : Str) (hnd : alphabet.Nodup) (hal : alphabet ≠ [])
    (hp : ∀ c ∈ p, c ∈ alphabet) :
    ∃ c, Luhn.calc_check_digit p alphabet = .ok [c] ∧ c ∈ alphabet ∧
      (alphabet.idxOf c + Luhn.vchecksum alphabet.length (p.map (alphabet.idxOf ·) ++ [0])) % alphabet.length
        = 0 := by
  have hn : 0 < alphabet.length := List.length_pos_iff.mpr hal
  have h0 : alphabet[0] ∈ alphabet := List.getElem_mem hn
  have hp0 : ∀ c ∈ p ++ [alphabet[0]], c ∈ alphabet := by
    intro c hc
    rcases List.mem_append.mp hc with h | h
    · exact hp c h
    · rw [List.mem_singleton.mp h]; exact h0
  unfold Luhn.calc_check_digit
  rw [getItem_eq alphabet 0 hn, ok_bind, Luhn.checksum_eq alphabet _ hal hp0, ok_bind]
  simp only [List.map_append, List.map_cons, List.map_nil, idxOf_getElem hnd 0 hn]
  generalize hck : Luhn.vchecksum alphabet.length (p.map (alphabet.idxOf ·) ++ [0]) = ck
  have hlt : ck < alphabet.length := by
    rw [← hck, luhn_vchecksum_run]
    simp only [List.reverse_append, List.reverse_cons, List.reverse_nil, List.nil_append, List.cons_append,
      run_cons]
    rw [luhn_run_add _ _ _ _ (luhn_step_lt _ _ _ _ hn)]
    exact Nat.mod_lt _ hn
  unfold getNeg
  by_cases hz : ck = 0
  · rw [if_pos hz, getItem_eq alphabet 0 hn]
    refine ⟨_, rfl, h0, ?_⟩
    rw [idxOf_getElem hnd 0 hn, hz]; simp
  · rw [if_neg hz, if_pos (by omega), getItem_eq alphabet (alphabet.length - ck) (by omega)]
    refine ⟨_, rfl, List.getElem_mem _, ?_⟩
    rw [idxOf_getElem hnd _ (by omega)]
    have : alphabet.length - ck + ck = alphabet.length := by omega
    rw [this, Nat.mod_self]

/-- **Luhn, append-valid**: for every alphabet without repeated characters and every payload over it,
appending the generated check character gives a valid number. -/
theorem luhn_append_valid (alphabet p : Str) (hnd : alphabet.Nodup) (hal : alphabet ≠ [])
    (hp : ∀ c ∈ p, c ∈ alphabet) :
    ∃ c, Luhn.calc_check_digit p alphabet = .ok [c] ∧
      Luhn.validate (p ++ [c]) alphabet = .ok (p ++ [c]) := by
  obtain ⟨c, hc, hmem, hval⟩ := luhn_calc_eq alphabet p hnd hal hp
  have hn : 0 < alphabet.length := List.length_pos_iff.mpr hal
  refine ⟨c, hc, ?_⟩
  rw [luhn_validate_eq alphabet _ (by simp) (by
    intro x hx
    rcases List.mem_append.mp hx with h | h
    · exact hp x h
    · rw [List.mem_singleton.mp h]; exact hmem)]
  simp only [List.map_append, List.map_cons, List.map_nil]
  rw [luhn_append_val _ _ _ hn (idxOf_lt hmem), hval, if_pos rfl]

/-- **Luhn, uniqueness**: no other character of the alphabet is accepted as check character. -/
theorem luhn_check_unique (alphabet p : Str) (c : Nat) (hnd : alphabet.Nodup)
    (hp : ∀ x ∈ p, x ∈ alphabet) (hc : c ∈ alphabet) :
    isOk (Luhn.validate (p ++ [c]) alphabet) = true ↔ Luhn.calc_check_digit p alphabet = .ok [c] := by
  have hal : alphabet ≠ [] := List.ne_nil_of_mem hc
  have hn : 0 < alphabet.length := List.length_pos_iff.mpr hal
  obtain ⟨d, hd, hmem, hval⟩ := luhn_calc_eq alphabet p hnd hal hp
  rw [luhn_validate_eq alphabet _ (by simp) (by
    intro x hx
    rcases List.mem_append.mp hx with h | h
    · exact hp x h
    · rw [List.mem_singleton.mp h]; exact hc), hd]
  simp only [List.map_append, List.map_cons, List.map_nil]
  rw [luhn_append_val _ _ _ hn (idxOf_lt hc)]
  constructor
  · intro h
    split at h
    · rename_i h0
      have h1 := h0.trans hval.symm
      rw [Nat.add_comm, Nat.add_comm (alphabet.idxOf d)] at h1
      have := add_mod_inj_right _ _ _ _ (idxOf_lt hc) (idxOf_lt hmem) h1
      rw [idxOf_inj hc hmem this]
    · simp [isOk] at h
  · intro h
    have : d = c := by simpa using h
    subst this
    rw [hval]; rfl

theorem luhn_v_subst (n : Nat) (hev : n % 2 = 0) (u v : List Nat) (a b : Nat)
    (hu : ∀ x ∈ u, x < n) (hv : ∀ x ∈ v, x < n) (ha : a < n) (hb : b < n) (hab : a ≠ b) :
    Luhn.vchecksum n (u ++ a :: v) ≠ Luhn.vchecksum n (u ++ b :: v) := by
  obtain ⟨k, rfl⟩ : ∃ k, n = 2 * k := ⟨n / 2, by omega⟩
  simp only [luhn_vchecksum_run, List.reverse_append, List.reverse_cons, List.append_assoc,
    List.cons_append, List.nil_append]
  exact detects_subst (Luhn.vstep (2 * k)) (· < 2 * k) (· < 2 * k)
    (fun i s a _ _ => luhn_step_lt _ i s a (by omega))
    (fun i a s t hs ht _ h => luhn_step_inj_state _ i a s t hs ht h)
    (fun i s a b _ ha hb h => luhn_step_inj_letter k i s a b ha hb h)
    v.reverse u.reverse a b (fun x hx => hv x (List.mem_reverse.mp hx))
    (fun x hx => hu x (List.mem_reverse.mp hx)) ha hb hab 0 0 (by omega)

theorem luhn_v_swap_iff (n : Nat) (hev : n % 2 = 0) (u v : List Nat) (a b : Nat)
    (hu : ∀ x ∈ u, x < n) (hv : ∀ x ∈ v, x < n) (ha : a < n) (hb : b < n) (hab : a ≠ b) :
    Luhn.vchecksum n (u ++ a :: b :: v) = Luhn.vchecksum n (u ++ b :: a :: v) ↔
      (a = 0 ∧ b = n - 1) ∨ (a = n - 1 ∧ b = 0) := by
  obtain ⟨k, rfl⟩ : ∃ k, n = 2 * k := ⟨n / 2, by omega⟩
  simp only [luhn_vchecksum_run, List.reverse_append, List.reverse_cons, List.append_assoc,
    List.cons_append, List.nil_append]
  rw [swap_iff (Luhn.vstep (2 * k)) (· < 2 * k) (· < 2 * k)
    (fun i s a _ _ => luhn_step_lt _ i s a (by omega))
    (fun i a s t hs ht _ h => luhn_step_inj_state _ i a s t hs ht h)
    v.reverse u.reverse b a (fun x hx => hv x (List.mem_reverse.mp hx))
    (fun x hx => hu x (List.mem_reverse.mp hx)) hb ha 0 0 (by omega)]
  generalize run (Luhn.vstep (2 * k)) 0 0 v.reverse = s
  generalize 0 + v.reverse.length = j
  simp only [Luhn.vstep, Nat.mod_add_mod, Nat.add_assoc]
  rw [add_mod_cancel_iff _ _ _ _ (by omega)]
  unfold Luhn.weight
  by_cases hj : j % 2 = 0
  · have hj1 : ¬ ((j + 1) % 2 = 0) := by omega
    simp only [hj, hj1, if_true, if_false]
    rw [luhn_collide k b a hb ha (Ne.symm hab)]
    omega
  · have hj1 : (j + 1) % 2 = 0 := by omega
    simp only [hj, hj1, if_true, if_false]
    rw [Nat.add_comm _ a, Nat.add_comm _ b, luhn_collide k a b ha hb hab]

/-- **Luhn, single substitution** (every even alphabet size): replacing one character of a valid number
by a different character of the alphabet makes it invalid. -/
theorem luhn_subst_detected (alphabet u v : Str) (a b : Nat)
    (hev : alphabet.length % 2 = 0) (hw : ∀ c ∈ u ++ a :: v, c ∈ alphabet) (hb : b ∈ alphabet) (hab : a ≠ b)
    (hvalid : isOk (Luhn.validate (u ++ a :: v) alphabet) = true) :
    Luhn.validate (u ++ b :: v) alphabet = .error .invalidChecksum := by
  obtain ⟨hu, ha, hv⟩ := mem_split hw
  have hw' : ∀ c ∈ u ++ b :: v, c ∈ alphabet := by
    intro c hc
    simp only [List.mem_append, List.mem_cons] at hc
    rcases hc with h | h | h
    · exact hu c h
    · exact h ▸ hb
    · exact hv c h
  rw [luhn_validate_eq alphabet _ (by simp) hw] at hvalid
  rw [luhn_validate_eq alphabet _ (by simp) hw']
  split at hvalid
  · rename_i h0
    rw [if_neg]
    intro h1
    simp only [List.map_append, List.map_cons] at h0 h1
    exact luhn_v_subst _ hev _ _ _ _ (map_idx_lt hu) (map_idx_lt hv) (idxOf_lt ha) (idxOf_lt hb)
      (fun h => hab (idxOf_inj ha hb h)) (h0.trans h1.symm)
  · simp [isOk] at hvalid

/-- **Luhn, adjacent transposition** (every even alphabet size `n ≥ 2`): swapping two adjacent different
characters of a valid number goes undetected **iff** the two characters are the first and the last
symbol of the alphabet (`0`/`9` for the decimal alphabet); every other swap is rejected. -/
theorem luhn_swap_undetected_iff (alphabet u v : Str) (a b : Nat) (hnd : alphabet.Nodup)
    (hev : alphabet.length % 2 = 0) (hw : ∀ c ∈ u ++ a :: b :: v, c ∈ alphabet) (hab : a ≠ b)
    (hvalid : isOk (Luhn.validate (u ++ a :: b :: v) alphabet) = true) :
    Luhn.validate (u ++ b :: a :: v) alphabet =
      (if (alphabet[0]? = some a ∧ alphabet[alphabet.length - 1]? = some b) ∨
          (alphabet[alphabet.length - 1]? = some a ∧ alphabet[0]? = some b)
       then .ok (u ++ b :: a :: v) else .error .invalidChecksum) := by
  obtain ⟨hu, ha, hbv⟩ := mem_split hw
  have hb : b ∈ alphabet := hbv b List.mem_cons_self
  have hv : ∀ c ∈ v, c ∈ alphabet := fun c hc => hbv c (List.mem_cons_of_mem _ hc)
  have hw' : ∀ c ∈ u ++ b :: a :: v, c ∈ alphabet := by
    intro c hc
    simp only [List.mem_append, List.mem_cons] at hc
    rcases hc with h | h | h | h
    · exact hu c h
    · exact h ▸ hb
    · exact h ▸ ha
    · exact hv c h
  rw [luhn_validate_eq alphabet _ (by simp) hw] at hvalid
  rw [luhn_validate_eq alphabet _ (by simp) hw']
  split at hvalid
  · rename_i h0
    have key := luhn_v_swap_iff _ hev (u.map (alphabet.idxOf ·)) (v.map (alphabet.idxOf ·))
      (alphabet.idxOf a) (alphabet.idxOf b) (map_idx_lt hu) (map_idx_lt hv)
      (idxOf_lt ha) (idxOf_lt hb) (fun h => hab (idxOf_inj ha hb h))
    simp only [List.map_append, List.map_cons] at h0 ⊢
    rw [h0, idxOf_eq_iff hnd ha, idxOf_eq_iff hnd hb, idxOf_eq_iff hnd ha, idxOf_eq_iff hnd hb] at key
    by_cases hc : Luhn.vchecksum alphabet.length (List.map (alphabet.idxOf ·) u ++
        alphabet.idxOf b :: alphabet.idxOf a :: List.map (alphabet.idxOf ·) v) = 0
    · rw [if_pos hc, if_pos (key.mp hc.symm)]
    · rw [if_neg hc, if_neg (fun h => hc (key.mpr h).symm)]
  · simp [isOk] at hvalid

/-! ## Verhoeff -/

/-! table facts (all by kernel evaluation of the tables in `Spec/Checksum.lean`) -/
theorem vh_mul_inj_left : ∀ j < 10, ∀ s < 10, ∀ t < 10,
    tbl2 verhoeffMul s j = tbl2 verhoeffMul t j → s = t := by decide +kernel
theorem vh_mul_inj_right : ∀ s < 10, ∀ x < 10, ∀ y < 10,
    tbl2 verhoeffMul s x = tbl2 verhoeffMul s y → x = y := by decide +kernel
theorem vh_perm_inj : ∀ i < 8, ∀ a < 10, ∀ b < 10,
    tbl2 verhoeffPerm i a = tbl2 verhoeffPerm i b → a = b := by decide +kernel
theorem vh_anti : ∀ i < 8, ∀ s < 10, ∀ a < 10, ∀ b < 10,
    tbl2 verhoeffMul (tbl2 verhoeffMul s (tbl2 verhoeffPerm i a)) (tbl2 verhoeffPerm ((i + 1) % 8) b) =
    tbl2 verhoeffMul (tbl2 verhoeffMul s (tbl2 verhoeffPerm i b)) (tbl2 verhoeffPerm ((i + 1) % 8) a) →
    a = b := by
  decide +kernel
theorem vh_assoc : ∀ s < 10, ∀ x < 10, ∀ y < 10,
    tbl2 verhoeffMul (tbl2 verhoeffMul s x) y = tbl2 verhoeffMul s (tbl2 verhoeffMul x y) := by
  decide +kernel
theorem vh_unit : ∀ x < 10, tbl2 verhoeffMul 0 x = x ∧ tbl2 verhoeffMul x 0 = x ∧
    tbl2 verhoeffPerm 0 x = x := by decide +kernel
/-- `_multiplication_table[c].index(0)` is the two-sided inverse of `c` -/
theorem vh_inverse : ∀ c < 10, (verhoeffMul.getD c []).idxOf 0 < 10 ∧
    tbl2 verhoeffMul ((verhoeffMul.getD c []).idxOf 0) c = 0 := by decide +kernel

theorem dm_inj_left : ∀ j < 10, ∀ s < 10, ∀ t < 10,
    tbl2 dammTable s j = tbl2 dammTable t j → s = t := by decide +kernel
theorem dm_inj_right : ∀ s < 10, ∀ x < 10, ∀ y < 10,
    tbl2 dammTable s x = tbl2 dammTable s y → x = y := by decide +kernel
theorem dm_anti : ∀ s < 10, ∀ a < 10, ∀ b < 10,
    tbl2 dammTable (tbl2 dammTable s a) b = tbl2 dammTable (tbl2 dammTable s b) a → a = b := by
  decide +kernel
theorem dm_diag : ∀ c < 10, tbl2 dammTable c c = 0 := by decide +kernel

/-! digits -/
theorem digit_bounds {c : Nat} (hc : isAsciiDigit c = true) : 48 ≤ c ∧ c ≤ 57 := by
  simpa [isAsciiDigit] using hc

theorem digit_of_lt (j : Nat) (hj : j < 10) : isAsciiDigit (48 + j) = true := by
  simp [isAsciiDigit]; omega

theorem dec_spec {dec : Nat → Option Nat} (hdec : DecExtends dec) {w : Str} (hw : AllIn isAsciiDigit w) :
    ∀ c ∈ w, dec c = some (c - 48) ∧ c - 48 < 10 := by
  intro c hc
  have := digit_bounds (hw c hc)
  exact ⟨hdec c (hw c hc), by omega⟩

theorem map_digit_lt {w : Str} (hw : AllIn isAsciiDigit w) : ∀ x ∈ w.map (· - 48), x < 10 := by
  intro x hx
  obtain ⟨c, hc, rfl⟩ := List.mem_map.mp hx
  have := digit_bounds (hw c hc)
  omega

theorem allIn_append {p : Nat → Bool} {u v : Str} (hu : AllIn p u) (hv : AllIn p v) : AllIn p (u ++ v) := by
  intro c hc
  rcases List.mem_append.mp hc with h | h
  · exact hu c h
  · exact hv c h

theorem allIn_cons {p : Nat → Bool} {a : Nat} {v : Str} (ha : p a = true) (hv : AllIn p v) :
    AllIn p (a :: v) := by
  intro c hc
  rcases List.mem_cons.mp hc with h | h
  · exact h ▸ ha
  · exact hv c h

theorem allIn_split {p : Nat → Bool} {u v : Str} {a : Nat} (h : AllIn p (u ++ a :: v)) :
    AllIn p u ∧ p a = true ∧ AllIn p v := mem_split h

theorem vh_vchecksum_run (vals : List Nat) :
    Verhoeff.vchecksum vals = run Verhoeff.vstep 0 0 vals.reverse := by
  unfold Verhoeff.vchecksum; rw [run_eq_foldl_zipIdx]

theorem vh_step_inj_state (i a s t : Nat) (hs : s < 10) (ht : t < 10) (ha : a < 10)
    (h : Verhoeff.vstep i s a = Verhoeff.vstep i t a) : s = t :=
  vh_mul_inj_left _ (verhoeffPerm_lt (i % 8) (Nat.mod_lt _ (by decide)) a ha) s hs t ht h

theorem vh_step_inj_letter (i s a b : Nat) (hs : s < 10) (ha : a < 10) (hb : b < 10)
    (h : Verhoeff.vstep i s a = Verhoeff.vstep i s b) : a = b := by
  have hi : i % 8 < 8 := Nat.mod_lt _ (by decide)
  exact vh_perm_inj _ hi a ha b hb
    (vh_mul_inj_right s hs _ (verhoeffPerm_lt _ hi a ha) _ (verhoeffPerm_lt _ hi b hb) h)

theorem vh_step_anti (i s a b : Nat) (hs : s < 10) (ha : a < 10) (hb : b < 10) (hab : a ≠ b) :
    Verhoeff.vstep (i + 1) (Verhoeff.vstep i s a) b ≠ Verhoeff.vstep (i + 1) (Verhoeff.vstep i s b) a := by
  intro h
  have e : (i + 1) % 8 = (i % 8 + 1) % 8 := by omega
  unfold Verhoeff.vstep at h
  rw [e] at h
  exact hab (vh_anti (i % 8) (Nat.mod_lt _ (by decide)) s hs a ha b hb h)

/-- the Verhoeff state machine is a right action of the dihedral group: started in `s` it ends in
`s * (result when started in 0)` -/
theorem vh_run_mul (l : List Nat) : ∀ (i s : Nat), s < 10 → (∀ v ∈ l, v < 10) →
    run Verhoeff.vstep i s l = tbl2 verhoeffMul s (run Verhoeff.vstep i 0 l) := by
  induction l with
  | nil => intro i s hs _; simp [(vh_unit s hs).2.1]
  | cons v l ih =>
    intro i s hs hl
    have hv : v < 10 := hl v List.mem_cons_self
    have hl' : ∀ x ∈ l, x < 10 := fun x hx => hl x (List.mem_cons_of_mem _ hx)
    have hp : tbl2 verhoeffPerm (i % 8) v < 10 := verhoeffPerm_lt _ (Nat.mod_lt _ (by decide)) v hv
    simp only [run_cons]
    rw [ih (i + 1) _ (Verhoeff.vstep_lt i s v hs hv) hl',
      ih (i + 1) (Verhoeff.vstep i 0 v) (Verhoeff.vstep_lt i 0 v (by decide) hv) hl']
    have hr : run Verhoeff.vstep (i + 1) 0 l < 10 :=
      run_inv Verhoeff.vstep (· < 10) (· < 10) (fun i s a hs ha => Verhoeff.vstep_lt i s a hs ha)
        l (i + 1) 0 hl' (by decide)
    generalize run Verhoeff.vstep (i + 1) 0 l = r at hr ⊢
    unfold Verhoeff.vstep
    rw [(vh_unit _ hp).1, vh_assoc s hs _ hp _ hr]

theorem vh_validate_eq (dec : Nat → Option Nat) (hdec : DecExtends dec) (w : Str) (hne : w ≠ [])
    (hw : AllIn isAsciiDigit w) :
    Verhoeff.validate dec w =
      if Verhoeff.vchecksum (w.map (· - 48)) = 0 then .ok w else .error .invalidChecksum := by
  unfold Verhoeff.validate
  rw [if_neg (by simpa using hne),
    validateBody_of_ok _ _ _ _ (Verhoeff.checksum_eq dec (· - 48) w (dec_spec hdec hw))]

/-- value of `vchecksum (vals ++ [d])` -/
theorem vh_append_val (vals : List Nat) (d : Nat) (hvals : ∀ x ∈ vals, x < 10) (hd : d < 10) :
    Verhoeff.vchecksum (vals ++ [d]) = tbl2 verhoeffMul d (Verhoeff.vchecksum (vals ++ [0])) := by
  simp only [vh_vchecksum_run, List.reverse_append, List.reverse_cons, List.reverse_nil, List.nil_append,
    List.cons_append, run_cons]
  have e : ∀ x, x < 10 → Verhoeff.vstep 0 0 x = x := by
    intro x hx
    unfold Verhoeff.vstep
    rw [(vh_unit x hx).2.2, (vh_unit x hx).1]
  rw [e d hd, e 0 (by decide), vh_run_mul _ 1 d hd (fun x hx => hvals x (List.mem_reverse.mp hx))]

theorem vh_calc_eq (dec : Nat → Option Nat) (hdec : DecExtends dec) (p : Str) (hp : AllIn isAsciiDigit p) :
    ∃ j, j < 10 ∧ Verhoeff.calc_check_digit dec p = .ok [48 + j] ∧
      tbl2 verhoeffMul j (Verhoeff.vchecksum (p.map (· - 48) ++ [0])) = 0 := by
  have hp0 : AllIn isAsciiDigit (p ++ [48]) := allIn_append hp (allIn_cons (by decide) (fun _ h => by simp at h))
  unfold Verhoeff.calc_check_digit
  rw [Verhoeff.checksum_eq dec (· - 48) _ (dec_spec hdec hp0), ok_bind]
  simp only [List.map_append, List.map_cons, List.map_nil, Nat.sub_self]
  generalize hck : Verhoeff.vchecksum (p.map (· - 48) ++ [0]) = ck
  have hlt : ck < 10 := by
    rw [← hck, vh_vchecksum_run]
    apply run_inv Verhoeff.vstep (· < 10) (· < 10) (fun i s a hs ha => Verhoeff.vstep_lt i s a hs ha)
    · intro x hx
      rw [List.mem_reverse, List.mem_append] at hx
      rcases hx with h | h
      · exact map_digit_lt hp x h
      · rw [List.mem_singleton.mp h]; decide
    · decide
  obtain ⟨h1, h2⟩ := vh_inverse ck hlt
  rw [getItem_ok verhoeffMul ck [] (by simpa [verhoeffMul] using hlt), ok_bind,
    index_ok _ 0 (List.idxOf_lt_length_iff.mp (by rw [verhoeffMul_row _ hlt]; exact h1)), ok_bind]
  exact ⟨_, h1, by rw [natToStr_lt10 _ h1]; rfl, h2⟩

/-- **Verhoeff, append-valid** -/
theorem verhoeff_append_valid (dec : Nat → Option Nat) (hdec : DecExtends dec) (p : Str)
    (hp : AllIn isAsciiDigit p) :
    ∃ c, Verhoeff.calc_check_digit dec p = .ok [c] ∧ isAsciiDigit c = true ∧
      Verhoeff.validate dec (p ++ [c]) = .ok (p ++ [c]) := by
  obtain ⟨j, hj, hcalc, hz⟩ := vh_calc_eq dec hdec p hp
  refine ⟨48 + j, hcalc, digit_of_lt j hj, ?_⟩
  rw [vh_validate_eq dec hdec _ (by simp)
    (allIn_append hp (allIn_cons (digit_of_lt j hj) (fun _ h => by simp at h)))]
  simp only [List.map_append, List.map_cons, List.map_nil, Nat.add_sub_cancel_left]
  rw [vh_append_val _ _ (map_digit_lt hp) hj, hz, if_pos rfl]

/-- **Verhoeff, uniqueness** of the check digit -/
theorem verhoeff_check_unique (dec : Nat → Option Nat) (hdec : DecExtends dec) (p : Str) (c : Nat)
    (hp : AllIn isAsciiDigit p) (hc : isAsciiDigit c = true) :
    isOk (Verhoeff.validate dec (p ++ [c])) = true ↔ Verhoeff.calc_check_digit dec p = .ok [c] := by
  obtain ⟨j, hj, hcalc, hz⟩ := vh_calc_eq dec hdec p hp
  have hcb := digit_bounds hc
  rw [vh_validate_eq dec hdec _ (by simp) (allIn_append hp (allIn_cons hc (fun _ h => by simp at h))), hcalc]
  simp only [List.map_append, List.map_cons, List.map_nil]
  rw [vh_append_val _ _ (map_digit_lt hp) (by omega)]
  have hck : Verhoeff.vchecksum (p.map (· - 48) ++ [0]) < 10 := by
    rw [vh_vchecksum_run]
    apply run_inv Verhoeff.vstep (· < 10) (· < 10) (fun i s a hs ha => Verhoeff.vstep_lt i s a hs ha)
    · intro x hx
      rw [List.mem_reverse, List.mem_append] at hx
      rcases hx with h | h
      · exact map_digit_lt hp x h
      · rw [List.mem_singleton.mp h]; decide
    · decide
  constructor
  · intro h
    split at h
    · rename_i h0
      have := vh_mul_inj_left _ hck (c - 48) (by omega) j hj (h0.trans hz.symm)
      have : c = 48 + j := by omega
      rw [this]
    · simp [isOk] at h
  · intro h
    have : 48 + j = c := by simpa using h
    subst this
    rw [Nat.add_sub_cancel_left, hz]; rfl

theorem vh_v_subst (u v : List Nat) (a b : Nat) (hu : ∀ x ∈ u, x < 10) (hv : ∀ x ∈ v, x < 10)
    (ha : a < 10) (hb : b < 10) (hab : a ≠ b) :
    Verhoeff.vchecksum (u ++ a :: v) ≠ Verhoeff.vchecksum (u ++ b :: v) := by
  simp only [vh_vchecksum_run, List.reverse_append, List.reverse_cons, List.append_assoc,
    List.cons_append, List.nil_append]
  exact detects_subst Verhoeff.vstep (· < 10) (· < 10)
    (fun i s a hs ha => Verhoeff.vstep_lt i s a hs ha)
    (fun i a s t hs ht ha h => vh_step_inj_state i a s t hs ht ha h)
    (fun i s a b hs ha hb h => vh_step_inj_letter i s a b hs ha hb h)
    v.reverse u.reverse a b (fun x hx => hv x (List.mem_reverse.mp hx))
    (fun x hx => hu x (List.mem_reverse.mp hx)) ha hb hab 0 0 (by decide)

theorem vh_v_swap (u v : List Nat) (a b : Nat) (hu : ∀ x ∈ u, x < 10) (hv : ∀ x ∈ v, x < 10)
    (ha : a < 10) (hb : b < 10) (hab : a ≠ b) :
    Verhoeff.vchecksum (u ++ a :: b :: v) ≠ Verhoeff.vchecksum (u ++ b :: a :: v) := by
  simp only [vh_vchecksum_run, List.reverse_append, List.reverse_cons, List.append_assoc,
    List.cons_append, List.nil_append]
  exact detects_swap Verhoeff.vstep (· < 10) (· < 10)
    (fun i s a hs ha => Verhoeff.vstep_lt i s a hs ha)
    (fun i a s t hs ht ha h => vh_step_inj_state i a s t hs ht ha h)
    (fun i s a b hs ha hb hab => vh_step_anti i s a b hs ha hb hab)
    v.reverse u.reverse b a (fun x hx => hv x (List.mem_reverse.mp hx))
    (fun x hx => hu x (List.mem_reverse.mp hx)) hb ha (Ne.symm hab) 0 0 (by decide)

theorem digit_sub_ne {a b : Nat} (ha : isAsciiDigit a = true) (hb : isAsciiDigit b = true) (hab : a ≠ b) :
    a - 48 ≠ b - 48 := by
  have := digit_bounds ha; have := digit_bounds hb; omega

/-- **Verhoeff, single substitution** -/
theorem verhoeff_subst_detected (dec : Nat → Option Nat) (hdec : DecExtends dec) (u v : Str) (a b : Nat)
    (hw : AllIn isAsciiDigit (u ++ a :: v)) (hb : isAsciiDigit b = true) (hab : a ≠ b)
    (hvalid : isOk (Verhoeff.validate dec (u ++ a :: v)) = true) :
    Verhoeff.validate dec (u ++ b :: v) = .error .invalidChecksum := by
  obtain ⟨hu, ha, hv⟩ := allIn_split hw
  rw [vh_validate_eq dec hdec _ (by simp) hw] at hvalid
  rw [vh_validate_eq dec hdec _ (by simp) (allIn_append hu (allIn_cons hb hv))]
  split at hvalid
  · rename_i h0
    rw [if_neg]
    intro h1
    simp only [List.map_append, List.map_cons] at h0 h1
    have := digit_bounds ha; have := digit_bounds hb
    exact vh_v_subst _ _ _ _ (map_digit_lt hu) (map_digit_lt hv) (by omega) (by omega)
      (digit_sub_ne ha hb hab) (h0.trans h1.symm)
  · simp [isOk] at hvalid

/-- **Verhoeff, adjacent transposition** -/
theorem verhoeff_swap_detected (dec : Nat → Option Nat) (hdec : DecExtends dec) (u v : Str) (a b : Nat)
    (hw : AllIn isAsciiDigit (u ++ a :: b :: v)) (hab : a ≠ b)
    (hvalid : isOk (Verhoeff.validate dec (u ++ a :: b :: v)) = true) :
    Verhoeff.validate dec (u ++ b :: a :: v) = .error .invalidChecksum := by
  obtain ⟨hu, ha, hbv⟩ := allIn_split hw
  have hb : isAsciiDigit b = true := hbv b List.mem_cons_self
  have hv : AllIn isAsciiDigit v := fun c hc => hbv c (List.mem_cons_of_mem _ hc)
  rw [vh_validate_eq dec hdec _ (by simp) hw] at hvalid
  rw [vh_validate_eq dec hdec _ (by simp) (allIn_append hu (allIn_cons hb (allIn_cons ha hv)))]
  split at hvalid
  · rename_i h0
    rw [if_neg]
    intro h1
    simp only [List.map_append, List.map_cons] at h0 h1
    have := digit_bounds ha; have := digit_bounds hb
    exact vh_v_swap _ _ _ _ (map_digit_lt hu) (map_digit_lt hv) (by omega) (by omega)
      (digit_sub_ne ha hb hab) (h0.trans h1.symm)
  · simp [isOk] at hvalid

/-! ## Damm (default table) -/

theorem dm_validate_eq (dec : Nat → Option Nat) (hdec : DecExtends dec) (w : Str) (hne : w ≠ [])
    (hw : AllIn isAsciiDigit w) :
    Damm.validate dec w none =
      if Damm.vchecksum (w.map (· - 48)) = 0 then .ok w else .error .invalidChecksum := by
  unfold Damm.validate
  rw [if_neg (by simpa using hne),
    validateBody_of_ok _ _ _ _ (Damm.checksum_eq dec (· - 48) w (dec_spec hdec hw))]

theorem dm_step_lt (s v : Nat) (hs : s < 10) (hv : v < 10) : Damm.vstep s v < 10 := dammTable_lt s hs v hv

theorem dm_vchecksum_lt (vals : List Nat) (h : ∀ x ∈ vals, x < 10) : Damm.vchecksum vals < 10 := by
  unfold Damm.vchecksum
  rw [← run_const Damm.vstep vals 0 0]
  exact run_inv (fun _ => Damm.vstep) (· < 10) (· < 10) (fun _ s a hs ha => dm_step_lt s a hs ha)
    vals 0 0 h (by decide)

theorem dm_calc_eq (dec : Nat → Option Nat) (hdec : DecExtends dec) (p : Str) (hp : AllIn isAsciiDigit p) :
    Damm.calc_check_digit dec p none = .ok [48 + Damm.vchecksum (p.map (· - 48))] := by
  unfold Damm.calc_check_digit
  rw [Damm.checksum_eq dec (· - 48) p (dec_spec hdec hp), ok_bind,
    natToStr_lt10 _ (dm_vchecksum_lt _ (map_digit_lt hp))]
  rfl

/-- **Damm, append-valid** -/
theorem damm_append_valid (dec : Nat → Option Nat) (hdec : DecExtends dec) (p : Str)
    (hp : AllIn isAsciiDigit p) :
    ∃ c, Damm.calc_check_digit dec p none = .ok [c] ∧ isAsciiDigit c = true ∧
      Damm.validate dec (p ++ [c]) none = .ok (p ++ [c]) := by
  have hlt := dm_vchecksum_lt _ (map_digit_lt hp)
  refine ⟨_, dm_calc_eq dec hdec p hp, digit_of_lt _ hlt, ?_⟩
  rw [dm_validate_eq dec hdec _ (by simp)
    (allIn_append hp (allIn_cons (digit_of_lt _ hlt) (fun _ h => by simp at h)))]
  simp only [List.map_append, List.map_cons, List.map_nil, Nat.add_sub_cancel_left]
  rw [if_pos]
  unfold Damm.vchecksum
  rw [List.foldl_append]
  exact dm_diag _ hlt

/-- **Damm, uniqueness** of the check digit -/
theorem damm_check_unique (dec : Nat → Option Nat) (hdec : DecExtends dec) (p : Str) (c : Nat)
    (hp : AllIn isAsciiDigit p) (hc : isAsciiDigit c = true) :
    isOk (Damm.validate dec (p ++ [c]) none) = true ↔ Damm.calc_check_digit dec p none = .ok [c] := by
  have hlt := dm_vchecksum_lt _ (map_digit_lt hp)
  have hcb := digit_bounds hc
  rw [dm_validate_eq dec hdec _ (by simp) (allIn_append hp (allIn_cons hc (fun _ h => by simp at h))),
    dm_calc_eq dec hdec p hp]
  simp only [List.map_append, List.map_cons, List.map_nil]
  have e : Damm.vchecksum (p.map (· - 48) ++ [c - 48]) =
      tbl2 dammTable (Damm.vchecksum (p.map (· - 48))) (c - 48) := by
    unfold Damm.vchecksum; rw [List.foldl_append]; rfl
  rw [e]
  constructor
  · intro h
    split at h
    · rename_i h0
      have := dm_inj_right _ hlt (c - 48) (by omega) _ hlt (h0.trans (dm_diag _ hlt).symm)
      have : c = 48 + Damm.vchecksum (p.map (· - 48)) := by omega
      rw [← this]
    · simp [isOk] at h
  · intro h
    have : 48 + Damm.vchecksum (p.map (· - 48)) = c := by simpa using h
    rw [← this, Nat.add_sub_cancel_left, dm_diag _ hlt]; rfl

theorem dm_v_subst (u v : List Nat) (a b : Nat) (hu : ∀ x ∈ u, x < 10) (hv : ∀ x ∈ v, x < 10)
    (ha : a < 10) (hb : b < 10) (hab : a ≠ b) :
    Damm.vchecksum (u ++ a :: v) ≠ Damm.vchecksum (u ++ b :: v) := by
  unfold Damm.vchecksum
  rw [← run_const Damm.vstep _ 0 0, ← run_const Damm.vstep _ 0 0]
  exact detects_subst (fun _ => Damm.vstep) (· < 10) (· < 10)
    (fun _ s a hs ha => dm_step_lt s a hs ha)
    (fun _ a s t hs ht ha h => dm_inj_left a ha s hs t ht h)
    (fun _ s a b hs ha hb h => dm_inj_right s hs a ha b hb h)
    u v a b hu hv ha hb hab 0 0 (by decide)

theorem dm_v_swap (u v : List Nat) (a b : Nat) (hu : ∀ x ∈ u, x < 10) (hv : ∀ x ∈ v, x < 10)
    (ha : a < 10) (hb : b < 10) (hab : a ≠ b) :
    Damm.vchecksum (u ++ a :: b :: v) ≠ Damm.vchecksum (u ++ b :: a :: v) := by
  unfold Damm.vchecksum
  rw [← run_const Damm.vstep _ 0 0, ← run_const Damm.vstep _ 0 0]
  exact detects_swap (fun _ => Damm.vstep) (· < 10) (· < 10)
    (fun _ s a hs ha => dm_step_lt s a hs ha)
    (fun _ a s t hs ht ha h => dm_inj_left a ha s hs t ht h)
    (fun _ s a b hs ha hb hab h => hab (dm_anti s hs a ha b hb h))
    u v a b hu hv ha hb hab 0 0 (by decide)

/-- **Damm, single substitution** -/
theorem damm_subst_detected (dec : Nat → Option Nat) (hdec : DecExtends dec) (u v : Str) (a b : Nat)
    (hw : AllIn isAsciiDigit (u ++ a :: v)) (hb : isAsciiDigit b = true) (hab : a ≠ b)
    (hvalid : isOk (Damm.validate dec (u ++ a :: v) none) = true) :
    Damm.validate dec (u ++ b :: v) none = .error .invalidChecksum := by
  obtain ⟨hu, ha, hv⟩ := allIn_split hw
  rw [dm_validate_eq dec hdec _ (by simp) hw] at hvalid
  rw [dm_validate_eq dec hdec _ (by simp) (allIn_append hu (allIn_cons hb hv))]
  split at hvalid
  · rename_i h0
    rw [if_neg]
    intro h1
    simp only [List.map_append, List.map_cons] at h0 h1
    have := digit_bounds ha; have := digit_bounds hb
    exact dm_v_subst _ _ _ _ (map_digit_lt hu) (map_digit_lt hv) (by omega) (by omega)
      (digit_sub_ne ha hb hab) (h0.trans h1.symm)
  · simp [isOk] at hvalid

/-- **Damm, adjacent transposition** -/
theorem damm_swap_detected (dec : Nat → Option Nat) (hdec : DecExtends dec) (u v : Str) (a b : Nat)
    (hw : AllIn isAsciiDigit (u ++ a :: b :: v)) (hab : a ≠ b)
    (hvalid : isOk (Damm.validate dec (u ++ a :: b :: v) none) = true) :
    Damm.validate dec (u ++ b :: a :: v) none = .error .invalidChecksum := by
  obtain ⟨hu, ha, hbv⟩ := allIn_split hw
  have hb : isAsciiDigit b = true := hbv b List.mem_cons_self
  have hv : AllIn isAsciiDigit v := fun c hc => hbv c (List.mem_cons_of_mem _ hc)
  rw [dm_validate_eq dec hdec _ (by simp) hw] at hvalid
  rw [dm_validate_eq dec hdec _ (by simp) (allIn_append hu (allIn_cons hb (allIn_cons ha hv)))]
  split at hvalid
  · rename_i h0
    rw [if_neg]
    intro h1
    simp only [List.map_append, List.map_cons] at h0 h1
    have := digit_bounds ha; have := digit_bounds hb
    exact dm_v_swap _ _ _ _ (map_digit_lt hu) (map_digit_lt hv) (by omega) (by omega)
      (digit_sub_ne ha hb hab) (h0.trans h1.symm)
  · simp [isOk] at hvalid

/-! ## ISO 7064 pure systems MOD M,2 (M odd): value level -/

theorem pure_step_lt (m s v : Nat) (hm : 0 < m) : pureStep m s v < m := Nat.mod_lt _ hm

theorem pure_inj_state (m : Nat) (hodd : m % 2 = 1) (s t v : Nat) (hs : s < m) (ht : t < m)
    (h : pureStep m s v = pureStep m t v) : s = t := by
  unfold pureStep at h
  rw [Nat.add_comm _ v, Nat.add_comm _ v, add_mod_cancel_iff m v _ _ (by omega),
    mod_two m _ (by omega), mod_two m _ (by omega)] at h
  split at h <;> split at h <;> omega

theorem pure_inj_letter (m s a b : Nat) (ha : a < m) (hb : b < m)
    (h : pureStep m s a = pureStep m s b) : a = b :=
  add_mod_inj_right m (2 * s) a b ha hb h

theorem mul_mod_add (m x b : Nat) : (2 * (x % m) + b) % m = (2 * x + b) % m := by
  rw [← Nat.mod_add_mod (2 * (x % m)) m b, Nat.mul_mod_mod, Nat.mod_add_mod]

theorem pure_anti (m s a b : Nat) (ha : a < m) (hb : b < m)
    (h : pureStep m (pureStep m s a) b = pureStep m (pureStep m s b) a) : a = b := by
  unfold pureStep at h
  rw [mul_mod_add, mul_mod_add] at h
  have e1 : 2 * (2 * s + a) + b = (4 * s + a + b) + a := by omega
  have e2 : 2 * (2 * s + b) + a = (4 * s + a + b) + b := by omega
  rw [e1, e2] at h
  exact add_mod_inj_right m _ a b ha hb h

theorem pure_checksum_lt (m : Nat) (hm : 0 < m) (vals : List Nat) : pureChecksum m vals < m := by
  unfold pureChecksum
  rw [← run_const (pureStep m) vals 0 0]
  exact run_inv (fun _ => pureStep m) (· < m) (fun _ => True) (fun _ s a _ _ => pure_step_lt m s a hm)
    vals 0 0 (fun _ _ => trivial) hm

theorem pure_append (m : Nat) (vals : List Nat) (d : Nat) :
    pureChecksum m (vals ++ [d]) = (2 * pureChecksum m vals + d) % m := by
  unfold pureChecksum; rw [List.foldl_append]; rfl

/-- the generated check value completes the checksum to 1 -/
theorem pure_check_val (m c : Nat) (hm : 2 ≤ m) (hc : c < m) :
    (2 * c + (1 + 2 * m - 2 * c) % m) % m = 1 := by
  rw [Nat.add_mod_mod]
  have e : 2 * c + (1 + 2 * m - 2 * c) = 1 + 2 * m := by omega
  rw [e, Nat.add_mul_mod_self_right, Nat.mod_eq_of_lt hm]

theorem pure_v_subst (m : Nat) (hodd : m % 2 = 1) (u v : List Nat) (a b : Nat)
    (hu : ∀ x ∈ u, x < m) (hv : ∀ x ∈ v, x < m) (ha : a < m) (hb : b < m) (hab : a ≠ b) :
    pureChecksum m (u ++ a :: v) ≠ pureChecksum m (u ++ b :: v) := by
  unfold pureChecksum
  rw [← run_const (pureStep m) _ 0 0, ← run_const (pureStep m) _ 0 0]
  exact detects_subst (fun _ => pureStep m) (· < m) (· < m)
    (fun _ s a _ _ => pure_step_lt m s a (by omega))
    (fun _ a s t hs ht _ h => pure_inj_state m hodd s t a hs ht h)
    (fun _ s a b _ ha hb h => pure_inj_letter m s a b ha hb h)
    u v a b hu hv ha hb hab 0 0 (by omega)

theorem pure_v_swap (m : Nat) (hodd : m % 2 = 1) (u v : List Nat) (a b : Nat)
    (hu : ∀ x ∈ u, x < m) (hv : ∀ x ∈ v, x < m) (ha : a < m) (hb : b < m) (hab : a ≠ b) :
    pureChecksum m (u ++ a :: b :: v) ≠ pureChecksum m (u ++ b :: a :: v) := by
  unfold pureChecksum
  rw [← run_const (pureStep m) _ 0 0, ← run_const (pureStep m) _ 0 0]
  exact detects_swap (fun _ => pureStep m) (· < m) (· < m)
    (fun _ s a _ _ => pure_step_lt m s a (by omega))
    (fun _ a s t hs ht _ h => pure_inj_state m hodd s t a hs ht h)
    (fun _ s a b _ ha hb hab h => hab (pure_anti m s a b ha hb h))
    u v a b hu hv ha hb hab 0 0 (by omega)

/-! ## mod_37_2 (any alphabet; the guarantees need an odd alphabet size, e.g. 37 or 11) -/

theorem m372_validate_eq (alphabet w : Str) (hw : ∀ c ∈ w, c ∈ alphabet) :
    Mod372.validate w alphabet =
      if pureChecksum alphabet.length (w.map (alphabet.idxOf ·)) = 1 then .ok w
      else .error .invalidChecksum := by
  unfold Mod372.validate
  rw [validateBody_of_ok _ _ _ _ (Mod372.checksum_eq alphabet w hw)]

theorem m372_calc_eq (alphabet p : Str) (hnd : alphabet.Nodup) (hm : 2 ≤ alphabet.length)
    (hp : ∀ c ∈ p, c ∈ alphabet) :
    ∃ c, Mod372.calc_check_digit p alphabet = .ok [c] ∧ c ∈ alphabet ∧
      (2 * pureChecksum alphabet.length (p.map (alphabet.idxOf ·)) + alphabet.idxOf c) % alphabet.length
        = 1 := by
  have hlt := pure_checksum_lt alphabet.length (by omega) (p.map (alphabet.idxOf ·))
  unfold Mod372.calc_check_digit
  rw [Mod372.checksum_eq alphabet p hp, ok_bind, if_neg (by omega)]
  have e : (2 * ((pureChecksum alphabet.length (p.map (alphabet.idxOf ·)) : Nat) : Int)) =
      ((2 * pureChecksum alphabet.length (p.map (alphabet.idxOf ·)) : Nat) : Int) := by
    rw [Int.natCast_mul]; rfl
  rw [e, pmod_one_sub _ _ (by omega)]
  have hd : (1 + 2 * alphabet.length - 2 * pureChecksum alphabet.length (p.map (alphabet.idxOf ·))) %
      alphabet.length < alphabet.length := Nat.mod_lt _ (by omega)
  rw [getItem_eq alphabet _ hd, ok_bind]
  refine ⟨_, rfl, List.getElem_mem _, ?_⟩
  rw [idxOf_getElem hnd _ hd]
  exact pure_check_val _ _ hm hlt

/-- **mod_37_2, append-valid** (every alphabet of at least two distinct characters) -/
theorem mod_37_2_append_valid (alphabet p : Str) (hnd : alphabet.Nodup) (hm : 2 ≤ alphabet.length)
    (hp : ∀ c ∈ p, c ∈ alphabet) :
    ∃ c, Mod372.calc_check_digit p alphabet = .ok [c] ∧
      Mod372.validate (p ++ [c]) alphabet = .ok (p ++ [c]) := by
  obtain ⟨c, hc, hmem, hval⟩ := m372_calc_eq alphabet p hnd hm hp
  refine ⟨c, hc, ?_⟩
  rw [m372_validate_eq alphabet _ (by
    intro x hx
    rcases List.mem_append.mp hx with h | h
    · exact hp x h
    · rw [List.mem_singleton.mp h]; exact hmem)]
  simp only [List.map_append, List.map_cons, List.map_nil]
  rw [pure_append, hval, if_pos rfl]

/-- **mod_37_2, uniqueness** of the check character -/
theorem mod_37_2_check_unique (alphabet p : Str) (c : Nat) (hnd : alphabet.Nodup)
    (hm : 2 ≤ alphabet.length) (hp : ∀ x ∈ p, x ∈ alphabet) (hc : c ∈ alphabet) :
    isOk (Mod372.validate (p ++ [c]) alphabet) = true ↔ Mod372.calc_check_digit p alphabet = .ok [c] := by
  obtain ⟨d, hd, hmem, hval⟩ := m372_calc_eq alphabet p hnd hm hp
  rw [m372_validate_eq alphabet _ (by
    intro x hx
    rcases List.mem_append.mp hx with h | h
    · exact hp x h
    · rw [List.mem_singleton.mp h]; exact hc), hd]
  simp only [List.map_append, List.map_cons, List.map_nil]
  rw [pure_append]
  constructor
  · intro h
    split at h
    · rename_i h0
      have := add_mod_inj_right _ _ _ _ (idxOf_lt hc) (idxOf_lt hmem) (h0.trans hval.symm)
      rw [idxOf_inj hc hmem this]
    · simp [isOk] at h
  · intro h
    have : d = c := by simpa using h
    subst this
    rw [hval]; rfl

/-- **mod_37_2, single substitution** (odd alphabet size) -/
theorem mod_37_2_subst_detected (alphabet u v : Str) (a b : Nat) (hodd : alphabet.length % 2 = 1)
    (hw : ∀ c ∈ u ++ a :: v, c ∈ alphabet) (hb : b ∈ alphabet) (hab : a ≠ b)
    (hvalid : isOk (Mod372.validate (u ++ a :: v) alphabet) = true) :
    Mod372.validate (u ++ b :: v) alphabet = .error .invalidChecksum := by
  obtain ⟨hu, ha, hv⟩ := mem_split hw
  have hw' : ∀ c ∈ u ++ b :: v, c ∈ alphabet := by
    intro c hc
    simp only [List.mem_append, List.mem_cons] at hc
    rcases hc with h | h | h
    · exact hu c h
    · exact h ▸ hb
    · exact hv c h
  rw [m372_validate_eq alphabet _ hw] at hvalid
  rw [m372_validate_eq alphabet _ hw']
  split at hvalid
  · rename_i h0
    rw [if_neg]
    intro h1
    simp only [List.map_append, List.map_cons] at h0 h1
    exact pure_v_subst _ hodd _ _ _ _ (map_idx_lt hu) (map_idx_lt hv) (idxOf_lt ha) (idxOf_lt hb)
      (fun h => hab (idxOf_inj ha hb h)) (h0.trans h1.symm)
  · simp [isOk] at hvalid

/-- **mod_37_2, adjacent transposition** (odd alphabet size) -/
theorem mod_37_2_swap_detected (alphabet u v : Str) (a b : Nat) (hodd : alphabet.length % 2 = 1)
    (hw : ∀ c ∈ u ++ a :: b :: v, c ∈ alphabet) (hab : a ≠ b)
    (hvalid : isOk (Mod372.validate (u ++ a :: b :: v) alphabet) = true) :
    Mod372.validate (u ++ b :: a :: v) alphabet = .error .invalidChecksum := by
  obtain ⟨hu, ha, hbv⟩ := mem_split hw
  have hb : b ∈ alphabet := hbv b List.mem_cons_self
  have hv : ∀ c ∈ v, c ∈ alphabet := fun c hc => hbv c (List.mem_cons_of_mem _ hc)
  have hw' : ∀ c ∈ u ++ b :: a :: v, c ∈ alphabet := by
    intro c hc
    simp only [List.mem_append, List.mem_cons] at hc
    rcases hc with h | h | h | h
    · exact hu c h
    · exact h ▸ hb
    · exact h ▸ ha
    · exact hv c h
  rw [m372_validate_eq alphabet _ hw] at hvalid
  rw [m372_validate_eq alphabet _ hw']
  split at hvalid
  · rename_i h0
    rw [if_neg]
    intro h1
    simp only [List.map_append, List.map_cons] at h0 h1
    exact pure_v_swap _ hodd _ _ _ _ (map_idx_lt hu) (map_idx_lt hv) (idxOf_lt ha) (idxOf_lt hb)
      (fun h => hab (idxOf_inj ha hb h)) (h0.trans h1.symm)
  · simp [isOk] at hvalid

/-! ## mod_11_2

`checksum` evaluates `int(10 if n == 'X' else n)` at every position, so the code's alphabet is
`0123456789X` everywhere (not just in the check position); the theorems are stated for that alphabet
and therefore cover the digits-only payload as a special case. -/

/-- a character of `0123456789X` -/
def isD11 (c : Nat) : Bool := isAsciiDigit c || c == 88
/-- its value -/
def val112 (c : Nat) : Nat := if c = 88 then 10 else c - 48

theorem d11_cases {c : Nat} (h : isD11 c = true) : (48 ≤ c ∧ c ≤ 57) ∨ c = 88 := by
  simpa [isD11, isAsciiDigit] using h

theorem val112_lt {c : Nat} (h : isD11 c = true) : val112 c < 11 := by
  unfold val112; rcases d11_cases h with h | h <;> split <;> omega

theorem val112_inj {a b : Nat} (ha : isD11 a = true) (hb : isD11 b = true) (h : val112 a = val112 b) :
    a = b := by
  have h1 := d11_cases ha
  have h2 := d11_cases hb
  by_cases ea : a = 88 <;> by_cases eb : b = 88 <;> simp only [val112, ea, eb, if_true, if_false] at h <;> omega

theorem m112_charVal {dec : Nat → Option Nat} (hdec : DecExtends dec) {c : Nat} (h : isD11 c = true) :
    Mod112.charVal dec c = .ok (val112 c) := by
  unfold Mod112.charVal val112
  split
  · rfl
  · rename_i hx
    rcases d11_cases h with h | h
    · exact intChar_ok dec c _ (hdec c (by simp [isAsciiDigit]; omega))
    · exact absurd h hx

theorem map_val112_lt {w : Str} (hw : AllIn isD11 w) : ∀ x ∈ w.map val112, x < 11 := by
  intro x hx
  obtain ⟨c, hc, rfl⟩ := List.mem_map.mp hx
  exact val112_lt (hw c hc)

theorem m112_validate_eq (dec : Nat → Option Nat) (hdec : DecExtends dec) (w : Str) (hw : AllIn isD11 w) :
    Mod112.validate dec w =
      if pureChecksum 11 (w.map val112) = 1 then .ok w else .error .invalidChecksum := by
  unfold Mod112.validate
  rw [validateBody_of_ok _ _ _ _ (Mod112.checksum_eq dec val112 w (fun c hc => m112_charVal hdec (hw c hc)))]

theorem m112_calc_eq (dec : Nat → Option Nat) (hdec : DecExtends dec) (p : Str) (hp : AllIn isD11 p) :
    ∃ c, Mod112.calc_check_digit dec p = .ok [c] ∧ isD11 c = true ∧
      (2 * pureChecksum 11 (p.map val112) + val112 c) % 11 = 1 := by
  have hlt := pure_checksum_lt 11 (by decide) (p.map val112)
  unfold Mod112.calc_check_digit
  rw [Mod112.checksum_eq dec val112 p (fun c hc => m112_charVal hdec (hp c hc)), ok_bind]
  have e : (2 * ((pureChecksum 11 (p.map val112) : Nat) : Int)) =
      ((2 * pureChecksum 11 (p.map val112) : Nat) : Int) := by
    rw [Int.natCast_mul]; rfl
  rw [e, pmod_one_sub _ _ (by omega)]
  generalize hd : (1 + 2 * 11 - 2 * pureChecksum 11 (p.map val112)) % 11 = d
  have hd11 : d < 11 := by omega
  have hv := pure_check_val 11 _ (by decide) hlt
  rw [hd] at hv
  by_cases h10 : d = 10
  · refine ⟨88, by simp [h10], by decide, ?_⟩
    simpa [val112, h10] using hv
  · refine ⟨48 + d, by simp [h10, natToStr_lt10 d (by omega)], by simp [isD11, isAsciiDigit]; omega, ?_⟩
    have : val112 (48 + d) = d := by unfold val112; split <;> omega
    rw [this]; exact hv

/-- **mod_11_2, append-valid** (payload over `0-9`, or even over `0-9X`) -/
theorem mod_11_2_append_valid (dec : Nat → Option Nat) (hdec : DecExtends dec) (p : Str)
    (hp : AllIn isD11 p) :
    ∃ c, Mod112.calc_check_digit dec p = .ok [c] ∧ isD11 c = true ∧
      Mod112.validate dec (p ++ [c]) = .ok (p ++ [c]) := by
  obtain ⟨c, hc, hd, hval⟩ := m112_calc_eq dec hdec p hp
  refine ⟨c, hc, hd, ?_⟩
  rw [m112_validate_eq dec hdec _ (allIn_append hp (allIn_cons hd (fun _ h => by simp at h)))]
  simp only [List.map_append, List.map_cons, List.map_nil]
  rw [pure_append, hval, if_pos rfl]

/-- **mod_11_2, uniqueness** of the check character among `0-9X` -/
theorem mod_11_2_check_unique (dec : Nat → Option Nat) (hdec : DecExtends dec) (p : Str) (c : Nat)
    (hp : AllIn isD11 p) (hc : isD11 c = true) :
    isOk (Mod112.validate dec (p ++ [c])) = true ↔ Mod112.calc_check_digit dec p = .ok [c] := by
  obtain ⟨d, hd, hmem, hval⟩ := m112_calc_eq dec hdec p hp
  rw [m112_validate_eq dec hdec _ (allIn_append hp (allIn_cons hc (fun _ h => by simp at h))), hd]
  simp only [List.map_append, List.map_cons, List.map_nil]
  rw [pure_append]
  constructor
  · intro h
    split at h
    · rename_i h0
      have := add_mod_inj_right _ _ _ _ (val112_lt hc) (val112_lt hmem) (h0.trans hval.symm)
      rw [val112_inj hc hmem this]
    · simp [isOk] at h
  · intro h
    have : d = c := by simpa using h
    subst this
    rw [hval]; rfl

/-- **mod_11_2, single substitution**, at every position and for every character of `0-9X` -/
theorem mod_11_2_subst_detected (dec : Nat → Option Nat) (hdec : DecExtends dec) (u v : Str) (a b : Nat)
    (hw : AllIn isD11 (u ++ a :: v)) (hb : isD11 b = true) (hab : a ≠ b)
    (hvalid : isOk (Mod112.validate dec (u ++ a :: v)) = true) :
    Mod112.validate dec (u ++ b :: v) = .error .invalidChecksum := by
  obtain ⟨hu, ha, hv⟩ := allIn_split hw
  rw [m112_validate_eq dec hdec _ hw] at hvalid
  rw [m112_validate_eq dec hdec _ (allIn_append hu (allIn_cons hb hv))]
  split at hvalid
  · rename_i h0
    rw [if_neg]
    intro h1
    simp only [List.map_append, List.map_cons] at h0 h1
    exact pure_v_subst 11 (by decide) _ _ _ _ (map_val112_lt hu) (map_val112_lt hv) (val112_lt ha)
      (val112_lt hb) (fun h => hab (val112_inj ha hb h)) (h0.trans h1.symm)
  · simp [isOk] at hvalid

/-- **mod_11_2, adjacent transposition**, at every position (including payload/check character) -/
theorem mod_11_2_swap_detected (dec : Nat → Option Nat) (hdec : DecExtends dec) (u v : Str) (a b : Nat)
    (hw : AllIn isD11 (u ++ a :: b :: v)) (hab : a ≠ b)
    (hvalid : isOk (Mod112.validate dec (u ++ a :: b :: v)) = true) :
    Mod112.validate dec (u ++ b :: a :: v) = .error .invalidChecksum := by
  obtain ⟨hu, ha, hbv⟩ := allIn_split hw
  have hb : isD11 b = true := hbv b List.mem_cons_self
  have hv : AllIn isD11 v := fun c hc => hbv c (List.mem_cons_of_mem _ hc)
  rw [m112_validate_eq dec hdec _ hw] at hvalid
  rw [m112_validate_eq dec hdec _ (allIn_append hu (allIn_cons hb (allIn_cons ha hv)))]
  split at hvalid
  · rename_i h0
    rw [if_neg]
    intro h1
    simp only [List.map_append, List.map_cons] at h0 h1
    exact pure_v_swap 11 (by decide) _ _ _ _ (map_val112_lt hu) (map_val112_lt hv) (val112_lt ha)
      (val112_lt hb) (fun h => hab (val112_inj ha hb h)) (h0.trans h1.symm)
  · simp [isOk] at hvalid

/-! ## ISO 7064 hybrid systems MOD M+1,M (M even): value level -/

/-- `((check or M) * 2) % (M + 1)` -/
def hq (m s : Nat) : Nat := ((if s = 0 then m else s) * 2) % (m + 1)

theorem hybridStep_eq (m s v : Nat) : hybridStep m s v = (hq m s + v) % m := rfl

theorem hq_le (m s : Nat) : hq m s ≤ m := by
  unfold hq
  have := Nat.mod_lt ((if s = 0 then m else s) * 2) (show 0 < m + 1 by omega)
  omega

theorem hq_eq (k s : Nat) (hk : 0 < k) (hs : s < 2 * k) :
    (s = 0 → hq (2 * k) s = 2 * k - 1) ∧ (s ≠ 0 → s ≤ k → hq (2 * k) s = 2 * s) ∧
      (k < s → hq (2 * k) s = 2 * s - (2 * k + 1)) := by
  unfold hq
  refine ⟨fun h => ?_, fun h1 h2 => ?_, fun h => ?_⟩
  · rw [if_pos h, mod_two _ _ (by omega), if_neg (by omega)]; omega
  · rw [if_neg h1, mod_two _ _ (by omega), if_pos (by omega)]; omega
  · rw [if_neg (by omega), mod_two _ _ (by omega), if_neg (by omega)]; omega

theorem hq_cases (k s : Nat) (hk : 0 < k) (hs : s < 2 * k) :
    (s = 0 ∧ hq (2 * k) s = 2 * k - 1) ∨ (s ≠ 0 ∧ s ≤ k ∧ hq (2 * k) s = 2 * s) ∨
      (k < s ∧ hq (2 * k) s = 2 * s - (2 * k + 1)) := by
  have h := hq_eq k s hk hs
  by_cases h0 : s = 0
  · exact Or.inl ⟨h0, h.1 h0⟩
  · by_cases h1 : s ≤ k
    · exact Or.inr (Or.inl ⟨h0, h1, h.2.1 h0 h1⟩)
    · exact Or.inr (Or.inr ⟨by omega, h.2.2 (by omega)⟩)

theorem hq_inj (k s t : Nat) (hk : 0 < k) (hs : s < 2 * k) (ht : t < 2 * k)
    (h : hq (2 * k) s = hq (2 * k) t) : s = t := by
  rcases hq_cases k s hk hs with ⟨a1, a2⟩ | ⟨a1, a2, a3⟩ | ⟨a1, a2⟩ <;>
    rcases hq_cases k t hk ht with ⟨c1, c2⟩ | ⟨c1, c2, c3⟩ | ⟨c1, c2⟩ <;> omega

theorem hybrid_step_lt (m s v : Nat) (hm : 0 < m) : hybridStep m s v < m := Nat.mod_lt _ hm

theorem hq_pos (k s : Nat) (hk : 0 < k) (hs : s < 2 * k) : 1 ≤ hq (2 * k) s := by
  rcases hq_cases k s hk hs with ⟨a1, a2⟩ | ⟨a1, a2, a3⟩ | ⟨a1, a2⟩ <;> omega

theorem hybrid_inj_state (m : Nat) (hev : m % 2 = 0) (s t v : Nat) (hs : s < m) (ht : t < m)
    (h : hybridStep m s v = hybridStep m t v) : s = t := by
  obtain ⟨k, rfl⟩ : ∃ k, m = 2 * k := ⟨m / 2, by omega⟩
  have hk : 0 < k := by omega
  rw [hybridStep_eq, hybridStep_eq, Nat.add_comm _ v, Nat.add_comm _ v,
    add_mod_cancel_iff _ v _ _ (by omega)] at h
  have b1 := hq_le (2 * k) s
  have b2 := hq_le (2 * k) t
  have p1 := hq_pos k s hk hs
  have p2 := hq_pos k t hk ht
  rw [mod_two (2 * k) (hq (2 * k) s) (by omega), mod_two (2 * k) (hq (2 * k) t) (by omega)] at h
  apply hq_inj k s t hk hs ht
  generalize hq (2 * k) s = qs at *
  generalize hq (2 * k) t = qt at *
  split at h <;> split at h <;> omega

theorem hybrid_inj_letter (m s a b : Nat) (ha : a < m) (hb : b < m)
    (h : hybridStep m s a = hybridStep m s b) : a = b :=
  add_mod_inj_right m _ a b ha hb h

/-- `Q(x) - x` modulo `M` -/
def hh (k x : Nat) : Nat := if x = 0 then 2 * k - 1 else if x ≤ k then x else x - 1

theorem hq_hh (k x y : Nat) (hk : 0 < k) (hx : x < 2 * k) :
    (hq (2 * k) x + y) % (2 * k) = (hh k x + (x + y)) % (2 * k) ∧ hh k x < 2 * k := by
  unfold hh
  rcases hq_cases k x hk hx with ⟨a1, a2⟩ | ⟨a1, a2, a3⟩ | ⟨a1, a2⟩
  · rw [if_pos a1, a2, a1, Nat.zero_add]; exact ⟨rfl, by omega⟩
  · rw [if_neg a1, if_pos a2, a3]; exact ⟨by congr 1; omega, by omega⟩
  · rw [if_neg (by omega), if_neg (by omega), a2]
    refine ⟨?_, by omega⟩
    have e : x - 1 + (x + y) = (2 * x - (2 * k + 1) + y) + 1 * (2 * k) := by omega
    rw [e, Nat.add_mul_mod_self_right]

/-- `Q(x) - x` collides only for `{M/2, M/2 + 1}` -/
theorem hybrid_collide (k x y : Nat) (hk : 0 < k) (hx : x < 2 * k) (hy : y < 2 * k) (hxy : x ≠ y) :
    (hq (2 * k) x + y) % (2 * k) = (hq (2 * k) y + x) % (2 * k) ↔
      (x = k ∧ y = (k + 1) % (2 * k)) ∨ (y = k ∧ x = (k + 1) % (2 * k)) := by
  obtain ⟨e1, l1⟩ := hq_hh k x y hk hx
  obtain ⟨e2, l2⟩ := hq_hh k y x hk hy
  rw [e1, e2, Nat.add_comm y x]
  have key : (hh k x + (x + y)) % (2 * k) = (hh k y + (x + y)) % (2 * k) ↔ hh k x = hh k y :=
    ⟨fun h => add_mod_inj_left _ _ _ _ l1 l2 h, fun h => by rw [h]⟩
  rw [key, mod_two (2 * k) (k + 1) (by omega)]
  unfold hh
  split <;> split <;> split <;> (try split) <;> (try split) <;> omega

theorem hybrid_checksum_lt (m : Nat) (hm : 0 < m) (vals : List Nat) : hybridChecksum m vals < m := by
  unfold hybridChecksum
  rw [← run_const (hybridStep m) vals 0 _]
  exact run_inv (fun _ => hybridStep m) (· < m) (fun _ => True) (fun _ s a _ _ => hybrid_step_lt m s a hm)
    vals 0 _ (fun _ _ => trivial) (Nat.div_lt_self hm (by decide))

theorem hybrid_append (m : Nat) (vals : List Nat) (d : Nat) :
    hybridChecksum m (vals ++ [d]) = (hq m (hybridChecksum m vals) + d) % m := by
  unfold hybridChecksum; rw [List.foldl_append]; rfl

theorem check_val (m q : Nat) (hm : 2 ≤ m) (hq : q ≤ 1 + 2 * m) : (q + (1 + 2 * m - q) % m) % m = 1 := by
  rw [Nat.add_mod_mod]
  have e : q + (1 + 2 * m - q) = 1 + 2 * m := by omega
  rw [e, Nat.add_mul_mod_self_right, Nat.mod_eq_of_lt hm]

theorem hybrid_v_subst (m : Nat) (hev : m % 2 = 0) (u v : List Nat) (a b : Nat)
    (hu : ∀ x ∈ u, x < m) (hv : ∀ x ∈ v, x < m) (ha : a < m) (hb : b < m) (hab : a ≠ b) :
    hybridChecksum m (u ++ a :: v) ≠ hybridChecksum m (u ++ b :: v) := by
  unfold hybridChecksum
  rw [← run_const (hybridStep m) _ 0 _, ← run_const (hybridStep m) _ 0 _]
  exact detects_subst (fun _ => hybridStep m) (· < m) (· < m)
    (fun _ s a _ _ => hybrid_step_lt m s a (by omega))
    (fun _ a s t hs ht _ h => hybrid_inj_state m hev s t a hs ht h)
    (fun _ s a b _ ha hb h => hybrid_inj_letter m s a b ha hb h)
    u v a b hu hv ha hb hab 0 _ (Nat.div_lt_self (by omega) (by decide))

/-- an adjacent transposition is missed exactly when the running checksums after the first of the two
characters are `M/2` and `M/2 + 1` -/
theorem hybrid_v_swap_iff (m : Nat) (hev : m % 2 = 0) (u v : List Nat) (a b : Nat)
    (hu : ∀ x ∈ u, x < m) (hv : ∀ x ∈ v, x < m) (ha : a < m) (hb : b < m) (hab : a ≠ b) :
    hybridChecksum m (u ++ a :: b :: v) = hybridChecksum m (u ++ b :: a :: v) ↔
      (hybridChecksum m (u ++ [a]) = m / 2 ∧ hybridChecksum m (u ++ [b]) = (m / 2 + 1) % m) ∨
      (hybridChecksum m (u ++ [b]) = m / 2 ∧ hybridChecksum m (u ++ [a]) = (m / 2 + 1) % m) := by
  obtain ⟨k, rfl⟩ : ∃ k, m = 2 * k := ⟨m / 2, by omega⟩
  have hk : 0 < k := by omega
  have hdiv : 2 * k / 2 = k := by omega
  rw [hybrid_append, hybrid_append, hdiv]
  unfold hybridChecksum
  rw [← run_const (hybridStep (2 * k)) _ 0 _, ← run_const (hybridStep (2 * k)) _ 0 _,
    ← run_const (hybridStep (2 * k)) u 0 _, hdiv]
  rw [swap_iff (fun _ => hybridStep (2 * k)) (· < 2 * k) (· < 2 * k)
    (fun _ s a _ _ => hybrid_step_lt _ s a (by omega))
    (fun _ a s t hs ht _ h => hybrid_inj_state _ hev s t a hs ht h)
    u v a b hu hv ha hb 0 k (by omega)]
  have hs : run (fun _ => hybridStep (2 * k)) 0 k u < 2 * k :=
    run_inv (fun _ => hybridStep (2 * k)) (· < 2 * k) (· < 2 * k)
      (fun _ s a _ _ => hybrid_step_lt _ s a (by omega)) u 0 k hu (by omega)
  generalize run (fun _ => hybridStep (2 * k)) 0 k u = s at hs ⊢
  simp only [hybridStep_eq]
  generalize hqs : hq (2 * k) s = q
  have hx : (q + a) % (2 * k) < 2 * k := Nat.mod_lt _ (by omega)
  have hy : (q + b) % (2 * k) < 2 * k := Nat.mod_lt _ (by omega)
  have hxy : (q + a) % (2 * k) ≠ (q + b) % (2 * k) :=
    fun h => hab (add_mod_inj_right _ q a b ha hb h)
  rw [← hybrid_collide k _ _ hk hx hy hxy, ← add_mod_cancel_iff (2 * k) q _ _ (by omega)]
  have e1 : q + (hq (2 * k) ((q + a) % (2 * k)) + b) = hq (2 * k) ((q + a) % (2 * k)) + (q + b) := by omega
  have e2 : q + (hq (2 * k) ((q + b) % (2 * k)) + a) = hq (2 * k) ((q + b) % (2 * k)) + (q + a) := by omega
  rw [e1, e2, Nat.add_mod_mod, Nat.add_mod_mod]

/-! ## mod_37_36 (any alphabet; the guarantees need an even alphabet size, e.g. 36, 10 or 16) -/

theorem m3736_validate_eq (alphabet w : Str) (hw : ∀ c ∈ w, c ∈ alphabet) :
    Mod3736.validate w alphabet =
      if hybridChecksum alphabet.length (w.map (alphabet.idxOf ·)) = 1 then .ok w
      else .error .invalidChecksum := by
  unfold Mod3736.validate
  rw [validateBody_of_ok _ _ _ _ (Mod3736.checksum_eq alphabet w hw)]

theorem m3736_calc_eq (alphabet p : Str) (hnd : alphabet.Nodup) (hm : 2 ≤ alphabet.length)
    (hp : ∀ c ∈ p, c ∈ alphabet) :
    ∃ c, Mod3736.calc_check_digit p alphabet = .ok [c] ∧ c ∈ alphabet ∧
      (hq alphabet.length (hybridChecksum alphabet.length (p.map (alphabet.idxOf ·))) + alphabet.idxOf c) %
        alphabet.length = 1 := by
  unfold Mod3736.calc_check_digit
  rw [Mod3736.checksum_eq alphabet p hp, ok_bind, if_neg (by omega)]
  simp only []
  have hle := hq_le alphabet.length (hybridChecksum alphabet.length (p.map (alphabet.idxOf ·)))
  change ∃ c, (getItem alphabet (pmod (1 - ((hq alphabet.length
    (hybridChecksum alphabet.length (p.map (alphabet.idxOf ·))) : Nat) : Int)) alphabet.length) >>=
      fun c => pure [c]) = .ok [c] ∧ _
  rw [pmod_one_sub _ _ (by omega)]
  generalize hq alphabet.length (hybridChecksum alphabet.length (p.map (alphabet.idxOf ·))) = q at hle ⊢
  have hd : (1 + 2 * alphabet.length - q) % alphabet.length < alphabet.length := Nat.mod_lt _ (by omega)
  rw [getItem_eq alphabet _ hd, ok_bind]
  refine ⟨_, rfl, List.getElem_mem _, ?_⟩
  rw [idxOf_getElem hnd _ hd]
  exact check_val _ _ hm (by omega)

/-- **mod_37_36, append-valid** (every alphabet of at least two distinct characters) -/
theorem mod_37_36_append_valid (alphabet p : Str) (hnd : alphabet.Nodup) (hm : 2 ≤ alphabet.length)
    (hp : ∀ c ∈ p, c ∈ alphabet) :
    ∃ c, Mod3736.calc_check_digit p alphabet = .ok [c] ∧
      Mod3736.validate (p ++ [c]) alphabet = .ok (p ++ [c]) := by
  obtain ⟨c, hc, hmem, hval⟩ := m3736_calc_eq alphabet p hnd hm hp
  refine ⟨c, hc, ?_⟩
  rw [m3736_validate_eq alphabet _ (by
    intro x hx
    rcases List.mem_append.mp hx with h | h
    · exact hp x h
    · rw [List.mem_singleton.mp h]; exact hmem)]
  simp only [List.map_append, List.map_cons, List.map_nil]
  rw [hybrid_append, hval, if_pos rfl]

/-- **mod_37_36, uniqueness** of the check character -/
theorem mod_37_36_check_unique (alphabet p : Str) (c : Nat) (hnd : alphabet.Nodup)
    (hm : 2 ≤ alphabet.length) (hp : ∀ x ∈ p, x ∈ alphabet) (hc : c ∈ alphabet) :
    isOk (Mod3736.validate (p ++ [c]) alphabet) = true ↔ Mod3736.calc_check_digit p alphabet = .ok [c] := by
  obtain ⟨d, hd, hmem, hval⟩ := m3736_calc_eq alphabet p hnd hm hp
  rw [m3736_validate_eq alphabet _ (by
    intro x hx
    rcases List.mem_append.mp hx with h | h
    · exact hp x h
    · rw [List.mem_singleton.mp h]; exact hc), hd]
  simp only [List.map_append, List.map_cons, List.map_nil]
  rw [hybrid_append]
  constructor
  · intro h
    split at h
    · rename_i h0
      have := add_mod_inj_right _ _ _ _ (idxOf_lt hc) (idxOf_lt hmem) (h0.trans hval.symm)
      rw [idxOf_inj hc hmem this]
    · simp [isOk] at h
  · intro h
    have : d = c := by simpa using h
    subst this
    rw [hval]; rfl

/-- **mod_37_36, single substitution** (even alphabet size) -/
theorem mod_37_36_subst_detected (alphabet u v : Str) (a b : Nat) (hev : alphabet.length % 2 = 0)
    (hw : ∀ c ∈ u ++ a :: v, c ∈ alphabet) (hb : b ∈ alphabet) (hab : a ≠ b)
    (hvalid : isOk (Mod3736.validate (u ++ a :: v) alphabet) = true) :
    Mod3736.validate (u ++ b :: v) alphabet = .error .invalidChecksum := by
  obtain ⟨hu, ha, hv⟩ := mem_split hw
  have hw' : ∀ c ∈ u ++ b :: v, c ∈ alphabet := by
    intro c hc
    simp only [List.mem_append, List.mem_cons] at hc
    rcases hc with h | h | h
    · exact hu c h
    · exact h ▸ hb
    · exact hv c h
  rw [m3736_validate_eq alphabet _ hw] at hvalid
  rw [m3736_validate_eq alphabet _ hw']
  split at hvalid
  · rename_i h0
    rw [if_neg]
    intro h1
    simp only [List.map_append, List.map_cons] at h0 h1
    exact hybrid_v_subst _ hev _ _ _ _ (map_idx_lt hu) (map_idx_lt hv) (idxOf_lt ha) (idxOf_lt hb)
      (fun h => hab (idxOf_inj ha hb h)) (h0.trans h1.symm)
  · simp [isOk] at hvalid

/-- **mod_37_36, adjacent transposition — what precisely holds** (even alphabet size `M`): swapping two
adjacent different characters `a b` of a valid number goes undetected **iff** the running checksums after
`…a` and after `…b` are `M/2` and `M/2 + 1` (in either order); for every prefix exactly one unordered
pair `{a, b}` has this property, every other swap is rejected. -/
theorem mod_37_36_swap_undetected_iff (alphabet u v : Str) (a b : Nat) (hev : alphabet.length % 2 = 0)
    (hw : ∀ c ∈ u ++ a :: b :: v, c ∈ alphabet) (hab : a ≠ b)
    (hvalid : isOk (Mod3736.validate (u ++ a :: b :: v) alphabet) = true) :
    let missed :=
      (Mod3736.checksum (u ++ [a]) alphabet = .ok (alphabet.length / 2) ∧
        Mod3736.checksum (u ++ [b]) alphabet = .ok ((alphabet.length / 2 + 1) % alphabet.length)) ∨
      (Mod3736.checksum (u ++ [b]) alphabet = .ok (alphabet.length / 2) ∧
        Mod3736.checksum (u ++ [a]) alphabet = .ok ((alphabet.length / 2 + 1) % alphabet.length))
    (missed → Mod3736.validate (u ++ b :: a :: v) alphabet = .ok (u ++ b :: a :: v)) ∧
    (¬ missed → Mod3736.validate (u ++ b :: a :: v) alphabet = .error .invalidChecksum) := by
  intro missed
  obtain ⟨hu, ha, hbv⟩ := mem_split hw
  have hb : b ∈ alphabet := hbv b List.mem_cons_self
  have hv : ∀ c ∈ v, c ∈ alphabet := fun c hc => hbv c (List.mem_cons_of_mem _ hc)
  have hw' : ∀ c ∈ u ++ b :: a :: v, c ∈ alphabet := by
    intro c hc
    simp only [List.mem_append, List.mem_cons] at hc
    rcases hc with h | h | h | h
    · exact hu c h
    · exact h ▸ hb
    · exact h ▸ ha
    · exact hv c h
  have hua : ∀ c ∈ u ++ [a], c ∈ alphabet := by
    intro c hc
    rcases List.mem_append.mp hc with h | h
    · exact hu c h
    · rw [List.mem_singleton.mp h]; exact ha
  have hub : ∀ c ∈ u ++ [b], c ∈ alphabet := by
    intro c hc
    rcases List.mem_append.mp hc with h | h
    · exact hu c h
    · rw [List.mem_singleton.mp h]; exact hb
  rw [m3736_validate_eq alphabet _ hw] at hvalid
  rw [m3736_validate_eq alphabet _ hw']
  simp only [missed]
  rw [Mod3736.checksum_eq alphabet _ hua, Mod3736.checksum_eq alphabet _ hub]
  split at hvalid
  · rename_i h0
    have key := hybrid_v_swap_iff _ hev (u.map (alphabet.idxOf ·)) (v.map (alphabet.idxOf ·))
      (alphabet.idxOf a) (alphabet.idxOf b) (map_idx_lt hu) (map_idx_lt hv)
      (idxOf_lt ha) (idxOf_lt hb) (fun h => hab (idxOf_inj ha hb h))
    simp only [List.map_append, List.map_cons, List.map_nil, Except.ok.injEq] at h0 key ⊢
    rw [h0] at key
    constructor
    · intro h; rw [if_pos (key.mpr h).symm]
    · intro h; rw [if_neg (fun hc => h (key.mp hc.symm))]
  · simp [isOk] at hvalid

/-! ## mod_11_10 -/

theorem m1110_validate_eq (dec : Nat → Option Nat) (hdec : DecExtends dec) (w : Str)
    (hw : AllIn isAsciiDigit w) :
    Mod1110.validate dec w =
      if hybridChecksum 10 (w.map (· - 48)) = 1 then .ok w else .error .invalidChecksum := by
  unfold Mod1110.validate
  rw [validateBody_of_ok _ _ _ _
    (Mod1110.checksum_eq dec (· - 48) w (fun c hc => (dec_spec hdec hw c hc).1))]

theorem m1110_calc_eq (dec : Nat → Option Nat) (hdec : DecExtends dec) (p : Str) (hp : AllIn isAsciiDigit p) :
    ∃ j, j < 10 ∧ Mod1110.calc_check_digit dec p = .ok [48 + j] ∧
      (hq 10 (hybridChecksum 10 (p.map (· - 48))) + j) % 10 = 1 := by
  unfold Mod1110.calc_check_digit
  rw [Mod1110.checksum_eq dec (· - 48) p (fun c hc => (dec_spec hdec hp c hc).1), ok_bind]
  have hle := hq_le 10 (hybridChecksum 10 (p.map (· - 48)))
  change ∃ j, j < 10 ∧ (pure (natToStr (pmod (1 - ((hq 10 (hybridChecksum 10 (p.map (· - 48))) : Nat) : Int))
    10)) : R Str) = .ok [48 + j] ∧ _
  rw [pmod_one_sub _ _ (by omega)]
  generalize hq 10 (hybridChecksum 10 (p.map (· - 48))) = q at hle ⊢
  have hd : (1 + 2 * 10 - q) % 10 < 10 := Nat.mod_lt _ (by decide)
  exact ⟨_, hd, by rw [natToStr_lt10 _ hd]; rfl, check_val 10 q (by decide) (by omega)⟩

/-- **mod_11_10, append-valid** -/
theorem mod_11_10_append_valid (dec : Nat → Option Nat) (hdec : DecExtends dec) (p : Str)
    (hp : AllIn isAsciiDigit p) :
    ∃ c, Mod1110.calc_check_digit dec p = .ok [c] ∧ isAsciiDigit c = true ∧
      Mod1110.validate dec (p ++ [c]) = .ok (p ++ [c]) := by
  obtain ⟨j, hj, hcalc, hval⟩ := m1110_calc_eq dec hdec p hp
  refine ⟨48 + j, hcalc, digit_of_lt j hj, ?_⟩
  rw [m1110_validate_eq dec hdec _ (allIn_append hp (allIn_cons (digit_of_lt j hj) (fun _ h => by simp at h)))]
  simp only [List.map_append, List.map_cons, List.map_nil, Nat.add_sub_cancel_left]
  rw [hybrid_append, hval, if_pos rfl]

/-- **mod_11_10, uniqueness** of the check digit -/
theorem mod_11_10_check_unique (dec : Nat → Option Nat) (hdec : DecExtends dec) (p : Str) (c : Nat)
    (hp : AllIn isAsciiDigit p) (hc : isAsciiDigit c = true) :
    isOk (Mod1110.validate dec (p ++ [c])) = true ↔ Mod1110.calc_check_digit dec p = .ok [c] := by
  obtain ⟨j, hj, hcalc, hval⟩ := m1110_calc_eq dec hdec p hp
  have hcb := digit_bounds hc
  rw [m1110_validate_eq dec hdec _ (allIn_append hp (allIn_cons hc (fun _ h => by simp at h))), hcalc]
  simp only [List.map_append, List.map_cons, List.map_nil]
  rw [hybrid_append]
  constructor
  · intro h
    split at h
    · rename_i h0
      have := add_mod_inj_right _ _ _ _ (show c - 48 < 10 by omega) hj (h0.trans hval.symm)
      have : c = 48 + j := by omega
      rw [this]
    · simp [isOk] at h
  · intro h
    have : 48 + j = c := by simpa using h
    subst this
    rw [Nat.add_sub_cancel_left, hval]; rfl

/-- **mod_11_10, single substitution** -/
theorem mod_11_10_subst_detected (dec : Nat → Option Nat) (hdec : DecExtends dec) (u v : Str) (a b : Nat)
    (hw : AllIn isAsciiDigit (u ++ a :: v)) (hb : isAsciiDigit b = true) (hab : a ≠ b)
    (hvalid : isOk (Mod1110.validate dec (u ++ a :: v)) = true) :
    Mod1110.validate dec (u ++ b :: v) = .error .invalidChecksum := by
  obtain ⟨hu, ha, hv⟩ := allIn_split hw
  rw [m1110_validate_eq dec hdec _ hw] at hvalid
  rw [m1110_validate_eq dec hdec _ (allIn_append hu (allIn_cons hb hv))]
  split at hvalid
  · rename_i h0
    rw [if_neg]
    intro h1
    simp only [List.map_append, List.map_cons] at h0 h1
    have := digit_bounds ha; have := digit_bounds hb
    exact hybrid_v_subst 10 (by decide) _ _ _ _ (map_digit_lt hu) (map_digit_lt hv) (by omega) (by omega)
      (digit_sub_ne ha hb hab) (h0.trans h1.symm)
  · simp [isOk] at hvalid

/-- **mod_11_10, adjacent transposition — what precisely holds**: swapping two adjacent different digits
`a b` of a valid number goes undetected **iff** the running checksums after `…a` and after `…b` are
`5` and `6` (in either order); every other swap is rejected. -/
theorem mod_11_10_swap_undetected_iff (dec : Nat → Option Nat) (hdec : DecExtends dec) (u v : Str)
    (a b : Nat) (hw : AllIn isAsciiDigit (u ++ a :: b :: v)) (hab : a ≠ b)
    (hvalid : isOk (Mod1110.validate dec (u ++ a :: b :: v)) = true) :
    let missed :=
      (Mod1110.checksum dec (u ++ [a]) = .ok 5 ∧ Mod1110.checksum dec (u ++ [b]) = .ok 6) ∨
      (Mod1110.checksum dec (u ++ [b]) = .ok 5 ∧ Mod1110.checksum dec (u ++ [a]) = .ok 6)
    (missed → Mod1110.validate dec (u ++ b :: a :: v) = .ok (u ++ b :: a :: v)) ∧
    (¬ missed → Mod1110.validate dec (u ++ b :: a :: v) = .error .invalidChecksum) := by
  intro missed
  obtain ⟨hu, ha, hbv⟩ := allIn_split hw
  have hb : isAsciiDigit b = true := hbv b List.mem_cons_self
  have hv : AllIn isAsciiDigit v := fun c hc => hbv c (List.mem_cons_of_mem _ hc)
  have hua : AllIn isAsciiDigit (u ++ [a]) := allIn_append hu (allIn_cons ha (fun _ h => by simp at h))
  have hub : AllIn isAsciiDigit (u ++ [b]) := allIn_append hu (allIn_cons hb (fun _ h => by simp at h))
  rw [m1110_validate_eq dec hdec _ hw] at hvalid
  rw [m1110_validate_eq dec hdec _ (allIn_append hu (allIn_cons hb (allIn_cons ha hv)))]
  simp only [missed]
  rw [Mod1110.checksum_eq dec (· - 48) _ (fun c hc => (dec_spec hdec hua c hc).1),
    Mod1110.checksum_eq dec (· - 48) _ (fun c hc => (dec_spec hdec hub c hc).1)]
  split at hvalid
  · rename_i h0
    have := digit_bounds ha; have := digit_bounds hb
    have key := hybrid_v_swap_iff 10 (by decide) (u.map (· - 48)) (v.map (· - 48))
      (a - 48) (b - 48) (map_digit_lt hu) (map_digit_lt hv) (by omega) (by omega) (digit_sub_ne ha hb hab)
    simp only [List.map_append, List.map_cons, List.map_nil, Except.ok.injEq] at h0 key ⊢
    rw [h0] at key
    constructor
    · intro h; rw [if_pos (key.mpr h).symm]
    · intro h; rw [if_neg (fun hc => h (key.mp hc.symm))]
  · simp [isOk] at hvalid

/-- `mod_11_10` is `mod_37_36` over the alphabet `0123456789` -/
theorem mod_11_10_eq_mod_37_36 (dec : Nat → Option Nat) (hdec : DecExtends dec) (w : Str)
    (hw : AllIn isAsciiDigit w) :
    Mod1110.checksum dec w = Mod3736.checksum w [48, 49, 50, 51, 52, 53, 54, 55, 56, 57] := by
  have hmem : ∀ c ∈ w, c ∈ [48, 49, 50, 51, 52, 53, 54, 55, 56, 57] := by
    intro c hc
    have := digit_bounds (hw c hc)
    have : c = 48 ∨ c = 49 ∨ c = 50 ∨ c = 51 ∨ c = 52 ∨ c = 53 ∨ c = 54 ∨ c = 55 ∨ c = 56 ∨ c = 57 := by
      omega
    simpa using this
  rw [Mod1110.checksum_eq dec (· - 48) w (fun c hc => (dec_spec hdec hw c hc).1),
    Mod3736.checksum_eq _ w hmem]
  congr 2
  apply List.map_congr_left
  intro c hc
  have := digit_bounds (hw c hc)
  have : c = 48 ∨ c = 49 ∨ c = 50 ∨ c = 51 ∨ c = 52 ∨ c = 53 ∨ c = 54 ∨ c = 55 ∨ c = 56 ∨ c = 57 := by
    omega
  rcases this with h | h | h | h | h | h | h | h | h | h <;> subst h <;> rfl

/-! ## mod_97_10

The code converts every character with `int(c, 36)` (so letters are accepted everywhere and count as two
decimal digits) and then calls `int()` on the whole decimal string, which CPython ≥ 3.11 refuses beyond
`maxDigits` (4300) digits.  `fits` says that the limit is not hit. -/

/-- `int()` accepts a decimal string of this width -/
def fits (maxDigits : Nat) (vals : List Nat) : Prop := maxDigits = 0 ∨ Mod9710.width vals ≤ maxDigits

theorem alnum_spec {b36 : Nat → Option Nat} (hext : B36Extends b36) {w : Str} (hw : AllIn isAsciiAlnum w) :
    ∀ c ∈ w, b36 c = some (b36Val c) ∧ b36Val c < 36 := by
  intro c hc
  rw [hext c (hw c hc)]
  exact asciiB36_spec c (hw c hc)

theorem map_b36_lt {w : Str} (hw : AllIn isAsciiAlnum w) : ∀ x ∈ w.map b36Val, x < 36 := by
  intro x hx
  obtain ⟨c, hc, rfl⟩ := List.mem_map.mp hx
  exact (asciiB36_spec c (hw c hc)).2

theorem digit_alnum {c : Nat} (h : isAsciiDigit c = true) : isAsciiAlnum c = true := by
  simp only [isAsciiAlnum, h, Bool.true_or]

theorem width_append (u v : List Nat) : Mod9710.width (u ++ v) = Mod9710.width u + Mod9710.width v := by
  simp [Mod9710.width, List.sum_append]

theorem width_cons (a : Nat) (v : List Nat) :
    Mod9710.width (a :: v) = (if a < 10 then 1 else 2) + Mod9710.width v := by
  simp [Mod9710.width]

theorem m9710_validate_eq (b36 : Nat → Option Nat) (hext : B36Extends b36) (L : Nat) (w : Str)
    (hw : AllIn isAsciiAlnum w) (hne : w ≠ []) (hfit : fits L (w.map b36Val)) :
    Mod9710.validate b36 L w =
      if Mod9710.vchecksum (w.map b36Val) = 1 then .ok w else .error .invalidChecksum := by
  unfold Mod9710.validate
  have h := Mod9710.checksum_eq b36 L b36Val w (alnum_spec hext hw)
  rw [if_neg hne, if_neg (by unfold fits at hfit; omega)] at h
  rw [validateBody_of_ok _ _ _ _ h]

/-- over-long numbers are rejected as malformed whatever their checksum -/
theorem m9710_validate_too_long (b36 : Nat → Option Nat) (hext : B36Extends b36) (L : Nat) (w : Str)
    (hw : AllIn isAsciiAlnum w) (hL : L ≠ 0) (hlong : L < Mod9710.width (w.map b36Val)) :
    Mod9710.validate b36 L w = .error .invalidFormat := by
  unfold Mod9710.validate
  have h := Mod9710.checksum_eq b36 L b36Val w (alnum_spec hext hw)
  by_cases hne : w = []
  · rw [if_pos hne] at h; exact validateBody_of_error _ _ _ _ h
  · rw [if_neg hne, if_pos ⟨hL, hlong⟩] at h; exact validateBody_of_error _ _ _ _ h

theorem m9710_step_lt (s v : Nat) : Mod9710.vstep s v < 97 := by
  unfold Mod9710.vstep; split <;> omega

theorem m9710_inj_state (s t v : Nat) (hs : s < 97) (ht : t < 97)
    (h : Mod9710.vstep s v = Mod9710.vstep t v) : s = t := by
  unfold Mod9710.vstep at h; split at h <;> omega

/-- two values of the same kind (both one decimal digit, or both two) are told apart -/
theorem m9710_letter_ne (s a b : Nat) (_hs : s < 97) (ha : a < 36) (hb : b < 36) (hk : a < 10 ↔ b < 10)
    (hab : a ≠ b) : Mod9710.vstep s a ≠ Mod9710.vstep s b := by
  unfold Mod9710.vstep; split <;> split <;> omega

theorem mod97_mul10 (x b : Nat) : (x % 97 * 10 + b) % 97 = (x * 10 + b) % 97 := by omega
theorem mod97_mul100 (x b : Nat) : (x % 97 * 100 + b) % 97 = (x * 100 + b) % 97 := by omega

theorem m9710_anti (s a b : Nat) (ha : a < 36) (hb : b < 36) (hk : a < 10 ↔ b < 10)
    (hab : a ≠ b) :
    Mod9710.vstep (Mod9710.vstep s a) b ≠ Mod9710.vstep (Mod9710.vstep s b) a := by
  unfold Mod9710.vstep
  by_cases h : a < 10
  · have h' : b < 10 := hk.mp h
    simp only [h, h', if_true, mod97_mul10]
    omega
  · have h' : ¬ b < 10 := fun x => h (hk.mpr x)
    simp only [h, h', if_false, mod97_mul100]
    omega

theorem m9710_vchecksum_lt (vals : List Nat) : Mod9710.vchecksum vals < 97 := by
  unfold Mod9710.vchecksum
  rw [← run_const Mod9710.vstep vals 0 0]
  exact run_inv (fun _ => Mod9710.vstep) (· < 97) (fun _ => True) (fun _ s a _ _ => m9710_step_lt s a)
    vals 0 0 (fun _ _ => trivial) (by decide)

theorem m9710_v_subst (u v : List Nat) (a b : Nat) (hu : ∀ x ∈ u, x < 36) (hv : ∀ x ∈ v, x < 36)
    (ha : a < 36) (hb : b < 36) (hk : a < 10 ↔ b < 10) (hab : a ≠ b) :
    Mod9710.vchecksum (u ++ a :: v) ≠ Mod9710.vchecksum (u ++ b :: v) := by
  unfold Mod9710.vchecksum
  rw [← run_const Mod9710.vstep _ 0 0, ← run_const Mod9710.vstep _ 0 0]
  exact detects_subst_local (fun _ => Mod9710.vstep) (· < 97) (· < 36)
    (fun _ s a _ _ => m9710_step_lt s a)
    (fun _ a s t hs ht _ h => m9710_inj_state s t a hs ht h)
    u v a b hu hv ha hb 0 0 (by decide) (fun t ht => m9710_letter_ne t a b ht ha hb hk hab)

theorem m9710_v_swap (u v : List Nat) (a b : Nat) (hu : ∀ x ∈ u, x < 36) (hv : ∀ x ∈ v, x < 36)
    (ha : a < 36) (hb : b < 36) (hk : a < 10 ↔ b < 10) (hab : a ≠ b) :
    Mod9710.vchecksum (u ++ a :: b :: v) ≠ Mod9710.vchecksum (u ++ b :: a :: v) := by
  unfold Mod9710.vchecksum
  rw [← run_const Mod9710.vstep _ 0 0, ← run_const Mod9710.vstep _ 0 0]
  intro h
  rw [swap_iff (fun _ => Mod9710.vstep) (· < 97) (· < 36)
    (fun _ s a _ _ => m9710_step_lt s a)
    (fun _ a s t hs ht _ h => m9710_inj_state s t a hs ht h)
    u v a b hu hv ha hb 0 0 (by decide)] at h
  exact m9710_anti _ a b ha hb hk hab h

theorem fmt02d_eq (k : Nat) (h : k < 100) : fmt02d k = [48 + k / 10, 48 + k % 10] := by
  unfold fmt02d
  by_cases h10 : k < 10
  · rw [natToStr_lt10 k h10]
    have e1 : k / 10 = 0 := by omega
    have e2 : k % 10 = k := by omega
    simp [e1, e2]
  · rw [natToStr_lt100 k (by omega) h]; simp

theorem b36Val_add (d : Nat) (hd : d < 10) : b36Val (48 + d) = d := by
  rw [b36Val_digit _ (digit_of_lt d hd)]; omega

theorem m9710_append2 (vals : List Nat) (d1 d2 : Nat) (h1 : d1 < 10) (h2 : d2 < 10) :
    Mod9710.vchecksum (vals ++ [d1, d2]) = (Mod9710.vchecksum vals * 100 + d1 * 10 + d2) % 97 := by
  unfold Mod9710.vchecksum
  rw [List.foldl_append]
  simp only [List.foldl_cons, List.foldl_nil, Mod9710.vstep, h1, h2, if_true, mod97_mul10]
  congr 1
  omega

theorem m9710_calc_eq (b36 : Nat → Option Nat) (hext : B36Extends b36) (L : Nat) (p : Str)
    (hp : AllIn isAsciiAlnum p) (hfit : L = 0 ∨ Mod9710.width (p.map b36Val) + 2 ≤ L) :
    ∃ k, 2 ≤ k ∧ k ≤ 98 ∧ Mod9710.calc_check_digits b36 L p = .ok [48 + k / 10, 48 + k % 10] ∧
      (Mod9710.vchecksum (p.map b36Val) * 100 + k / 10 * 10 + k % 10) % 97 = 1 := by
  have hp0 : AllIn isAsciiAlnum (p ++ [48, 48]) :=
    allIn_append hp (allIn_cons (by decide) (allIn_cons (by decide) (fun _ h => by simp at h)))
  unfold Mod9710.calc_check_digits
  have h := Mod9710.checksum_eq b36 L b36Val _ (alnum_spec hext hp0)
  have hw : Mod9710.width ((p ++ [48, 48]).map b36Val) = Mod9710.width (p.map b36Val) + 2 := by
    rw [List.map_append, width_append]; rfl
  rw [if_neg (by simp), if_neg (by rw [hw]; omega)] at h
  rw [h, ok_bind]
  have e : (p ++ [48, 48]).map b36Val = p.map b36Val ++ [0, 0] := by rw [List.map_append]; rfl
  rw [e, m9710_append2 _ 0 0 (by decide) (by decide)]
  have hc := m9710_vchecksum_lt (p.map b36Val)
  generalize Mod9710.vchecksum (p.map b36Val) = c at hc ⊢
  refine ⟨98 - (c * 100 + 0 * 10 + 0) % 97, by omega, by omega, ?_, by omega⟩
  rw [fmt02d_eq _ (by omega)]; rfl

/-- **mod_97_10, append-valid, PARTIAL**.  The full statement
`∀ p over 0-9A-Za-z, validate (p ++ calc_check_digits p) = ok` is FALSE for the code under CPython's
4300-digit `int()` limit (`mod_97_10_append_valid_fails_at_4299`); what holds is the statement below with
the extra hypothesis `hfit` that `int()` accepts the decimal expansion of payload + 2 digits (always true
when the limit is disabled, `L = 0`). -/
theorem mod_97_10_append_valid_partial (b36 : Nat → Option Nat) (hext : B36Extends b36) (L : Nat) (p : Str)
    (hp : AllIn isAsciiAlnum p) (hfit : L = 0 ∨ Mod9710.width (p.map b36Val) + 2 ≤ L) :
    ∃ c1 c2, Mod9710.calc_check_digits b36 L p = .ok [c1, c2] ∧ isAsciiDigit c1 = true ∧
      isAsciiDigit c2 = true ∧ Mod9710.validate b36 L (p ++ [c1, c2]) = .ok (p ++ [c1, c2]) := by
  obtain ⟨k, hk1, hk2, hcalc, hval⟩ := m9710_calc_eq b36 hext L p hp hfit
  have d1 : k / 10 < 10 := by omega
  have d2 : k % 10 < 10 := by omega
  refine ⟨_, _, hcalc, digit_of_lt _ d1, digit_of_lt _ d2, ?_⟩
  have hw : AllIn isAsciiAlnum (p ++ [48 + k / 10, 48 + k % 10]) :=
    allIn_append hp (allIn_cons (digit_alnum (digit_of_lt _ d1))
      (allIn_cons (digit_alnum (digit_of_lt _ d2)) (fun _ h => by simp at h)))
  have e : (p ++ [48 + k / 10, 48 + k % 10]).map b36Val = p.map b36Val ++ [k / 10, k % 10] := by
    rw [List.map_append]; simp [b36Val_add _ d1, b36Val_add _ d2]
  rw [m9710_validate_eq b36 hext L _ hw (by simp) (by
    rw [e]; unfold fits; rw [width_append]
    have : Mod9710.width [k / 10, k % 10] = 2 := by simp [Mod9710.width, d1, d2]
    omega)]
  rw [e, m9710_append2 _ _ _ d1 d2, hval, if_pos rfl]

/-- **mod_97_10, append-valid FAILS beyond the `int()` limit**: with a non-zero limit (CPython: 4300) the
check digits of a payload whose decimal expansion has more than `limit - 2` digits cannot even be
computed (ValueError) … -/
theorem mod_97_10_calc_fails_when_long (b36 : Nat → Option Nat) (hext : B36Extends b36) (L : Nat) (p : Str)
    (hp : AllIn isAsciiAlnum p) (hL : L ≠ 0) (hlong : L < Mod9710.width (p.map b36Val) + 2) :
    Mod9710.calc_check_digits b36 L p = .error .valueError := by
  have hp0 : AllIn isAsciiAlnum (p ++ [48, 48]) :=
    allIn_append hp (allIn_cons (by decide) (allIn_cons (by decide) (fun _ h => by simp at h)))
  unfold Mod9710.calc_check_digits
  have h := Mod9710.checksum_eq b36 L b36Val _ (alnum_spec hext hp0)
  have hw : Mod9710.width ((p ++ [48, 48]).map b36Val) = Mod9710.width (p.map b36Val) + 2 := by
    rw [List.map_append, width_append]; rfl
  rw [if_neg (by simp), if_pos ⟨hL, by rw [hw]; exact hlong⟩] at h
  rw [h]; rfl

/-- … and no two check digits whatsoever make such a number valid. -/
theorem mod_97_10_nothing_valid_when_long (b36 : Nat → Option Nat) (hext : B36Extends b36) (L : Nat)
    (p : Str) (c1 c2 : Nat) (hp : AllIn isAsciiAlnum p) (h1 : isAsciiDigit c1 = true)
    (h2 : isAsciiDigit c2 = true) (hL : L ≠ 0) (hlong : L < Mod9710.width (p.map b36Val) + 2) :
    Mod9710.validate b36 L (p ++ [c1, c2]) = .error .invalidFormat := by
  apply m9710_validate_too_long b36 hext L _
    (allIn_append hp (allIn_cons (digit_alnum h1) (allIn_cons (digit_alnum h2) (fun _ h => by simp at h)))) hL
  rw [List.map_append, width_append]
  have := digit_bounds h1; have := digit_bounds h2
  have l1 : c1 - 48 < 10 := by omega
  have l2 : c2 - 48 < 10 := by omega
  have : Mod9710.width ([c1, c2].map b36Val) = 2 := by
    simp [Mod9710.width, b36Val_digit _ h1, b36Val_digit _ h2, l1, l2]
  omega

/-- **mod_97_10, the two check digits**: a digit pair is accepted iff it is congruent modulo 97 to the
generated pair. -/
theorem mod_97_10_check_iff (b36 : Nat → Option Nat) (hext : B36Extends b36) (L : Nat) (p : Str)
    (c1 c2 : Nat) (hp : AllIn isAsciiAlnum p) (h1 : isAsciiDigit c1 = true) (h2 : isAsciiDigit c2 = true)
    (hfit : L = 0 ∨ Mod9710.width (p.map b36Val) + 2 ≤ L) :
    ∃ k1 k2, Mod9710.calc_check_digits b36 L p = .ok [k1, k2] ∧
      (isOk (Mod9710.validate b36 L (p ++ [c1, c2])) = true ↔
        ((c1 - 48) * 10 + (c2 - 48)) % 97 = ((k1 - 48) * 10 + (k2 - 48)) % 97) := by
  obtain ⟨k, hk1, hk2, hcalc, hval⟩ := m9710_calc_eq b36 hext L p hp hfit
  refine ⟨_, _, hcalc, ?_⟩
  have b1 := digit_bounds h1
  have b2 := digit_bounds h2
  have hw : AllIn isAsciiAlnum (p ++ [c1, c2]) :=
    allIn_append hp (allIn_cons (digit_alnum h1) (allIn_cons (digit_alnum h2) (fun _ h => by simp at h)))
  have e : (p ++ [c1, c2]).map b36Val = p.map b36Val ++ [c1 - 48, c2 - 48] := by
    rw [List.map_append]; simp [b36Val_digit _ h1, b36Val_digit _ h2]
  rw [m9710_validate_eq b36 hext L _ hw (by simp) (by
    rw [e]; unfold fits; rw [width_append]
    have l1 : c1 - 48 < 10 := by omega
    have l2 : c2 - 48 < 10 := by omega
    have : Mod9710.width [c1 - 48, c2 - 48] = 2 := by simp [Mod9710.width, l1, l2]
    omega)]
  rw [e, m9710_append2 _ _ _ (by omega) (by omega)]
  have hc := m9710_vchecksum_lt (p.map b36Val)
  generalize Mod9710.vchecksum (p.map b36Val) = c at hc hval ⊢
  constructor
  · intro h
    split at h
    · omega
    · simp [isOk] at h
  · intro h
    rw [if_pos (by omega)]; rfl

/-- the generated pair is the only accepted one in the range `02 .. 98` (`00`, `01` and `99` are
accepted in place of `97`, `98` and `02`) -/
theorem mod_97_10_check_unique_in_range (b36 : Nat → Option Nat) (hext : B36Extends b36) (L : Nat) (p : Str)
    (c1 c2 : Nat) (hp : AllIn isAsciiAlnum p) (h1 : isAsciiDigit c1 = true) (h2 : isAsciiDigit c2 = true)
    (hfit : L = 0 ∨ Mod9710.width (p.map b36Val) + 2 ≤ L)
    (hr1 : 2 ≤ (c1 - 48) * 10 + (c2 - 48)) (hr2 : (c1 - 48) * 10 + (c2 - 48) ≤ 98) :
    isOk (Mod9710.validate b36 L (p ++ [c1, c2])) = true ↔
      Mod9710.calc_check_digits b36 L p = .ok [c1, c2] := by
  obtain ⟨k, hk1, hk2, hcalc, hval⟩ := m9710_calc_eq b36 hext L p hp hfit
  obtain ⟨k1, k2, hcalc', hiff⟩ := mod_97_10_check_iff b36 hext L p c1 c2 hp h1 h2 hfit
  rw [hiff]
  rw [hcalc] at hcalc' ⊢
  have b1 := digit_bounds h1
  have b2 := digit_bounds h2
  simp only [Except.ok.injEq, List.cons.injEq, and_true] at hcalc' ⊢
  obtain ⟨e1, e2⟩ := hcalc'
  subst e1 e2
  have ek : (48 + k / 10 - 48) * 10 + (48 + k % 10 - 48) = k := by omega
  rw [ek]
  constructor
  · intro h
    have hV : (c1 - 48) * 10 + (c2 - 48) = k := by omega
    omega
  · intro h
    omega

theorem m9710_valid_iff (b36 : Nat → Option Nat) (hext : B36Extends b36) (L : Nat) (w : Str)
    (hw : AllIn isAsciiAlnum w) :
    isOk (Mod9710.validate b36 L w) = true ↔
      w ≠ [] ∧ fits L (w.map b36Val) ∧ Mod9710.vchecksum (w.map b36Val) = 1 := by
  by_cases hne : w = []
  · have h := Mod9710.checksum_eq b36 L b36Val w (alnum_spec hext hw)
    rw [if_pos hne] at h
    unfold Mod9710.validate
    rw [validateBody_of_error _ _ _ _ h]
    simp [isOk, hne]
  · by_cases hfit : fits L (w.map b36Val)
    · rw [m9710_validate_eq b36 hext L w hw hne hfit]
      split <;> simp [isOk, *]
    · have hL : L ≠ 0 ∧ L < Mod9710.width (w.map b36Val) := by unfold fits at hfit; omega
      rw [m9710_validate_too_long b36 hext L w hw hL.1 hL.2]
      simp [isOk, hfit]

/-- **mod_97_10, single substitution**: replacing a character by another one *of the same kind* (digit
by digit, or letter by letter) *with a different value* (`a`/`A` have the same value) makes a valid number
invalid.  Context over `0-9A-Za-z`. -/
theorem mod_97_10_subst_detected (b36 : Nat → Option Nat) (hext : B36Extends b36) (L : Nat) (u v : Str)
    (a b : Nat) (hw : AllIn isAsciiAlnum (u ++ a :: v)) (hb : isAsciiAlnum b = true)
    (hkind : b36Val a < 10 ↔ b36Val b < 10) (hab : b36Val a ≠ b36Val b)
    (hvalid : isOk (Mod9710.validate b36 L (u ++ a :: v)) = true) :
    Mod9710.validate b36 L (u ++ b :: v) = .error .invalidChecksum := by
  obtain ⟨hu, ha, hv⟩ := allIn_split hw
  obtain ⟨_, hfit, h1⟩ := (m9710_valid_iff b36 hext L _ hw).mp hvalid
  have hw' : AllIn isAsciiAlnum (u ++ b :: v) := allIn_append hu (allIn_cons hb hv)
  have hfit' : fits L ((u ++ b :: v).map b36Val) := by
    unfold fits at hfit ⊢
    simp only [List.map_append, List.map_cons, width_append, width_cons] at hfit ⊢
    by_cases h : b36Val a < 10
    · simp only [h, hkind.mp h, if_true] at hfit ⊢; exact hfit
    · have h' : ¬ b36Val b < 10 := fun x => h (hkind.mpr x)
      simp only [h, h', if_false] at hfit ⊢; exact hfit
  rw [m9710_validate_eq b36 hext L _ hw' (by simp) hfit', if_neg]
  intro h2
  simp only [List.map_append, List.map_cons] at h1 h2
  exact m9710_v_subst _ _ _ _ (map_b36_lt hu) (map_b36_lt hv) (asciiB36_spec a ha).2
    (asciiB36_spec b hb).2 hkind hab (h1.trans h2.symm)

/-- the digits-only instance (the property as stated: "pure systems … on digits") -/
theorem mod_97_10_subst_digit_detected (b36 : Nat → Option Nat) (hext : B36Extends b36) (L : Nat)
    (u v : Str) (a b : Nat) (hw : AllIn isAsciiAlnum (u ++ a :: v)) (ha : isAsciiDigit a = true)
    (hb : isAsciiDigit b = true) (hab : a ≠ b)
    (hvalid : isOk (Mod9710.validate b36 L (u ++ a :: v)) = true) :
    Mod9710.validate b36 L (u ++ b :: v) = .error .invalidChecksum := by
  have b1 := digit_bounds ha
  have b2 := digit_bounds hb
  apply mod_97_10_subst_detected b36 hext L u v a b hw (digit_alnum hb) _ _ hvalid
  · rw [b36Val_digit a ha, b36Val_digit b hb]; omega
  · rw [b36Val_digit a ha, b36Val_digit b hb]; omega

/-- **mod_97_10, adjacent transposition** of two characters of the same kind with different values -/
theorem mod_97_10_swap_detected (b36 : Nat → Option Nat) (hext : B36Extends b36) (L : Nat) (u v : Str)
    (a b : Nat) (hw : AllIn isAsciiAlnum (u ++ a :: b :: v))
    (hkind : b36Val a < 10 ↔ b36Val b < 10) (hab : b36Val a ≠ b36Val b)
    (hvalid : isOk (Mod9710.validate b36 L (u ++ a :: b :: v)) = true) :
    Mod9710.validate b36 L (u ++ b :: a :: v) = .error .invalidChecksum := by
  obtain ⟨hu, ha, hbv⟩ := allIn_split hw
  have hb : isAsciiAlnum b = true := hbv b List.mem_cons_self
  have hv : AllIn isAsciiAlnum v := fun c hc => hbv c (List.mem_cons_of_mem _ hc)
  obtain ⟨_, hfit, h1⟩ := (m9710_valid_iff b36 hext L _ hw).mp hvalid
  have hw' : AllIn isAsciiAlnum (u ++ b :: a :: v) := allIn_append hu (allIn_cons hb (allIn_cons ha hv))
  have hfit' : fits L ((u ++ b :: a :: v).map b36Val) := by
    unfold fits at hfit ⊢
    simp only [List.map_append, List.map_cons, width_append, width_cons] at hfit ⊢
    omega
  rw [m9710_validate_eq b36 hext L _ hw' (by simp) hfit', if_neg]
  intro h2
  simp only [List.map_append, List.map_cons] at h1 h2
  exact m9710_v_swap _ _ _ _ (map_b36_lt hu) (map_b36_lt hv) (asciiB36_spec a ha).2
    (asciiB36_spec b hb).2 hkind hab (h1.trans h2.symm)

/-- the digits-only instance -/
theorem mod_97_10_swap_digit_detected (b36 : Nat → Option Nat) (hext : B36Extends b36) (L : Nat)
    (u v : Str) (a b : Nat) (hw : AllIn isAsciiAlnum (u ++ a :: b :: v)) (ha : isAsciiDigit a = true)
    (hb : isAsciiDigit b = true) (hab : a ≠ b)
    (hvalid : isOk (Mod9710.validate b36 L (u ++ a :: b :: v)) = true) :
    Mod9710.validate b36 L (u ++ b :: a :: v) = .error .invalidChecksum := by
  have b1 := digit_bounds ha
  have b2 := digit_bounds hb
  apply mod_97_10_swap_detected b36 hext L u v a b hw _ _ hvalid
  · rw [b36Val_digit a ha, b36Val_digit b hb]; omega
  · rw [b36Val_digit a ha, b36Val_digit b hb]; omega

/-! ## Non-vacuity: every theorem instantiated on a concrete number (hypotheses checked by evaluation),
and concrete witnesses for everything the property gets wrong -/

/-- decidable equality of results, so that concrete instances can be checked by `decide` -/
instance decEqR {α : Type} [DecidableEq α] : DecidableEq (R α)
  | .ok a, .ok b => if h : a = b then isTrue (by rw [h]) else isFalse (fun h' => h (Except.ok.inj h'))
  | .error a, .error b =>
    if h : a = b then isTrue (by rw [h]) else isFalse (fun h' => h (Except.error.inj h'))
  | .ok _, .error _ => isFalse (fun h => by cases h)
  | .error _, .ok _ => isFalse (fun h => by cases h)

/-- `'0123456789'` -/
def d10 : Str := [48, 49, 50, 51, 52, 53, 54, 55, 56, 57]
/-- `'0123456789abcdef'` -/
def hex16 : Str := [48, 49, 50, 51, 52, 53, 54, 55, 56, 57, 97, 98, 99, 100, 101, 102]

/-! Luhn: `78949` is valid (docstring example); hex `1a2f9` -/
example : ∃ c, Luhn.calc_check_digit [55, 56, 57, 52] d10 = .ok [c] ∧ Luhn.validate ([55, 56, 57, 52] ++ [c]) d10 = .ok ([55, 56, 57, 52] ++ [c]) :=
  luhn_append_valid d10 [55, 56, 57, 52] (by decide) (by decide) (by decide)
example : Luhn.calc_check_digit [55, 56, 57, 52] d10 = .ok [57] := by decide
example : isOk (Luhn.validate ([55, 56, 57, 52] ++ [57]) d10) = true ↔ Luhn.calc_check_digit [55, 56, 57, 52] d10 = .ok [57] :=
  luhn_check_unique d10 [55, 56, 57, 52] 57 (by decide) (by decide) (by decide)
example : Luhn.validate [55, 56, 48, 52, 57] d10 = .error .invalidChecksum :=
  luhn_subst_detected d10 [55, 56] [52, 57] 57 48 (by decide) (by decide) (by decide) (by decide) (by decide)
example : Luhn.validate [49, 98, 50, 102, 57] hex16 = .error .invalidChecksum :=
  luhn_subst_detected hex16 [49] [50, 102, 57] 97 98 (by decide) (by decide) (by decide) (by decide) (by decide)
example : Luhn.validate [55, 57, 56, 52, 57] d10 = .error .invalidChecksum := by
  have h := luhn_swap_undetected_iff d10 [55] [52, 57] 56 57 (by decide) (by decide) (by decide) (by decide) (by decide)
  rw [if_neg (by decide)] at h
  exact h
/-- the 0/9 exception is real: `091` and `901` are both valid -/
example : Luhn.validate [57, 48, 49] d10 = .ok [57, 48, 49] := by
  have h := luhn_swap_undetected_iff d10 [] [49] 48 57 (by decide) (by decide) (by decide) (by decide) (by decide)
  rw [if_pos (by decide)] at h
  exact h

/-! Verhoeff: `12340` -/
example : ∃ c, Verhoeff.calc_check_digit asciiDec [49, 50, 51, 52] = .ok [c] ∧ isAsciiDigit c = true ∧
    Verhoeff.validate asciiDec ([49, 50, 51, 52] ++ [c]) = .ok ([49, 50, 51, 52] ++ [c]) :=
  verhoeff_append_valid asciiDec asciiDec_extends [49, 50, 51, 52] (by decide)
example : Verhoeff.calc_check_digit asciiDec [49, 50, 51, 52] = .ok [48] := by decide
example : isOk (Verhoeff.validate asciiDec ([49, 50, 51, 52] ++ [48])) = true ↔
    Verhoeff.calc_check_digit asciiDec [49, 50, 51, 52] = .ok [48] :=
  verhoeff_check_unique asciiDec asciiDec_extends [49, 50, 51, 52] 48 (by decide) (by decide)
example : Verhoeff.validate asciiDec [49, 55, 51, 52, 48] = .error .invalidChecksum :=
  verhoeff_subst_detected asciiDec asciiDec_extends [49] [51, 52, 48] 50 55 (by decide) (by decide) (by decide) (by decide)
example : Verhoeff.validate asciiDec [49, 51, 50, 52, 48] = .error .invalidChecksum :=
  verhoeff_swap_detected asciiDec asciiDec_extends [49] [52, 48] 50 51 (by decide) (by decide) (by decide)

/-! Damm: `5724` -/
example : ∃ c, Damm.calc_check_digit asciiDec [53, 55, 50] none = .ok [c] ∧ isAsciiDigit c = true ∧
    Damm.validate asciiDec ([53, 55, 50] ++ [c]) none = .ok ([53, 55, 50] ++ [c]) :=
  damm_append_valid asciiDec asciiDec_extends [53, 55, 50] (by decide)
example : Damm.calc_check_digit asciiDec [53, 55, 50] none = .ok [52] := by decide
example : isOk (Damm.validate asciiDec ([53, 55, 50] ++ [52]) none) = true ↔
    Damm.calc_check_digit asciiDec [53, 55, 50] none = .ok [52] :=
  damm_check_unique asciiDec asciiDec_extends [53, 55, 50] 52 (by decide) (by decide)
example : Damm.validate asciiDec [53, 48, 50, 52] none = .error .invalidChecksum :=
  damm_subst_detected asciiDec asciiDec_extends [53] [50, 52] 55 48 (by decide) (by decide) (by decide) (by decide)
example : Damm.validate asciiDec [53, 50, 55, 52] none = .error .invalidChecksum :=
  damm_swap_detected asciiDec asciiDec_extends [53] [52] 55 50 (by decide) (by decide) (by decide)

/-! mod_11_2: `079X`; `X` is accepted in the middle as well: `1X32` -/
example : ∃ c, Mod112.calc_check_digit asciiDec [48, 55, 57] = .ok [c] ∧ isD11 c = true ∧
    Mod112.validate asciiDec ([48, 55, 57] ++ [c]) = .ok ([48, 55, 57] ++ [c]) :=
  mod_11_2_append_valid asciiDec asciiDec_extends [48, 55, 57] (by decide)
example : Mod112.calc_check_digit asciiDec [48, 55, 57] = .ok [88] := by decide
example : isOk (Mod112.validate asciiDec ([48, 55, 57] ++ [88])) = true ↔
    Mod112.calc_check_digit asciiDec [48, 55, 57] = .ok [88] :=
  mod_11_2_check_unique asciiDec asciiDec_extends [48, 55, 57] 88 (by decide) (by decide)
example : Mod112.validate asciiDec [48, 88, 57, 88] = .error .invalidChecksum :=
  mod_11_2_subst_detected asciiDec asciiDec_extends [48] [57, 88] 55 88 (by decide) (by decide) (by decide) (by decide)
example : Mod112.validate asciiDec [48, 55, 88, 57] = .error .invalidChecksum :=
  mod_11_2_swap_detected asciiDec asciiDec_extends [48, 55] [] 57 88 (by decide) (by decide) (by decide)
example : Mod112.validate asciiDec [49, 88, 51, 50] = .ok [49, 88, 51, 50] := by decide

/-! mod_37_2: `G123489654321Y` -/
example : ∃ c, Mod372.calc_check_digit [71, 49, 50, 51, 52, 56, 57, 54, 53, 52, 51, 50, 49] Mod372.defaultAlphabet = .ok [c] ∧
    Mod372.validate ([71, 49, 50, 51, 52, 56, 57, 54, 53, 52, 51, 50, 49] ++ [c]) Mod372.defaultAlphabet = .ok ([71, 49, 50, 51, 52, 56, 57, 54, 53, 52, 51, 50, 49] ++ [c]) :=
  mod_37_2_append_valid Mod372.defaultAlphabet [71, 49, 50, 51, 52, 56, 57, 54, 53, 52, 51, 50, 49] (by decide) (by decide) (by decide)
example : Mod372.calc_check_digit [71, 49, 50, 51, 52, 56, 57, 54, 53, 52, 51, 50, 49] Mod372.defaultAlphabet = .ok [89] := by decide
example : isOk (Mod372.validate ([71, 49, 50, 51, 52, 56, 57, 54, 53, 52, 51, 50, 49] ++ [89]) Mod372.defaultAlphabet) = true ↔
    Mod372.calc_check_digit [71, 49, 50, 51, 52, 56, 57, 54, 53, 52, 51, 50, 49] Mod372.defaultAlphabet = .ok [89] :=
  mod_37_2_check_unique Mod372.defaultAlphabet [71, 49, 50, 51, 52, 56, 57, 54, 53, 52, 51, 50, 49] 89 (by decide) (by decide) (by decide) (by decide)
example : Mod372.validate [71, 49, 50, 42, 52, 56, 57, 54, 53, 52, 51, 50, 49, 89] Mod372.defaultAlphabet = .error .invalidChecksum :=
  mod_37_2_subst_detected Mod372.defaultAlphabet [71, 49, 50] [52, 56, 57, 54, 53, 52, 51, 50, 49, 89] 51 42 (by decide) (by decide) (by decide) (by decide) (by decide)
example : Mod372.validate [71, 49, 50, 51, 52, 56, 57, 54, 53, 52, 51, 50, 89, 49] Mod372.defaultAlphabet = .error .invalidChecksum :=
  mod_37_2_swap_detected Mod372.defaultAlphabet [71, 49, 50, 51, 52, 56, 57, 54, 53, 52, 51, 50] [] 49 89 (by decide) (by decide) (by decide) (by decide)

/-! mod_11_10: `794623`; undetected transposition `560` / `650` -/
example : ∃ c, Mod1110.calc_check_digit asciiDec [55, 57, 52, 54, 50] = .ok [c] ∧ isAsciiDigit c = true ∧
    Mod1110.validate asciiDec ([55, 57, 52, 54, 50] ++ [c]) = .ok ([55, 57, 52, 54, 50] ++ [c]) :=
  mod_11_10_append_valid asciiDec asciiDec_extends [55, 57, 52, 54, 50] (by decide)
example : Mod1110.calc_check_digit asciiDec [55, 57, 52, 54, 50] = .ok [51] := by decide
example : isOk (Mod1110.validate asciiDec ([55, 57, 52, 54, 50] ++ [51])) = true ↔
    Mod1110.calc_check_digit asciiDec [55, 57, 52, 54, 50] = .ok [51] :=
  mod_11_10_check_unique asciiDec asciiDec_extends [55, 57, 52, 54, 50] 51 (by decide) (by decide)
example : Mod1110.validate asciiDec [55, 48, 52, 54, 50, 51] = .error .invalidChecksum :=
  mod_11_10_subst_detected asciiDec asciiDec_extends [55] [52, 54, 50, 51] 57 48 (by decide) (by decide) (by decide) (by decide)
example : Mod1110.validate asciiDec [55, 52, 57, 54, 50, 51] = .error .invalidChecksum :=
  (mod_11_10_swap_undetected_iff asciiDec asciiDec_extends [55] [54, 50, 51] 57 52 (by decide) (by decide) (by decide)).2
    (by decide)
/-- the literal property ("rejects every adjacent swap") is false for the hybrid system Mod 11-10 -/
theorem mod_11_10_swap_not_always_detected :
    Mod1110.validate asciiDec [53, 54, 48] = .ok [53, 54, 48] ∧ Mod1110.validate asciiDec [54, 53, 48] = .ok [54, 53, 48] :=
  ⟨by decide, (mod_11_10_swap_undetected_iff asciiDec asciiDec_extends [] [48] 53 54 (by decide) (by decide) (by decide)).1
    (by decide)⟩

/-! mod_37_36: `A12425GABC1234002M`; undetected transposition `901` / `910` -/
example : ∃ c, Mod3736.calc_check_digit [65, 49, 50, 52, 50, 53, 71, 65, 66, 67, 49, 50, 51, 52, 48, 48, 50] Mod3736.defaultAlphabet = .ok [c] ∧
    Mod3736.validate ([65, 49, 50, 52, 50, 53, 71, 65, 66, 67, 49, 50, 51, 52, 48, 48, 50] ++ [c]) Mod3736.defaultAlphabet = .ok ([65, 49, 50, 52, 50, 53, 71, 65, 66, 67, 49, 50, 51, 52, 48, 48, 50] ++ [c]) :=
  mod_37_36_append_valid Mod3736.defaultAlphabet [65, 49, 50, 52, 50, 53, 71, 65, 66, 67, 49, 50, 51, 52, 48, 48, 50] (by decide) (by decide) (by decide)
example : Mod3736.calc_check_digit [65, 49, 50, 52, 50, 53, 71, 65, 66, 67, 49, 50, 51, 52, 48, 48, 50] Mod3736.defaultAlphabet = .ok [77] := by decide
example : isOk (Mod3736.validate ([65, 49, 50, 52, 50, 53, 71, 65, 66, 67, 49, 50, 51, 52, 48, 48, 50] ++ [77]) Mod3736.defaultAlphabet) = true ↔
    Mod3736.calc_check_digit [65, 49, 50, 52, 50, 53, 71, 65, 66, 67, 49, 50, 51, 52, 48, 48, 50] Mod3736.defaultAlphabet = .ok [77] :=
  mod_37_36_check_unique Mod3736.defaultAlphabet [65, 49, 50, 52, 50, 53, 71, 65, 66, 67, 49, 50, 51, 52, 48, 48, 50] 77 (by decide) (by decide) (by decide) (by decide)
example : Mod3736.validate [65, 49, 50, 90, 50, 53, 71, 65, 66, 67, 49, 50, 51, 52, 48, 48, 50, 77] Mod3736.defaultAlphabet = .error .invalidChecksum :=
  mod_37_36_subst_detected Mod3736.defaultAlphabet [65, 49, 50] [50, 53, 71, 65, 66, 67, 49, 50, 51, 52, 48, 48, 50, 77] 52 90 (by decide) (by decide) (by decide) (by decide) (by decide)
example : Mod3736.validate [65, 49, 50, 52, 50, 71, 53, 65, 66, 67, 49, 50, 51, 52, 48, 48, 50, 77] Mod3736.defaultAlphabet = .error .invalidChecksum :=
  (mod_37_36_swap_undetected_iff Mod3736.defaultAlphabet [65, 49, 50, 52, 50] [65, 66, 67, 49, 50, 51, 52, 48, 48, 50, 77] 53 71 (by decide) (by decide) (by decide) (by decide)).2
    (by decide)
/-- the literal property is false for the hybrid system Mod 37-36 as well -/
theorem mod_37_36_swap_not_always_detected :
    Mod3736.validate [57, 48, 49] Mod3736.defaultAlphabet = .ok [57, 48, 49] ∧
    Mod3736.validate [57, 49, 48] Mod3736.defaultAlphabet = .ok [57, 49, 48] :=
  ⟨by decide, (mod_37_36_swap_undetected_iff Mod3736.defaultAlphabet [57] [] 48 49 (by decide) (by decide) (by decide) (by decide)).1
    (by decide)⟩

/-! mod_97_10: `9999123456789012141490` -/
example : ∃ c1 c2, Mod9710.calc_check_digits asciiB36 defaultMaxDigits [57, 57, 57, 57, 49, 50, 51, 52, 53, 54, 55, 56, 57, 48, 49, 50, 49, 52, 49, 52] = .ok [c1, c2] ∧
    isAsciiDigit c1 = true ∧ isAsciiDigit c2 = true ∧
    Mod9710.validate asciiB36 defaultMaxDigits ([57, 57, 57, 57, 49, 50, 51, 52, 53, 54, 55, 56, 57, 48, 49, 50, 49, 52, 49, 52] ++ [c1, c2]) = .ok ([57, 57, 57, 57, 49, 50, 51, 52, 53, 54, 55, 56, 57, 48, 49, 50, 49, 52, 49, 52] ++ [c1, c2]) :=
  mod_97_10_append_valid_partial asciiB36 asciiB36_extends defaultMaxDigits [57, 57, 57, 57, 49, 50, 51, 52, 53, 54, 55, 56, 57, 48, 49, 50, 49, 52, 49, 52] (by decide) (by decide)
example : Mod9710.calc_check_digits asciiB36 defaultMaxDigits [57, 57, 57, 57, 49, 50, 51, 52, 53, 54, 55, 56, 57, 48, 49, 50, 49, 52, 49, 52] = .ok [57, 48] := by decide
example : isOk (Mod9710.validate asciiB36 defaultMaxDigits ([57, 57, 57, 57, 49, 50, 51, 52, 53, 54, 55, 56, 57, 48, 49, 50, 49, 52, 49, 52] ++ [57, 48])) = true ↔
    Mod9710.calc_check_digits asciiB36 defaultMaxDigits [57, 57, 57, 57, 49, 50, 51, 52, 53, 54, 55, 56, 57, 48, 49, 50, 49, 52, 49, 52] = .ok [57, 48] :=
  mod_97_10_check_unique_in_range asciiB36 asciiB36_extends defaultMaxDigits [57, 57, 57, 57, 49, 50, 51, 52, 53, 54, 55, 56, 57, 48, 49, 50, 49, 52, 49, 52] 57 48 (by decide) (by decide) (by decide)
    (by decide) (by decide) (by decide)
example : Mod9710.validate asciiB36 defaultMaxDigits [57, 57, 57, 57, 55, 50, 51, 52, 53, 54, 55, 56, 57, 48, 49, 50, 49, 52, 49, 52, 57, 48] = .error .invalidChecksum :=
  mod_97_10_subst_digit_detected asciiB36 asciiB36_extends defaultMaxDigits [57, 57, 57, 57] [50, 51, 52, 53, 54, 55, 56, 57, 48, 49, 50, 49, 52, 49, 52, 57, 48] 49 55 (by decide) (by decide) (by decide)
    (by decide) (by decide)
example : Mod9710.validate asciiB36 defaultMaxDigits [57, 57, 57, 57, 50, 49, 51, 52, 53, 54, 55, 56, 57, 48, 49, 50, 49, 52, 49, 52, 57, 48] = .error .invalidChecksum :=
  mod_97_10_swap_digit_detected asciiB36 asciiB36_extends defaultMaxDigits [57, 57, 57, 57] [51, 52, 53, 54, 55, 56, 57, 48, 49, 50, 49, 52, 49, 52, 57, 48] 49 50 (by decide) (by decide) (by decide)
    (by decide) (by decide)
/-- letters: `AB323` valid; `B`→`C` and `AB`→`BA` are detected -/
example : Mod9710.validate asciiB36 defaultMaxDigits [65, 67, 51, 50, 51] = .error .invalidChecksum :=
  mod_97_10_subst_detected asciiB36 asciiB36_extends defaultMaxDigits [65] [51, 50, 51] 66 67 (by decide) (by decide) (by decide) (by decide)
    (by decide)
example : Mod9710.validate asciiB36 defaultMaxDigits [66, 65, 51, 50, 51] = .error .invalidChecksum :=
  mod_97_10_swap_detected asciiB36 asciiB36_extends defaultMaxDigits [] [51, 50, 51] 65 66 (by decide) (by decide) (by decide) (by decide)

/-- the two check digits are **not** unique: `9798` (generated) and `9701` are both valid; likewise
`3202`/`3299` and `6597`/`6500` -/
theorem mod_97_10_check_digits_not_unique :
    Mod9710.calc_check_digits asciiB36 defaultMaxDigits [57, 55] = .ok [57, 56] ∧
    isOk (Mod9710.validate asciiB36 defaultMaxDigits [57, 55, 57, 56]) = true ∧
    isOk (Mod9710.validate asciiB36 defaultMaxDigits [57, 55, 48, 49]) = true := by decide

/-- "of the same kind" is needed: digit ↔ letter transposition `1B56` / `B156`, letter → digit substitution
`3U78` / `3978` and the case change `A768` / `a768` all go undetected -/
theorem mod_97_10_mixed_kinds_undetected :
    isOk (Mod9710.validate asciiB36 defaultMaxDigits [49, 66, 53, 54]) = true ∧
    isOk (Mod9710.validate asciiB36 defaultMaxDigits [66, 49, 53, 54]) = true ∧
    isOk (Mod9710.validate asciiB36 defaultMaxDigits [51, 85, 55, 56]) = true ∧
    isOk (Mod9710.validate asciiB36 defaultMaxDigits [51, 57, 55, 56]) = true ∧
    isOk (Mod9710.validate asciiB36 defaultMaxDigits [65, 55, 54, 56]) = true ∧
    isOk (Mod9710.validate asciiB36 defaultMaxDigits [97, 55, 54, 56]) = true := by decide

theorem width_replicate_zero (n : Nat) : Mod9710.width ((List.replicate n 48).map b36Val) = n := by
  induction n with
  | zero => rfl
  | succ n ih =>
    rw [List.replicate_succ, List.map_cons, width_cons, ih]
    have : b36Val 48 = 0 := by decide
    rw [this]; simp; omega

/-- **append-valid is false at unbounded length on CPython ≥ 3.11**: for the payload `'0' * 4299` (and
every longer one) `calc_check_digits` raises ValueError (`int()` refuses more than 4300 digits), and no
check digits make it valid. -/
theorem mod_97_10_append_valid_fails_at_4299 :
    Mod9710.calc_check_digits asciiB36 defaultMaxDigits (List.replicate 4299 48) = .error .valueError ∧
    ∀ c1 c2, isAsciiDigit c1 = true → isAsciiDigit c2 = true →
      Mod9710.validate asciiB36 defaultMaxDigits (List.replicate 4299 48 ++ [c1, c2]) =
        .error .invalidFormat := by
  have hp : AllIn isAsciiAlnum (List.replicate 4299 48) := by
    intro c hc
    rw [List.eq_of_mem_replicate hc]; decide
  have hlong : defaultMaxDigits < Mod9710.width ((List.replicate 4299 48).map b36Val) + 2 := by
    rw [width_replicate_zero]; decide
  exact ⟨mod_97_10_calc_fails_when_long asciiB36 asciiB36_extends _ _ hp (by decide) hlong,
    fun c1 c2 h1 h2 => mod_97_10_nothing_valid_when_long asciiB36 asciiB36_extends _ _ c1 c2 hp h1 h2
      (by decide) hlong⟩

end Props.C06

#print axioms Props.C06.luhn_append_valid
#print axioms Props.C06.luhn_check_unique
#print axioms Props.C06.luhn_subst_detected
#print axioms Props.C06.luhn_swap_undetected_iff
#print axioms Props.C06.verhoeff_append_valid
#print axioms Props.C06.verhoeff_check_unique
#print axioms Props.C06.verhoeff_subst_detected
#print axioms Props.C06.verhoeff_swap_detected
#print axioms Props.C06.damm_append_valid
#print axioms Props.C06.damm_check_unique
#print axioms Props.C06.damm_subst_detected
#print axioms Props.C06.damm_swap_detected
#print axioms Props.C06.mod_11_2_append_valid
#print axioms Props.C06.mod_11_2_check_unique
#print axioms Props.C06.mod_11_2_subst_detected
#print axioms Props.C06.mod_11_2_swap_detected
#print axioms Props.C06.mod_37_2_append_valid
#print axioms Props.C06.mod_37_2_check_unique
#print axioms Props.C06.mod_37_2_subst_detected
#print axioms Props.C06.mod_37_2_swap_detected
#print axioms Props.C06.mod_11_10_append_valid
#print axioms Props.C06.mod_11_10_check_unique
#print axioms Props.C06.mod_11_10_subst_detected
#print axioms Props.C06.mod_11_10_swap_undetected_iff
#print axioms Props.C06.mod_11_10_swap_not_always_detected
#print axioms Props.C06.mod_11_10_eq_mod_37_36
#print axioms Props.C06.mod_37_36_append_valid
#print axioms Props.C06.mod_37_36_check_unique
#print axioms Props.C06.mod_37_36_subst_detected
#print axioms Props.C06.mod_37_36_swap_undetected_iff
#print axioms Props.C06.mod_37_36_swap_not_always_detected
#print axioms Props.C06.mod_97_10_append_valid_partial
#print axioms Props.C06.mod_97_10_calc_fails_when_long
#print axioms Props.C06.mod_97_10_nothing_valid_when_long
#print axioms Props.C06.mod_97_10_append_valid_fails_at_4299
#print axioms Props.C06.mod_97_10_check_iff
#print axioms Props.C06.mod_97_10_check_unique_in_range
#print axioms Props.C06.mod_97_10_check_digits_not_unique
#print axioms Props.C06.mod_97_10_subst_detected
#print axioms Props.C06.mod_97_10_subst_digit_detected
#print axioms Props.C06.mod_97_10_swap_detected
#print axioms Props.C06.mod_97_10_swap_digit_detected
#print axioms Props.C06.mod_97_10_mixed_kinds_undetected
