import Props.C11data.All
import Props.C11data.Reach
import Props.C11data.ConsSmall
import Props.C11data.ConsBeBanks
import Props.C11data.ConsIban
import Props.C11data.ConsIbanWit
import Props.C11data.ConsIbanWit2
import Props.C11data.ConsIsbn
/-!
# Props.C11 — every shipped registry entry is well-formed and usable by its consumer

## Data (regenerated on every check by `tools/gen_c11.py`)

Every registry file under `stdnum/` except `oui.dat` (45 881 entries, too large for the kernel; covered by the
native search `tools/search/c11.py`) and `gs1_ai.dat` (GS1 helper) is dumped **as the real reader
`stdnum.numdb.read` understood it** into chunk files `Props/C11data/<name>_<k>.lean`: one `LRow` per data line
(nesting depth in the Python tree, indent, range tokens, property dict, raw text).  `Props.C11.treeOf` rebuilds the
entry tree (`Spec.NumDB.Entry`); `Props.C11.Data.<name>.tree` is the whole registry (15 registries, 16 032 data
lines, 19 701 entries).

How the dumped tree is tied to the model reader `Spec.NumDB.readText` (C10):
* for `at/fa`, `be/banks`, `cz/banks`, `iban`, `isbn`, `isil`, `my/bp`, `us/ein` **proved in the kernel**:
  `Props.C11.Data.<name>.db_eq : Gen.db_<name>.db = Props.C11.Data.<name>.tree` (`Props/C11data/<name>_link.lean`:
  the embedded string literal is converted to code points by the kernel alone, the Lean reader is run on it by
  `decide +kernel`, the result is compared structurally with the dumped tree).  So for these registries the
  Python reader and the Lean reader provably agree on the current file, and the theorems below speak about the
  constant the generated consumers use;
* for the seven larger ones (`at/postleitzahl`, `cfi`, `cn/loc`, `eu/nace`, `id/loc`, `imsi`, `nz/banks`) by the
  native differential run `tools/corr/numdb.py` (all shipped files, tree equality + lookups) — tested, not proved.

## Per registry (all by kernel evaluation, chunk by chunk, lifted by `Props/C11data/Lift.lean`)

* `<name>_structure` : the depths of the Python tree are the ones the **indentation stack discipline** assigns
  (deeper indent = child of the previous line, otherwise back to an open level; first line unindented) and the
  rebuilt tree uses every row;
* `<name>_lines` : **every line is understood completely** — writing the parsed ranges and properties back in the
  file's own format reproduces the line character by character (`lineOk`).  `imsi.dat` has 15 lines with a
  quotation mark inside a value (the value is cut at the inner quote, the rest is dropped silently):
  `imsiQuoteLines`, exact;
* `<name>_violations` / `<name>_WF` : the exact list of structural defects (`Props.C11.violations`): end points of
  different length or out of order, `length ≠ |low|`, empty range, malformed property key/value, the same range
  twice with contradicting properties (`dup`), an entry shadowed by a shorter matching sibling (`shadow`),
  overlapping ranges that both have children (`clash`).  Twelve registries have none (`WF`).  Exceptions, exact
  (a new defect changes the list and breaks the proof): `imsiShadowed` (18 three-digit MNCs behind a two-digit
  sibling), `cfiDuplicates` (1), `usEinDuplicates` (1: prefix 46 is both `Internet` and `Philadelphia`).
  Exact repetitions of a line (330 in `at/postleitzahl.dat`) and the summary line of `isbn.dat` are not defects
  (they change no lookup result);
* `<name>_reachable` : **every entry, at every depth, is returned by `_find`** for the number made of the `low`
  values down its path (`Hits`); for `imsi` every entry that is not one of the 18 shadowed ones.

## General theorems (all trees; `Props/C11data/Reach.lean`)

`reachable_of_chainGood` (T1), `reachable_of_WF` (T2), `reachable_except` / `reachable_of_listed` (T3),
`split_of_chainGood`, and the soundness of the linear pass `sortedOk_sound` (`Lift.lean`).

## Consumers (generated code, kernel evaluation after rewriting the registry constant with `db_eq`)

* `at_fa_info`, `be_banks_info`, `cz_banks__info`, `cz_banks_info`, `my_bp_birth_place`, `us_ein_campus`, `isil_known_agency`
  (`ConsSmall.lean`, `ConsBeBanks.lean`): every entry is returned by the module's getter, for numbers at both ends
  of its range (be/banks: lower end); the one exception is the first `46` of `us/ein.dat`;
* `iban_struct_table`, `iban_struct_shape`, `structRe_fixed`, `iban_witness` (`ConsIban*.lean`): the pattern CPython
  builds for every structure string is the fixed-width pattern of its `n/a/c` tokens (general lemma + table check),
  it accepts exactly the declared shape, and the generated `iban.validate(check_country=False)` accepts a
  synthesised account number of every line;
* `isbn_five_parts`, `isbn_groups_without_ranges` (`ConsIsbn.lean`): for **every** registrant range, item number and
  check digit the generated `isbn.split` returns the five parts (a theorem for all numbers, not a sample); the three
  registration groups without ranges are listed exactly.

Not covered: `oui.dat`, `gs1_ai.dat`; consumers of `cfi`, `cn/loc`, `eu/nace`, `imsi`, `at/postleitzahl`
(`info`/`get_label`/`get_birth_place` style getters; their registries have no kernel-checked link to the generated
constant because the files are too long for the kernel reader, 1.5 ms per character), `id/loc`, `nz/banks` (consumers
not translated).
-/
set_option maxRecDepth 100000
namespace Props.C11
open Spec.NumDB
open Py (Str)

/-! ## registries without defects -/

open Lean in
/-- the four per-registry theorems of a registry without structural defects -/
local macro "registry_clean " d:ident wf:ident ln:ident st:ident re:ident : command => do
  let tree := mkIdent (d.getId ++ `tree)
  let veq := mkIdent (d.getId ++ `violations_eq)
  let leq := mkIdent (d.getId ++ `lines_eq)
  let cok := mkIdent (d.getId ++ `chunks_ok)
  let rows := mkIdent (d.getId ++ `rowChunks)
  `(theorem $wf : WF $tree := by unfold WF; rw [$veq:ident]; decide +kernel
    theorem $ln : ($rows).flatMap lineViolations = [] := by rw [List.flatMap_def, $leq:ident]; decide +kernel
    theorem $st : ($rows).all chunkOk = true := $cok
    theorem $re (path : List Entry) (hc : Chain $tree path) : Hits path (find $tree (lows path)) :=
      reachable_of_WF _ $wf path hc)

registry_clean Data.at_fa at_fa_WF at_fa_lines at_fa_structure at_fa_reachable
registry_clean Data.at_postleitzahl at_postleitzahl_WF at_postleitzahl_lines at_postleitzahl_structure at_postleitzahl_reachable
registry_clean Data.be_banks be_banks_WF be_banks_lines be_banks_structure be_banks_reachable
registry_clean Data.cn_loc cn_loc_WF cn_loc_lines cn_loc_structure cn_loc_reachable
registry_clean Data.cz_banks cz_banks_WF cz_banks_lines cz_banks_structure cz_banks_reachable
registry_clean Data.eu_nace eu_nace_WF eu_nace_lines eu_nace_structure eu_nace_reachable
registry_clean Data.iban iban_WF iban_lines iban_structure iban_reachable
registry_clean Data.id_loc id_loc_WF id_loc_lines id_loc_structure id_loc_reachable
registry_clean Data.isbn isbn_WF isbn_lines isbn_structure isbn_reachable
registry_clean Data.isil isil_WF isil_lines isil_structure isil_reachable
registry_clean Data.my_bp my_bp_WF my_bp_lines my_bp_structure my_bp_reachable
registry_clean Data.nz_banks nz_banks_WF nz_banks_lines nz_banks_structure nz_banks_reachable

/-! ## registries with listed defects -/

/-- `cfi.dat`: `E/D/A-Z/A-Z/N` is listed twice with different values (`Dividends`, `Normal rate income`) -/
def cfiDuplicates : List Viol := [⟨.dup, [cp% "E", cp% "D", cp% "A", cp% "A"], [cp% "N", cp% "N", cp% "N", cp% "N"]⟩]

theorem cfi_violations : violations Data.cfi.tree = cfiDuplicates := by
  rw [Data.cfi.violations_eq]; decide +kernel
theorem cfi_lines : Data.cfi.rowChunks.flatMap lineViolations = [] := by
  rw [List.flatMap_def, Data.cfi.lines_eq]; decide +kernel
theorem cfi_structure : Data.cfi.rowChunks.all chunkOk = true := Data.cfi.chunks_ok
theorem cfi_reachable (path : List Entry) (hc : Chain Data.cfi.tree path) :
    Hits path (find Data.cfi.tree (lows path)) :=
  reachable_of_listed _ _ cfi_violations (by decide) path hc (by
    intro v hv hk
    simp only [cfiDuplicates, List.mem_singleton] at hv
    rw [hv] at hk; cases hk)

/-- `us/ein.dat`: prefix `46` is listed in line 7 (`Internet`) and in line 10 (`Philadelphia`) -/
def usEinDuplicates : List Viol := [⟨.dup, [], [cp% "46", cp% "46", cp% "46", cp% "46"]⟩]

theorem us_ein_violations : violations Data.us_ein.tree = usEinDuplicates := by
  rw [Data.us_ein.violations_eq]; decide +kernel
theorem us_ein_lines : Data.us_ein.rowChunks.flatMap lineViolations = [] := by
  rw [List.flatMap_def, Data.us_ein.lines_eq]; decide +kernel
theorem us_ein_structure : Data.us_ein.rowChunks.all chunkOk = true := Data.us_ein.chunks_ok
theorem us_ein_reachable (path : List Entry) (hc : Chain Data.us_ein.tree path) :
    Hits path (find Data.us_ein.tree (lows path)) :=
  reachable_of_listed _ _ us_ein_violations (by decide) path hc (by
    intro v hv hk
    simp only [usEinDuplicates, List.mem_singleton] at hv
    rw [hv] at hk; cases hk)

/-- `imsi.dat`: the 18 operator entries with a three-digit MNC that can never be returned because a two-digit MNC
of the same country matches first (`[shorter.low, shorter.high, shadowed.low, shadowed.high]` under the MCC) -/
def imsiShadowed : List Viol := [
    ⟨.shadow, [cp% "310"], [cp% "59", cp% "59", cp% "590", cp% "590"]⟩,
    ⟨.shadow, [cp% "310"], [cp% "59", cp% "59", cp% "591", cp% "591"]⟩,
    ⟨.shadow, [cp% "310"], [cp% "59", cp% "59", cp% "592", cp% "592"]⟩,
    ⟨.shadow, [cp% "310"], [cp% "59", cp% "59", cp% "593", cp% "593"]⟩,
    ⟨.shadow, [cp% "310"], [cp% "59", cp% "59", cp% "594", cp% "594"]⟩,
    ⟨.shadow, [cp% "310"], [cp% "59", cp% "59", cp% "595", cp% "595"]⟩,
    ⟨.shadow, [cp% "310"], [cp% "59", cp% "59", cp% "596", cp% "596"]⟩,
    ⟨.shadow, [cp% "310"], [cp% "59", cp% "59", cp% "597", cp% "597"]⟩,
    ⟨.shadow, [cp% "310"], [cp% "59", cp% "59", cp% "598", cp% "598"]⟩,
    ⟨.shadow, [cp% "310"], [cp% "59", cp% "59", cp% "599", cp% "599"]⟩,
    ⟨.shadow, [cp% "338"], [cp% "05", cp% "05", cp% "050", cp% "050"]⟩,
    ⟨.shadow, [cp% "350"], [cp% "00", cp% "00", cp% "007", cp% "007"]⟩,
    ⟨.shadow, [cp% "374"], [cp% "13", cp% "13", cp% "130", cp% "130"]⟩,
    ⟨.shadow, [cp% "405"], [cp% "04", cp% "04", cp% "048", cp% "048"]⟩,
    ⟨.shadow, [cp% "714"], [cp% "02", cp% "02", cp% "020", cp% "020"]⟩,
    ⟨.shadow, [cp% "738"], [cp% "00", cp% "00", cp% "002", cp% "002"]⟩,
    ⟨.shadow, [cp% "738"], [cp% "00", cp% "00", cp% "003", cp% "003"]⟩,
    ⟨.shadow, [cp% "999"], [cp% "99", cp% "99", cp% "999", cp% "999"]⟩]

/-- `imsi.dat`: the 15 lines with a quotation mark inside a property value -/
def imsiQuoteLines : List Str := [
    cp% " 06 cc=\"lv\" country=\"Latvia\" operator=\"SIA \"UNISTARS\"\"",
    cp% " 07 bands=\"MVNO\" cc=\"lv\" country=\"Latvia\" operator=\"SIA \"MEGATEL\"\" status=\"Operational\"",
    cp% " 08 bands=\"MVNO\" brand=\"VMT\" cc=\"lv\" country=\"Latvia\" operator=\"SIA \"VENTAmobile\"\" status=\"Operational\"",
    cp% " 08 bands=\"GSM 900 / GSM 1800 / TD-LTE 2300\" brand=\"Vainah Telecom\" cc=\"ru\" country=\"Russian Federation\" operator=\"CS \"VainahTelecom\"\" status=\"Operational\"",
    cp% " 21 bands=\"Satellite\" brand=\"GlobalTel\" cc=\"ru\" country=\"Russian Federation\" operator=\"JSC \"GlobalTel\"\" status=\"Operational\"",
    cp% " 97 bands=\"GSM 900 / GSM 1800 / UMTS 2100 / LTE 800 / LTE 900 / LTE 1800 / LTE 2600\" brand=\"Phoenix\" cc=\"ru\" country=\"Russian Federation\" operator=\"DPR \"Republican Telecommunications Operator\"\" status=\"Operational\"",
    cp% " 01 bands=\"GSM 900 / GSM 1800 / UMTS 2100 / LTE 900 / LTE 1800 / LTE 2600\" brand=\"Vodafone\" cc=\"ua\" country=\"Ukraine\" operator=\"PRJSC “VF Ukraine\"\" status=\"Operational\"",
    cp% " 02 bands=\"GSM 900 / GSM 1800 / UMTS 2100 / LTE 900 / LTE 1800 / LTE 2600\" brand=\"Kyivstar\" cc=\"ua\" country=\"Ukraine\" operator=\"PRJSC “Kyivstar\"\" status=\"Operational\"",
    cp% " 03 bands=\"GSM 900 / GSM 1800 / UMTS 2100 / LTE 900 / LTE 1800 / TD-LTE 2300 / LTE 2600\" brand=\"Kyivstar\" cc=\"ua\" country=\"Ukraine\" operator=\"PRJSC “Kyivstar\"\" status=\"Operational\"",
    cp% " 05 bands=\"GSM 1800\" brand=\"Kyivstar\" cc=\"ua\" country=\"Ukraine\" operator=\"PRJSC “Kyivstar\"\" status=\"Not operational\"",
    cp% " 09 cc=\"ua\" country=\"Ukraine\" operator=\"PRJSC \"Farlep-Invest\"\"",
    cp% " 21 bands=\"CDMA 800\" brand=\"PEOPLEnet\" cc=\"ua\" country=\"Ukraine\" operator=\"PRJSC “Telesystems of Ukraine\"\" status=\"Operational\"",
    cp% " 25 bands=\"CDMA 800\" brand=\"NEWTONE\" cc=\"ua\" country=\"Ukraine\" operator=\"PRJSC “Telesystems of Ukraine\"\" status=\"Not operational\"",
    cp% " 98 bands=\"GSM 900 / GSM 1800 / UMTS 2100 / LTE 800 / LTE 900 / LTE 1800 / LTE 2600\" brand=\"MKS (ex. Lugacom)\" cc=\"ru\" country=\"Russian Federation\" operator=\"OOO \"MKS\"\" status=\"Operational\"",
    cp% " 99 bands=\"GSM 900 / GSM 1800 / UMTS 2100 / LTE 800 / LTE 900 / LTE 1800 / LTE 2600\" brand=\"Phoenix; MKS (ex. Lugacom)\" cc=\"ua\" country=\"Ukraine\" operator=\"DPR \"Republican Telecommunications Operator\"; OOO \"MKS\"\" status=\"Not operational\""]

theorem imsi_violations : violations Data.imsi.tree = imsiShadowed := by
  rw [Data.imsi.violations_eq]; decide +kernel
theorem imsi_lines : Data.imsi.rowChunks.flatMap lineViolations = imsiQuoteLines := by
  rw [List.flatMap_def, Data.imsi.lines_eq]; decide +kernel
theorem imsi_structure : Data.imsi.rowChunks.all chunkOk = true := Data.imsi.chunks_ok

/-- every operator entry that is not one of the 18 shadowed ones (and every country entry) is returned -/
theorem imsi_reachable (path : List Entry) (hc : Chain Data.imsi.tree path)
    (hfree : ∀ v ∈ imsiShadowed, ∀ (i : Nat) (e : Entry), path[i]? = some e →
      ¬ (v.path = (path.take i).map (·.low) ∧ v.what.drop 2 = [e.low, e.high])) :
    Hits path (find Data.imsi.tree (lows path)) :=
  reachable_of_listed _ _ imsi_violations (by decide) path hc (fun v hv _ => hfree v hv)

/-! ## iban: the four slices of `ConsIbanWit*.lean` together -/

/-- **every IBAN registry line admits an account number that the generated `iban.validate(check_country=False)`
accepts and returns unchanged** -/
theorem iban_witness : ∀ e ∈ Data.iban.tree, ibanWitnessOk e = true := by
  intro e he
  rw [← List.take_append_drop 22 Data.iban.tree, List.mem_append] at he
  rcases he with he | he
  · exact iban_witness_a e he
  · rw [← List.take_append_drop 22 (Data.iban.tree.drop 22), List.mem_append] at he
    rcases he with he | he
    · exact iban_witness_b e he
    · rw [← List.take_append_drop 22 ((Data.iban.tree.drop 22).drop 22), List.mem_append] at he
      rcases he with he | he
      · exact iban_witness_c e he
      · exact iban_witness_d e he

/-! ## counts -/

theorem registry_sizes :
    [Data.at_fa.rowChunks, Data.at_postleitzahl.rowChunks, Data.be_banks.rowChunks, Data.cfi.rowChunks,
     Data.cn_loc.rowChunks, Data.cz_banks.rowChunks, Data.eu_nace.rowChunks, Data.iban.rowChunks,
     Data.id_loc.rowChunks, Data.imsi.rowChunks, Data.isbn.rowChunks, Data.isil.rowChunks, Data.my_bp.rowChunks,
     Data.nz_banks.rowChunks, Data.us_ein.rowChunks].map (fun cs => (cs.map List.length).sum) =
    [40, 2559, 190, 1530, 3377, 49, 996, 87, 530, 3624, 614, 42, 85, 2258, 12] := by
  simp only [List.map_cons, List.map_nil, Data.at_fa.row_count, Data.at_postleitzahl.row_count,
    Data.be_banks.row_count, Data.cfi.row_count, Data.cn_loc.row_count, Data.cz_banks.row_count,
    Data.eu_nace.row_count, Data.iban.row_count, Data.id_loc.row_count, Data.imsi.row_count, Data.isbn.row_count,
    Data.isil.row_count, Data.my_bp.row_count, Data.nz_banks.row_count, Data.us_ein.row_count]

/-! ## non-vacuity -/

-- a path of depth 3 in isbn.dat (978 / 3 / 00-02): `isbn_reachable` and `isbn_five_parts` talk about something
example : ((Data.isbn.tree[0]?).bind fun p => (p.children[11]?).bind fun g => (g.children[0]?).map fun r =>
    (p.low ++ g.low ++ r.low, r.high)) = some (cp% "978300", cp% "02") := by decide +kernel
-- the general theorems on a small tree: `9` with children `00-49`, `5`–`7` (two digits `50`…`79` written as one
-- digit: no shadowing because the `low`s differ in the first character)
private def exLeaf : Entry := ⟨1, cp% "5", cp% "7", [(cp% "k", cp% "one")], []⟩
private def exTop : Entry := ⟨1, cp% "9", cp% "9", [(cp% "a", cp% "b")], [⟨2, cp% "00", cp% "49", [(cp% "k", cp% "two")], []⟩, exLeaf]⟩
private def exTree : List Entry := [exTop]
example : WF exTree := by decide +kernel
example : Hits [exTop, exLeaf] (find exTree (cp% "95")) :=
  reachable_of_WF exTree (by decide +kernel) [exTop, exLeaf]
    ⟨List.mem_singleton.mpr rfl, List.mem_cons_of_mem _ (List.mem_singleton.mpr rfl)⟩
example : find exTree (cp% "95") = [(cp% "9", [(cp% "a", cp% "b")]), (cp% "5", [(cp% "k", cp% "one")])] := by
  decide +kernel
example : split exTree (cp% "95123") = [cp% "9", cp% "5", cp% "123"] := by decide +kernel
-- `WF` is not vacuous: a small tree with a shadowed entry is rejected, with the defect named
example : violations [⟨1, cp% "5", cp% "5", [], []⟩, ⟨2, cp% "59", cp% "59", [], []⟩] =
    [⟨.shadow, [], [cp% "5", cp% "5", cp% "59", cp% "59"]⟩] := by decide +kernel
-- `lineOk` rejects a quote inside a value (the reader cuts the value at the inner quote)
example : lineOk ⟨0, 0, [(cp% "06", none)], [(cp% "operator", cp% "SIA ")], cp% "06 operator=\"SIA \"UNISTARS\"\""⟩ = false := by
  decide +kernel
example : lineOk ⟨0, 0, [(cp% "06", none)], [(cp% "operator", cp% "SIA")], cp% "06 operator=\"SIA\""⟩ = true := by
  decide +kernel


#print axioms at_fa_WF
#print axioms at_fa_lines
#print axioms at_fa_structure
#print axioms at_fa_reachable
#print axioms at_postleitzahl_WF
#print axioms at_postleitzahl_lines
#print axioms at_postleitzahl_structure
#print axioms at_postleitzahl_reachable
#print axioms be_banks_WF
#print axioms be_banks_lines
#print axioms be_banks_structure
#print axioms be_banks_reachable
#print axioms cn_loc_WF
#print axioms cn_loc_lines
#print axioms cn_loc_structure
#print axioms cn_loc_reachable
#print axioms cz_banks_WF
#print axioms cz_banks_lines
#print axioms cz_banks_structure
#print axioms cz_banks_reachable
#print axioms eu_nace_WF
#print axioms eu_nace_lines
#print axioms eu_nace_structure
#print axioms eu_nace_reachable
#print axioms iban_WF
#print axioms iban_lines
#print axioms iban_structure
#print axioms iban_reachable
#print axioms id_loc_WF
#print axioms id_loc_lines
#print axioms id_loc_structure
#print axioms id_loc_reachable
#print axioms isbn_WF
#print axioms isbn_lines
#print axioms isbn_structure
#print axioms isbn_reachable
#print axioms isil_WF
#print axioms isil_lines
#print axioms isil_structure
#print axioms isil_reachable
#print axioms my_bp_WF
#print axioms my_bp_lines
#print axioms my_bp_structure
#print axioms my_bp_reachable
#print axioms nz_banks_WF
#print axioms nz_banks_lines
#print axioms nz_banks_structure
#print axioms nz_banks_reachable
#print axioms cfi_violations
#print axioms cfi_lines
#print axioms cfi_structure
#print axioms cfi_reachable
#print axioms us_ein_violations
#print axioms us_ein_lines
#print axioms us_ein_structure
#print axioms us_ein_reachable
#print axioms imsi_violations
#print axioms imsi_lines
#print axioms imsi_structure
#print axioms imsi_reachable
#print axioms registry_sizes
#print axioms sortedOk_sound
#print axioms levelCheck_eq
#print axioms belowFastL_eq
#print axioms belowL_chunks
#print axioms lineOkFast_eq
#print axioms readText_of_readsTo
#print axioms reachable_of_chainGood
#print axioms reachable_of_WF
#print axioms reachable_except
#print axioms reachable_of_listed
#print axioms split_of_chainGood
#print axioms chainGood_of_clean
#print axioms at_fa_info
#print axioms be_banks_info
#print axioms cz_banks__info
#print axioms cz_banks_info
#print axioms my_bp_birth_place
#print axioms us_ein_campus
#print axioms us_ein_overridden_count
#print axioms isil_known_agency
#print axioms isil_keys
#print axioms structRe_fixed
#print axioms structPattern_match_iff
#print axioms iban_struct_table
#print axioms iban_struct_shape
#print axioms iban_witness
#print axioms isbn_split_wrapper
#print axioms isbn_tree_wf
#print axioms isbn_shape
#print axioms isbn_groups_without_ranges
#print axioms isbn_five_parts
#print axioms Data.at_fa.db_eq
#print axioms Data.be_banks.db_eq
#print axioms Data.cz_banks.db_eq
#print axioms Data.iban.db_eq
#print axioms Data.id_loc.db_eq
#print axioms Data.isbn.db_eq
#print axioms Data.isil.db_eq
#print axioms Data.my_bp.db_eq
#print axioms Data.us_ein.db_eq

end Props.C11
