import Spec.State
/-!
# Props.C13 — "Results are independent of call history, ordering, aliasing and threads"

Theorems about the model `Spec/State.lean`.  Everything is unbounded: any key/value types, any
normalisation, any environment, any number of calls, threads, steps, registry rows, heap sizes.

(a) `sequential_pure`, `sequential_pure_from_reachable`: with a cache keyed finely enough
    (`Factors`), every output of every finite sequence of calls from any reachable cache state equals
    the cache-free value; `real_caches_factor`: the key functions of the four caches of the library
    satisfy `Factors`; `sequential_fails_without_factoring`: keyed by basename (`'banks'`) the theorem
    is false, by a concrete run.
(b) `reachable_inv` and its corollaries `returned_values_pure`, `never_crashes`: under every
    interleaving of any number of threads, every value returned by `get` is the cache-free value and
    `return cache[k]` never raises; `store_idempotent`: a duplicate fill does not change any lookup.
(c) `find_noninterference`: after any sequence of lookups and in-place mutations of returned
    dictionaries, every lookup returns what the pure lookup on the original registry returns;
    `findBad_interference`: with `properties = props` it does not.

**What this model cannot exhibit** (covered only by the runtime exploration `tools/search/c13.py`):
* CPython's import machinery: the per-module import lock, half-initialised modules (import still running) seen by a
  second thread during a concurrent first import of a country module, `sys.modules` manipulation by
  shim modules; here `load` is an atomic total function.
  **This limitation is not academic**: `tools/search/c13.py` exhibits a schedule of the real code
  in which `util.get_cc_module('gb', 'vat')` returns `None` for an existing module (a second thread
  is between "module published in `sys.modules`" and "module bound as attribute of its package"
  inside importlib, and `get_cc_module` uses `getattr(package, name, None)`), i.e. the real `load`
  is *not* a function of its argument under concurrency; `iban/eu.vat/vatin._get_cc_module` then
  store that `None` for the life of the process.  The theorems below are therefore about the
  caching logic given an atomic, deterministic `load`; `fault_is_cached` shows what the same
  caching logic does with a transient wrong answer of `load`: it makes it permanent.
* C-level data races and the atomicity of `dict` operations: the model *assumes* that `k in d`,
  `d[k] = v` and `d[k]` are atomic (true under the GIL; the free-threaded build uses per-object
  locks), and that `compute` touches no shared state.
* Time: calls that read the system date are pure only relative to the date.
* The correspondence between the real functions and `Prog`/`findWith` is established by testing
  (the search engine compares every call with a fresh interpreter and scans `id()`-reachability),
  not by proof.
-/
namespace Props.C13
open Py Spec.State

/-! ## (a) sequential -/

section Seq
variable {RawKey Key Val : Type} [DecidableEq Key]

theorem cacheInv_nil (key : RawKey → Key) (load : RawKey → Val) : CacheInv key load ([] : Cache Key Val) := by
  intro r v h; simp [find?] at h

theorem cacheInv_store {key : RawKey → Key} {load : RawKey → Val} {c : Cache Key Val}
    (hf : Factors key load) (hc : CacheInv key load c) (raw : RawKey) :
    CacheInv key load (store c (key raw) (load raw)) := by
  intro r v h
  simp only [store, find?] at h
  by_cases hk : key raw = key r
  · simp only [hk, if_true, Option.some.injEq] at h
    rw [← h]; exact hf raw r hk
  · simp only [hk, if_false] at h
    exact hc r v h

theorem get_spec {key : RawKey → Key} {load : RawKey → Val} {c : Cache Key Val}
    (hf : Factors key load) (hc : CacheInv key load c) (raw : RawKey) :
    (Spec.State.get key load c raw).1 = load raw ∧ CacheInv key load (Spec.State.get key load c raw).2 := by
  unfold Spec.State.get
  cases h : find? c (key raw) with
  | some v => exact ⟨hc raw v h, hc⟩
  | none => exact ⟨rfl, cacheInv_store hf hc raw⟩

theorem run_spec {Out : Type} {key : RawKey → Key} {load : RawKey → Val} (hf : Factors key load)
    (p : Prog RawKey Val Out) : ∀ (c : Cache Key Val), CacheInv key load c →
      (run key load p c).1 = pureRun load p ∧ CacheInv key load (run key load p c).2 := by
  induction p with
  | ret o => intro c hc; exact ⟨rfl, hc⟩
  | get raw k ih =>
    intro c hc
    obtain ⟨h1, h2⟩ := get_spec hf hc raw
    simp only [run, pureRun]
    rw [h1]
    exact ih (load raw) (Spec.State.get key load c raw).2 h2

/-- **Sequential theorem.** From any cache state satisfying the invariant (in particular any state
reachable from the empty cache, see `runAll_inv`), each output of any finite sequence of calls
equals its cache-free value. -/
theorem sequential_pure_from_reachable {Out : Type} {key : RawKey → Key} {load : RawKey → Val}
    (hf : Factors key load) (ps : List (Prog RawKey Val Out)) :
    ∀ (c : Cache Key Val), CacheInv key load c → runAll key load ps c = ps.map (pureRun load) := by
  induction ps with
  | nil => intro c _; rfl
  | cons p ps ih =>
    intro c hc
    obtain ⟨h1, h2⟩ := run_spec hf p c hc
    simp only [runAll, List.map_cons, h1, ih _ h2]

/-- from the initial (empty) state -/
theorem sequential_pure {Out : Type} {key : RawKey → Key} {load : RawKey → Val}
    (hf : Factors key load) (ps : List (Prog RawKey Val Out)) :
    runAll key load ps [] = ps.map (pureRun load) :=
  sequential_pure_from_reachable hf ps [] (cacheInv_nil key load)

/-- the state after any calls satisfies the invariant again (so "reachable" = "satisfies `CacheInv`") -/
theorem run_inv {Out : Type} {key : RawKey → Key} {load : RawKey → Val} (hf : Factors key load)
    (p : Prog RawKey Val Out) (c : Cache Key Val) (hc : CacheInv key load c) :
    CacheInv key load (run key load p c).2 := (run_spec hf p c hc).2

/-- A transient wrong answer of the computation becomes permanent: once a wrong value `w` has been
stored under the key of `raw`, every later `get raw` returns `w` and leaves the cache as it is
(what happens in the real code when `get_cc_module` spuriously returns `None`). -/
theorem fault_is_cached (key : RawKey → Key) (load : RawKey → Val) (c : Cache Key Val) (raw : RawKey) (w : Val) :
    Spec.State.get key load (store c (key raw) w) raw = (w, store c (key raw) w) := by
  simp [Spec.State.get, store, find?]

/-- order independence, as a corollary: a call's output does not depend on what ran before it -/
theorem order_independent {Out : Type} {key : RawKey → Key} {load : RawKey → Val}
    (hf : Factors key load) (before before' : List (Prog RawKey Val Out)) (p : Prog RawKey Val Out) :
    (runAll key load (before ++ [p]) []).getLast? = (runAll key load (before' ++ [p]) []).getLast? := by
  rw [sequential_pure hf, sequential_pure hf]
  simp

end Seq

/-- the four caches of the library are keyed finely enough, whatever `str.lower` and the
replacements do and whatever the files and modules contain -/
theorem real_caches_factor {Val : Type} (n : Norms) (readDb : Str → Val) (ccModule : Str → Str → Val) :
    Factors (keyOf n) (loadOf n readDb ccModule) := by
  intro r r' h
  obtain ⟨i, s⟩ := r
  obtain ⟨i', s'⟩ := r'
  cases i <;> cases i' <;> simp only [keyOf, Prod.mk.injEq, reduceCtorEq, false_and, true_and] at h <;>
    simp only [loadOf, h]

/-- `basename('be/banks') = 'banks'`: everything after the last `/` -/
def basename (s : Str) : Str := (s.reverse.takeWhile (· ≠ 47)).reverse

def idNorms : Norms := ⟨id, id, id⟩
def beBanks : Str := [98, 101, 47, 98, 97, 110, 107, 115]   -- 'be/banks'
def czBanks : Str := [99, 122, 47, 98, 97, 110, 107, 115]   -- 'cz/banks'

/-- one call: open a registry and return it -/
def openDb (name : Str) : Prog (CacheId × Str) Str Str := .get (.numdb, name) .ret

/-- **The hypothesis `Factors` is necessary.** With registries keyed by their last path component
(`'banks'`), `numdb.get('cz/banks')` after `numdb.get('be/banks')` returns the Belgian registry:
the sequential theorem fails (each registry's "content" is its own name here). -/
theorem sequential_fails_without_factoring :
    ¬ Factors (keyCoarse basename idNorms) (loadOf idNorms id (fun _ _ => [])) ∧
    runAll (keyCoarse basename idNorms) (loadOf idNorms id (fun _ _ => [])) [openDb beBanks, openDb czBanks] []
      = [beBanks, beBanks] ∧
    [openDb beBanks, openDb czBanks].map (pureRun (loadOf idNorms id (fun _ _ => []))) = [beBanks, czBanks] := by
  refine ⟨?_, by decide, by decide⟩
  intro h
  have := h (.numdb, beBanks) (.numdb, czBanks) (by decide)
  revert this
  decide

/-- non-vacuity of `sequential_pure`: with the real keying the same two calls (and a repetition)
give the right registries, and the caches are really used (the state is not empty afterwards) -/
example : runAll (keyOf idNorms) (loadOf idNorms id (fun _ _ => [])) [openDb beBanks, openDb czBanks, openDb beBanks] []
      = [beBanks, czBanks, beBanks] ∧
    (run (keyOf idNorms) (loadOf idNorms id (fun (_ _ : Str) => ([] : Str))) (openDb beBanks) []).2 ≠ [] := by
  decide

/-! ## (b) threads -/

section Threads
variable {RawKey Key Val : Type} [DecidableEq Key]

/-- what must hold of one thread, given the shared dictionary -/
def TInv (key : RawKey → Key) (load : RawKey → Val) (c : Cache Key Val) (t : Thread RawKey Val) : Prop :=
  (∀ p ∈ t.results, p.2 = load p.1) ∧
  match t.pc with
  | .store raw v => v = load raw
  | .ret raw => (find? c (key raw)).isSome = true
  | .crashed => False
  | _ => True

def CfgInv (key : RawKey → Key) (load : RawKey → Val) (cfg : Config RawKey Key Val) : Prop :=
  CacheInv key load cfg.cache ∧ ∀ t ∈ cfg.threads, TInv key load cfg.cache t

theorem find?_store_isSome {c : Cache Key Val} {k k' : Key} {v : Val}
    (h : (find? c k').isSome = true) : (find? (store c k v) k').isSome = true := by
  simp only [store, find?]
  by_cases hk : k = k'
  · simp [hk]
  · simpa [hk] using h

/-- other threads' invariants survive a `store` -/
theorem tinv_store {key : RawKey → Key} {load : RawKey → Val} {c : Cache Key Val}
    {t : Thread RawKey Val} (k : Key) (v : Val) (h : TInv key load c t) :
    TInv key load (store c k v) t := by
  obtain ⟨h1, h2⟩ := h
  refine ⟨h1, ?_⟩
  cases hpc : t.pc with
  | ret raw => rw [hpc] at h2; exact find?_store_isSome h2
  | store raw w => rw [hpc] at h2; exact h2
  | crashed => rw [hpc] at h2; exact h2
  | idle => trivial
  | test raw => trivial
  | compute raw => trivial

theorem step_inv {key : RawKey → Key} {load : RawKey → Val} (hf : Factors key load)
    {cfg cfg' : Config RawKey Key Val} (hs : Step key load cfg cfg') (hi : CfgInv key load cfg) :
    CfgInv key load cfg' := by
  obtain ⟨hc, ht⟩ := hi
  cases hs with
  | mk i t t' c' hget hstep =>
    have htm : t ∈ cfg.threads := List.mem_of_getElem? hget
    obtain ⟨hres, hpc⟩ := ht t htm
    -- it suffices to give the new cache invariant, the stepping thread's invariant, and monotonicity
    suffices H : CacheInv key load c' ∧ TInv key load c' t' ∧
        (∀ u, TInv key load cfg.cache u → TInv key load c' u) by
      refine ⟨H.1, ?_⟩
      intro u hu
      rcases List.mem_or_eq_of_mem_set hu with hu | rfl
      · exact H.2.2 u (ht u hu)
      · exact H.2.1
    unfold tstep at hstep
    cases hp : t.pc with
    | idle =>
      rw [hp] at hstep
      cases htodo : t.todo with
      | nil => simp [htodo] at hstep
      | cons raw rest =>
        simp only [htodo, Option.some.injEq, Prod.mk.injEq] at hstep
        obtain ⟨rfl, rfl⟩ := hstep
        exact ⟨hc, ⟨hres, trivial⟩, fun u hu => hu⟩
    | test raw =>
      rw [hp] at hstep
      by_cases hfound : (find? cfg.cache (key raw)).isSome = true
      · simp only [hfound, if_true, Option.some.injEq, Prod.mk.injEq] at hstep
        obtain ⟨rfl, rfl⟩ := hstep
        exact ⟨hc, ⟨hres, hfound⟩, fun u hu => hu⟩
      · simp only [hfound, Bool.false_eq_true, if_false, Option.some.injEq, Prod.mk.injEq] at hstep
        obtain ⟨rfl, rfl⟩ := hstep
        exact ⟨hc, ⟨hres, trivial⟩, fun u hu => hu⟩
    | compute raw =>
      rw [hp] at hstep
      simp only [Option.some.injEq, Prod.mk.injEq] at hstep
      obtain ⟨rfl, rfl⟩ := hstep
      exact ⟨hc, ⟨hres, rfl⟩, fun u hu => hu⟩
    | store raw v =>
      rw [hp] at hstep hpc
      simp only [Option.some.injEq, Prod.mk.injEq] at hstep
      obtain ⟨rfl, rfl⟩ := hstep
      simp only at hpc
      subst hpc
      refine ⟨cacheInv_store hf hc raw, ⟨hres, ?_⟩, fun u hu => tinv_store _ _ hu⟩
      simp [store, find?]
    | ret raw =>
      rw [hp] at hstep hpc
      simp only at hpc
      cases hfind : find? cfg.cache (key raw) with
      | none => rw [hfind] at hpc; cases hpc
      | some v =>
        simp only [hfind, Option.some.injEq, Prod.mk.injEq] at hstep
        obtain ⟨rfl, rfl⟩ := hstep
        refine ⟨hc, ⟨?_, trivial⟩, fun u hu => hu⟩
        intro p hp'
        rcases List.mem_append.mp hp' with hp' | hp'
        · exact hres p hp'
        · simp only [List.mem_cons, List.mem_nil_iff, or_false] at hp'
          subst hp'
          exact hc raw v hfind
    | crashed =>
      rw [hp] at hpc
      exact hpc.elim

theorem initial_inv {key : RawKey → Key} {load : RawKey → Val} {cfg : Config RawKey Key Val}
    (h : Initial cfg) : CfgInv key load cfg := by
  obtain ⟨hc, ht⟩ := h
  refine ⟨by rw [hc]; exact cacheInv_nil key load, ?_⟩
  intro t htm
  obtain ⟨h1, h2⟩ := ht t htm
  refine ⟨by rw [h2]; intro p hp; simp at hp, ?_⟩
  rw [h1]; trivial

/-- **Interleaving theorem.** In every configuration reachable by any schedule of any number of
threads, the dictionary holds only correct bindings and every thread's local state is consistent. -/
theorem reachable_inv {key : RawKey → Key} {load : RawKey → Val} (hf : Factors key load)
    {cfg : Config RawKey Key Val} (h : Reachable key load cfg) : CfgInv key load cfg := by
  induction h with
  | init cfg hi => exact initial_inv hi
  | step cfg cfg' _ hs ih => exact step_inv hf hs ih

/-- every value ever returned to any thread is the cache-free value -/
theorem returned_values_pure {key : RawKey → Key} {load : RawKey → Val} (hf : Factors key load)
    {cfg : Config RawKey Key Val} (h : Reachable key load cfg) :
    ∀ t ∈ cfg.threads, ∀ raw v, (raw, v) ∈ t.results → v = load raw := by
  intro t ht raw v hp
  exact ((reachable_inv hf h).2 t ht).1 (raw, v) hp

/-- `return cache[k]` never raises `KeyError`, under any interleaving -/
theorem never_crashes {key : RawKey → Key} {load : RawKey → Val} (hf : Factors key load)
    {cfg : Config RawKey Key Val} (h : Reachable key load cfg) :
    ∀ t ∈ cfg.threads, t.pc ≠ .crashed := by
  intro t ht hp
  have := ((reachable_inv hf h).2 t ht).2
  rw [hp] at this
  exact this

/-- **Duplicate fills are idempotent**: when two threads both saw a miss, the second `store`
leaves every lookup unchanged. -/
theorem store_idempotent {key : RawKey → Key} {load : RawKey → Val} {c : Cache Key Val}
    (hc : CacheInv key load c) (raw : RawKey) (hfilled : (find? c (key raw)).isSome = true) :
    ∀ k, find? (store c (key raw) (load raw)) k = find? c k := by
  intro k
  simp only [store, find?]
  by_cases hk : key raw = k
  · simp only [hk, if_true]
    subst hk
    cases h : find? c (key raw) with
    | none => rw [h] at hfilled; cases hfilled
    | some v => rw [hc raw v h]
  · simp [hk]

/-- run a given schedule (thread numbers); `none` if a chosen thread cannot move -/
def runSched (key : RawKey → Key) (load : RawKey → Val) :
    Config RawKey Key Val → List Nat → Option (Config RawKey Key Val)
  | cfg, [] => some cfg
  | cfg, i :: s =>
    match cfg.threads[i]? with
    | none => none
    | some t =>
      match tstep key load cfg.cache t with
      | none => none
      | some (c', t') => runSched key load ⟨c', cfg.threads.set i t'⟩ s

theorem runSched_reachable {key : RawKey → Key} {load : RawKey → Val} (s : List Nat) :
    ∀ (cfg cfg' : Config RawKey Key Val), Reachable key load cfg → runSched key load cfg s = some cfg' →
      Reachable key load cfg' := by
  induction s with
  | nil => intro cfg cfg' h hr; simp only [runSched, Option.some.injEq] at hr; rw [← hr]; exact h
  | cons i s ih =>
    intro cfg cfg' h hr
    simp only [runSched] at hr
    cases hg : cfg.threads[i]? with
    | none => simp [hg] at hr
    | some t =>
      simp only [hg] at hr
      cases hst : tstep key load cfg.cache t with
      | none => simp [hst] at hr
      | some r =>
        obtain ⟨c', t'⟩ := r
        simp only [hst] at hr
        exact ih _ _ (.step _ _ h (.mk cfg i t t' c' hg hst)) hr

end Threads

/-- two threads, each asking for registry 7 and then 8, `load n = n + 100` -/
def cfg0 : Config Nat Nat Nat := ⟨[], [⟨[7, 8], .idle, []⟩, ⟨[7], .idle, []⟩]⟩

/-- a schedule in which both threads see the miss for key 7, both compute, both store (duplicate
fill), both return; then thread 0 goes on with key 8 -/
def racySchedule : List Nat := [0, 1, 0, 1, 0, 1, 0, 1, 0, 1, 0, 0, 0, 0, 0]

/-- non-vacuity of the interleaving theorem: the racy schedule is executable, ends with both threads
idle, the dictionary holding key 7 twice (the duplicate fill) and key 8, and the results correct -/
example : (runSched id (· + 100) cfg0 racySchedule).map (fun cfg =>
    (cfg.cache, cfg.threads.map (·.results), cfg.threads.map (·.todo))) =
    some ([(8, 108), (7, 107), (7, 107)], [[(7, 107), (8, 108)], [(7, 107)]], [[], []]) := by decide

example : ∃ cfg, Reachable id (· + 100) cfg ∧ cfg.cache = [(8, 108), (7, 107), (7, 107)] := by
  have h : (runSched id (· + 100) cfg0 racySchedule).map (·.cache) = some [(8, 108), (7, 107), (7, 107)] := by
    decide
  obtain ⟨cfg, hcfg, hcache⟩ := Option.map_eq_some_iff.mp h
  refine ⟨cfg, runSched_reachable racySchedule cfg0 cfg (.init _ ⟨rfl, ?_⟩) hcfg, hcache⟩
  intro t ht
  simp only [cfg0, List.mem_cons, List.mem_nil_iff, or_false] at ht
  rcases ht with rfl | rfl <;> exact ⟨rfl, rfl⟩

/-- `Factors id load` holds for every `load` (hypothesis of the theorems above is satisfiable) -/
example (load : Nat → Nat) : Factors id load := by intro r r' h; rw [show r = r' from h]

/-- without `Factors` a thread can be handed a wrong value even sequentially inside the thread model:
key `n % 2`, thread asks for 1 then 3 and receives 101 for 3 -/
example : (runSched (· % 2) (· + 100) ⟨[], [⟨[1, 3], .idle, []⟩]⟩ [0, 0, 0, 0, 0, 0, 0, 0]).map
    (fun cfg => cfg.threads.map (·.results)) = some [[(1, 101), (3, 101)]] := by decide

/-! ## (c) aliasing -/

theorem getD_take {α : Type} (l : List α) (n a : Nat) (d : α) (h : a < n) :
    (l.take n).getD a d = l.getD a d := by
  simp only [List.getD_eq_getElem?_getD, List.getElem?_take, h, if_true]

/-- the registry part of the heap (the first `h0.length` cells) is still as loaded -/
def RegionIntact (h0 h : Heap) : Prop := h.take h0.length = h0

theorem RegionIntact.get {h0 h : Heap} (hr : RegionIntact h0 h) {a : Addr} (ha : a < h0.length) :
    h.get a = h0.get a := by
  unfold Heap.get
  rw [← getD_take h h0.length a [] ha, hr]

theorem RegionIntact.length_le {h0 h : Heap} (hr : RegionIntact h0 h) : h0.length ≤ h.length := by
  have := congrArg List.length hr
  simp only [List.length_take] at this
  omega

theorem RegionIntact.append {h0 h : Heap} (hr : RegionIntact h0 h) (x : Heap) : RegionIntact h0 (h ++ x) := by
  have hl := hr.length_le
  unfold RegionIntact at *
  rw [List.take_append_of_le_length hl, hr]

theorem RegionIntact.set {h0 h : Heap} (hr : RegionIntact h0 h) {a : Addr} (ha : h0.length ≤ a) (d : Dict) :
    RegionIntact h0 (h.set a d) := by
  unfold RegionIntact at *
  rw [List.take_set_of_le ha, hr]

/-- the shipped loop keeps `properties` a private dictionary and computes what the pure loop computes -/
theorem foldl_stepGood (h0 h : Heap) (hr : RegionIntact h0 h) (rows : List Row)
    (hrows : ∀ r ∈ rows, r.props < h0.length) : ∀ (part : Str) (d : Dict) (next : List Nat),
    ∃ part' d' next',
      rows.foldl (stepGood h) { part := part, props := .fresh d, next := next }
        = { part := part', props := .fresh d', next := next' } ∧
      rows.foldl (fun (st : Str × Dict × List Nat) r =>
          if matchesRow st.1 r then
            let st := if r.length < st.1.length then (st.1.take r.length, [], []) else st
            (st.1, dictUpdate st.2.1 (h0.get r.props), st.2.2 ++ r.children)
          else st) (part, d, next) = (part', d', next') := by
  induction rows with
  | nil => intro part d next; exact ⟨part, d, next, rfl, rfl⟩
  | cons r rows ih =>
    intro part d next
    have hr' := hr.get (hrows r (by simp))
    simp only [List.foldl_cons]
    by_cases hm : matchesRow part r = true
    · by_cases hl : r.length < part.length
      · have e1 : stepGood h { part := part, props := .fresh d, next := next } r
            = { part := part.take r.length, props := .fresh (dictUpdate [] (h0.get r.props)), next := [] ++ r.children } := by
          simp [stepGood, hm, hl, hr']
        rw [e1]
        simp only [hm, hl, if_true]
        exact ih (fun r hr => hrows r (by simp [hr])) _ _ _
      · have e1 : stepGood h { part := part, props := .fresh d, next := next } r
            = { part := part, props := .fresh (dictUpdate d (h0.get r.props)), next := next ++ r.children } := by
          simp [stepGood, hm, hl, hr']
        rw [e1]
        simp only [hm, hl, if_true, if_false]
        exact ih (fun r hr => hrows r (by simp [hr])) _ _ _
    · have e1 : stepGood h { part := part, props := .fresh d, next := next } r
          = { part := part, props := .fresh d, next := next } := by
        simp [stepGood, hm]
      rw [e1]
      simp only [hm, Bool.false_eq_true, if_false]
      exact ih (fun r hr => hrows r (by simp [hr])) _ _ _

theorem mem_rowsOf {tbl : Table} {ids : List Nat} {r : Row} (h : r ∈ rowsOf tbl ids) : r ∈ tbl := by
  unfold rowsOf at h
  rw [List.mem_filterMap] at h
  obtain ⟨i, _, hi⟩ := h
  exact List.mem_of_getElem? hi

/-- **Allocation discipline of `_find`** (shipped variant): it only appends cells, every address it
returns is new, and the value of its result is the pure lookup on the original registry. -/
theorem findGood_spec (h0 : Heap) (tbl : Table) (htbl : ∀ r ∈ tbl, r.props < h0.length) :
    ∀ (fuel : Nat) (h : Heap) (ids : List Nat) (number : Str), RegionIntact h0 h →
      ∃ ext, (findWith stepGood tbl fuel h ids number).2 = h ++ ext ∧
        (∀ p ∈ (findWith stepGood tbl fuel h ids number).1, h.length ≤ p.2 ∧ p.2 < (h ++ ext).length) ∧
        deep (h ++ ext) (findWith stepGood tbl fuel h ids number).1 = findPure h0.get tbl fuel ids number := by
  intro fuel
  induction fuel with
  | zero => intro h ids number _; exact ⟨[], by simp [findWith], by simp [findWith], by simp [findWith, findPure, deep]⟩
  | succ fuel ih =>
    intro h ids number hr
    by_cases he : number.isEmpty = true
    · exact ⟨[], by simp [findWith, he], by simp [findWith, he], by simp [findWith, findPure, deep, he]⟩
    · obtain ⟨part', d', next', e1, e2⟩ := foldl_stepGood h0 h hr (rowsOf tbl ids)
        (fun r hr => htbl r (mem_rowsOf hr)) number [] []
      have hr1 : RegionIntact h0 (h ++ [d']) := hr.append _
      obtain ⟨ext, x1, x2, x3⟩ := ih (h ++ [d']) next' (number.drop part'.length) hr1
      have hfw : findWith stepGood tbl (fuel + 1) h ids number =
          ((part', h.length) :: (findWith stepGood tbl fuel (h ++ [d']) next' (number.drop part'.length)).1,
           (findWith stepGood tbl fuel (h ++ [d']) next' (number.drop part'.length)).2) := by
        simp only [findWith, he, Bool.false_eq_true, if_false, e1, Heap.alloc]
      refine ⟨[d'] ++ ext, ?_, ?_, ?_⟩
      · rw [hfw, x1, List.append_assoc]
      · rw [hfw]
        intro p hp
        simp only [List.mem_cons] at hp
        rcases hp with rfl | hp
        · simp
        · have := x2 p hp
          simp only [List.length_append, List.length_cons, List.length_nil] at this ⊢
          refine ⟨Nat.le_trans (Nat.le_add_right _ _) this.1, ?_⟩
          rw [← Nat.add_assoc]
          exact this.2
      · rw [hfw]
        have hpure : findPure h0.get tbl (fuel + 1) ids number =
            (part', d') :: findPure h0.get tbl fuel next' (number.drop part'.length) := by
          simp only [findPure, he, Bool.false_eq_true, if_false, e2]
        rw [hpure, ← x3]
        simp only [deep, List.map_cons, ← List.append_assoc]
        congr 1
        simp [Heap.get, List.getD_eq_getElem?_getD]

/-- invariant of a trace in the shipped variant -/
structure WInv (h0 : Heap) (tbl : Table) (top : List Nat) (w : World) (done : List Str) : Prop where
  intact : RegionIntact h0 w.heap
  fresh : ∀ res ∈ w.history, ∀ p ∈ res, h0.length ≤ p.2
  obs : w.observed = done.map (fun n => findPure h0.get tbl (n.length + 1) top n)

theorem getD_mem_or {α : Type} (l : List α) (i : Nat) (d : α) : l.getD i d = d ∨ l.getD i d ∈ l := by
  rw [List.getD_eq_getElem?_getD]
  cases h : l[i]? with
  | none => left; rfl
  | some x => right; exact List.mem_of_getElem? h

theorem exec_good_inv (h0 : Heap) (tbl : Table) (top : List Nat) (htbl : ∀ r ∈ tbl, r.props < h0.length)
    (w : World) (done : List Str) (hw : WInv h0 tbl top w done) (op : Op) :
    WInv h0 tbl top (exec stepGood tbl top w op) (done ++ lookups [op]) := by
  cases op with
  | find number =>
    obtain ⟨ext, x1, x2, x3⟩ := findGood_spec h0 tbl htbl (number.length + 1) w.heap top number hw.intact
    simp only [exec, lookups]
    constructor
    · simp only; rw [x1]; exact hw.intact.append _
    · intro res hres p hp
      simp only [List.mem_append, List.mem_cons, List.mem_nil_iff, or_false] at hres
      rcases hres with hres | rfl
      · exact hw.fresh res hres p hp
      · exact Nat.le_trans hw.intact.length_le (x2 p hp).1
    · simp only [List.map_append, List.map_cons, List.map_nil, ← hw.obs]
      rw [x1, x3]
  | mutate call part d =>
    simp only [exec, lookups, List.append_nil]
    by_cases ha : ((w.history.getD call []).getD part ([], w.heap.length)).2 < w.heap.length
    · simp only [ha, if_true]
      have hge : h0.length ≤ ((w.history.getD call []).getD part ([], w.heap.length)).2 := by
        rcases getD_mem_or (w.history.getD call []) part ([], w.heap.length) with h | h
        · rw [h] at ha; simp at ha
        · rcases getD_mem_or w.history call [] with h' | h'
          · rw [h'] at h; simp at h
          · exact hw.fresh _ h' _ h
      exact ⟨hw.intact.set hge d, hw.fresh, hw.obs⟩
    · simp only [ha, if_false]
      exact hw

theorem lookups_append (a b : List Op) : lookups (a ++ b) = lookups a ++ lookups b := by
  induction a with
  | nil => rfl
  | cons op a ih => cases op <;> simp [lookups, ih]

theorem execAll_good_inv (h0 : Heap) (tbl : Table) (top : List Nat) (htbl : ∀ r ∈ tbl, r.props < h0.length)
    (ops : List Op) : ∀ (w : World) (done : List Str), WInv h0 tbl top w done →
      WInv h0 tbl top (execAll stepGood tbl top w ops) (done ++ lookups ops) := by
  induction ops with
  | nil => intro w done hw; simpa [execAll, lookups] using hw
  | cons op ops ih =>
    intro w done hw
    have := ih _ _ (exec_good_inv h0 tbl top htbl w done hw op)
    simp only [execAll]
    have e : done ++ lookups (op :: ops) = done ++ lookups [op] ++ lookups ops := by
      rw [show op :: ops = [op] ++ ops from rfl, lookups_append, List.append_assoc]
    rw [e]; exact this

/-- **Non-interference (shipped `_find`).** Start from a heap `h0` holding the registry's
dictionaries (every row's `props` address is in it).  After *any* sequence of lookups and in-place
mutations of dictionaries returned by earlier lookups, the value of every lookup is the pure lookup
on the original registry: nothing the caller does to what it received changes a later answer. -/
theorem find_noninterference (h0 : Heap) (tbl : Table) (top : List Nat)
    (htbl : ∀ r ∈ tbl, r.props < h0.length) (ops : List Op) :
    (execAll stepGood tbl top ⟨h0, [], []⟩ ops).observed =
      (lookups ops).map (fun n => findPure h0.get tbl (n.length + 1) top n) := by
  have := execAll_good_inv h0 tbl top htbl ops ⟨h0, [], []⟩ []
    ⟨by simp [RegionIntact], by intro res hres; simp at hres, rfl⟩
  simpa using this.obs

/-- the registry objects themselves are never modified by the caller in the shipped variant -/
theorem registry_intact (h0 : Heap) (tbl : Table) (top : List Nat)
    (htbl : ∀ r ∈ tbl, r.props < h0.length) (ops : List Op) :
    RegionIntact h0 (execAll stepGood tbl top ⟨h0, [], []⟩ ops).heap := by
  have := execAll_good_inv h0 tbl top htbl ops ⟨h0, [], []⟩ []
    ⟨by simp [RegionIntact], by intro res hres; simp at hres, rfl⟩
  exact this.intact

/-! ### concrete registry: non-vacuity, and the regression -/

def kBank : Str := [98, 97, 110, 107]   -- 'bank'
def vKBC : Str := [75, 66, 67]          -- 'KBC'
def vSub : Str := [115, 117, 98]        -- 'sub'
/-- heap after loading: cell 0 = `{'bank': 'KBC'}`, cell 1 = `{'sub': 'sub'}` -/
def heap0 : Heap := [[(kBank, vKBC)], [(vSub, vSub)]]
/-- `73-74 bank="KBC"` with a child `5 sub="sub"` -/
def table0 : Table := [⟨2, [55, 51], [55, 52], 0, [1]⟩, ⟨1, [53], [53], 1, []⟩]
def n735 : Str := [55, 51, 53]          -- '735'

/-- the caller wipes and overwrites everything it got back, then asks again -/
def hostileTrace : List Op :=
  [.find n735, .mutate 0 0 [], .mutate 0 1 [(kBank, [88])], .mutate 5 5 [], .find n735, .find [55, 52]]

/-- shipped variant on the concrete registry: three identical, correct answers despite the mutations
(instance of `find_noninterference`, evaluated) -/
example : (execAll stepGood table0 [0] ⟨heap0, [], []⟩ hostileTrace).observed =
    [[([55, 51], [(kBank, vKBC)]), ([53], [(vSub, vSub)])],
     [([55, 51], [(kBank, vKBC)]), ([53], [(vSub, vSub)])],
     [([55, 52], [(kBank, vKBC)])]] := by decide

example : ∀ r ∈ table0, r.props < heap0.length := by decide

/-- **The regression `properties = props` breaks non-interference** — concrete witness: the second,
identical lookup returns the dictionaries as the caller left them, and the registry cell itself has
been overwritten. -/
theorem findBad_interference :
    (execAll stepBad table0 [0] ⟨heap0, [], []⟩ hostileTrace).observed =
      [[([55, 51], [(kBank, vKBC)]), ([53], [(vSub, vSub)])],
       [([55, 51], []), ([53], [(kBank, [88])])],
       [([55, 52], [])]] ∧
    (execAll stepBad table0 [0] ⟨heap0, [], []⟩ hostileTrace).observed ≠
      (lookups hostileTrace).map (fun n => findPure heap0.get table0 (n.length + 1) [0] n) ∧
    ¬ RegionIntact heap0 (execAll stepBad table0 [0] ⟨heap0, [], []⟩ hostileTrace).heap := by
  refine ⟨by decide, by decide, ?_⟩
  unfold RegionIntact
  decide

/-- in the bad variant the very first result already aliases the registry: it returns addresses
0 and 1, the registry's own cells; the shipped variant returns the new cells 2 and 3 -/
example : (findWith stepBad table0 4 heap0 [0] n735).1 = [([55, 51], 0), ([53], 1)] ∧
    (findWith stepGood table0 4 heap0 [0] n735).1 = [([55, 51], 2), ([53], 3)] := by decide

end Props.C13

#print axioms Props.C13.sequential_pure
#print axioms Props.C13.sequential_pure_from_reachable
#print axioms Props.C13.order_independent
#print axioms Props.C13.fault_is_cached
#print axioms Props.C13.real_caches_factor
#print axioms Props.C13.sequential_fails_without_factoring
#print axioms Props.C13.reachable_inv
#print axioms Props.C13.returned_values_pure
#print axioms Props.C13.never_crashes
#print axioms Props.C13.store_idempotent
#print axioms Props.C13.runSched_reachable
#print axioms Props.C13.findGood_spec
#print axioms Props.C13.find_noninterference
#print axioms Props.C13.registry_intact
#print axioms Props.C13.findBad_interference
