import Props.C08g
import Props.C17b
/-!
# C17, continued (3) — `isan` (ISO 7064 Mod 37,36 check characters after the episode and after the version)

`isan.validate(number)` accepts 16 or 24 hexadecimal digits (no check characters at all), 17 (root + episode +
check), 25 (root + episode + version + check) and 26 characters (both checks).  The typing-error guarantee can
only hold when a check character is present: `isan_single_error_partial` (hypothesis: 17, 25 or 26 characters;
then **every** position, any replacement character of `0-9A-Z`), `isan_single_error_false` (24 digits), and
`isan_strip_single_error_false` for the documented option `strip_check_digits=True` (known finding: the check
characters are dropped before anything is checked).
-/
namespace Props.C17
open Py Spec.Checksum Lemmas.Refine Lemmas.Fold Props.C06 Props.C06Gen Props.C08

/-- the Mod 37,36 check of `isan` -/
abbrev ichk (s : Str) : R Str := Gen.iso7064_mod_37_36.validate s a36

/-- `split` finds a first check character only in a 17- or 26-character number -/
theorem isan_split_wf1 {x R E C1 V C2 : Str} (hs : Gen.isan.split x = .ok (R, E, C1, V, C2)) (h1 : C1 ≠ [])
    (hV : V.length = 8) : C2.length = 1 := by
  unfold Gen.isan.split at hs
  simp only [clean_eq, bind_ok, pure_ok] at hs
  generalize upper (strip (cleanP x [32, 45])) = n at hs
  have e17 : slice n (some 17) (some 25) = (n.drop 17).take 8 := slice_drop_take n 17 25 (by omega)
  have e25 : slice n (some 25) none = n.drop 25 := slice_drop n 25
  have e16 : slice n (some 16) none = n.drop 16 := slice_drop n 16
  split at hs
  · rename_i hlen
    obtain ⟨g, _, hs⟩ := bind_ok_inv hs
    have := Except.ok.inj hs
    simp only [Prod.mk.injEq] at this
    obtain ⟨_, _, _, hV', hC2⟩ := this
    rw [e17] at hV'
    rw [e25] at hC2
    have hl : ((n.drop 17).take 8).length = 8 := by rw [hV', hV]
    simp only [List.length_take, List.length_drop] at hl
    rw [← hC2, List.length_drop]
    simp only [Bool.or_eq_true, beq_iff_eq] at hlen
    omega
  · rename_i hlen
    split at hs
    · have := Except.ok.inj hs
      simp only [Prod.mk.injEq] at this
      exact absurd this.2.2.1.symm h1
    · rename_i hle
      have := Except.ok.inj hs
      simp only [Prod.mk.injEq] at this
      obtain ⟨_, _, hC1, _, _⟩ := this
      rw [e16] at hC1
      exfalso
      apply h1
      rw [← hC1]
      apply List.drop_of_length_le
      simp only [gt_iff_lt, decide_eq_true_eq, Int.not_lt] at hle
      omega

/-- what `validate(number)` guarantees about the compact number it returns -/
def IsanOk (v : Str) : Prop :=
  AllIn isDU v ∧ (v.length = 17 ∨ v.length = 25 → isOk (ichk v) = true) ∧
    (v.length = 26 → isOk (ichk (v.take 17)) = true ∧ isOk (ichk (v.take 16 ++ v.drop 17)) = true)

theorem len_le_one {C : Str} (h : C.length ≤ 1) : C = [] ∨ ∃ k, C = [k] := by
  match C, h with
  | [], _ => exact Or.inl rfl
  | [k], _ => exact Or.inr ⟨k, rfl⟩

theorem isan_facts {x v : Str} (h : Gen.isan.validate x false false = .ok v) : IsanOk v := by
  obtain ⟨R, E, C1, V, C2, hs, rfl, hhex, hR, hE, h1, hV, h2, hc1, hc2⟩ := isan_ok h
  have hm := hex_mem hhex
  have hC1 : ∀ c ∈ C1, c ∈ a36 := by
    intro c hc
    obtain ⟨r, hr⟩ := hc1 (List.ne_nil_of_mem hc)
    exact (gen_mod_37_36_validate_ok hr).2 c (by simp [hc])
  have hC2 : ∀ c ∈ C2, c ∈ a36 := by
    intro c hc
    obtain ⟨r, hr⟩ := hc2 (List.ne_nil_of_mem hc)
    exact (gen_mod_37_36_validate_ok hr).2 c (by simp [hc])
  have hRE : (R ++ E).length = 16 := by simp [hR, hE]
  refine ⟨?_, ?_, ?_⟩
  · apply du_of_a36
    intro c hc
    simp only [List.mem_append] at hc hm
    rcases hc with (((h | h) | h) | h) | h
    · exact hm c (Or.inl (Or.inl h))
    · exact hm c (Or.inl (Or.inr h))
    · exact hC1 c h
    · exact hm c (Or.inr h)
    · exact hC2 c h
  · intro hlen
    simp only [List.length_append, hR, hE] at hlen
    rcases len_le_one h1 with rfl | ⟨k1, rfl⟩ <;> rcases len_le_one h2 with rfl | ⟨k2, rfl⟩ <;>
      simp only [List.length_nil, List.length_cons] at hlen
    · omega
    · -- check2 only: 25 characters (17 would need a version)
      have hVne := isan_split_wf hs (by simp)
      have hv8 : V.length = 8 := by
        rcases hV with h0 | h8
        · exact absurd (List.eq_nil_of_length_eq_zero h0) hVne
        · exact h8
      obtain ⟨r, hr⟩ := hc2 (by simp)
      simpa using isOk_true_of_ok hr
    · -- check1 only: 17 characters (a version would come with its own check character)
      have hv0 : V = [] := by
        rcases hV with h0 | h8
        · exact List.eq_nil_of_length_eq_zero h0
        · have := isan_split_wf1 hs (by simp) h8
          simp at this
      subst hv0
      obtain ⟨r, hr⟩ := hc1 (by simp)
      simpa using isOk_true_of_ok hr
    · omega
  · intro hlen
    simp only [List.length_append, hR, hE] at hlen
    rcases len_le_one h1 with rfl | ⟨k1, rfl⟩ <;> rcases len_le_one h2 with rfl | ⟨k2, rfl⟩ <;>
      simp only [List.length_nil, List.length_cons] at hlen
    · omega
    · omega
    · omega
    · have hv8 : V.length = 8 := by omega
      obtain ⟨r1, hr1⟩ := hc1 (by simp)
      obtain ⟨r2, hr2⟩ := hc2 (by simp)
      have e1 : (R ++ E ++ [k1] ++ V ++ [k2]).take 17 = R ++ E ++ [k1] := by
        rw [List.append_assoc (R ++ E ++ [k1]), List.take_left' (by simp [hR, hE])]
      have e2 : (R ++ E ++ [k1] ++ V ++ [k2]).take 16 = R ++ E := by
        have : R ++ E ++ [k1] ++ V ++ [k2] = (R ++ E) ++ ([k1] ++ V ++ [k2]) := by
          simp only [List.append_assoc]
        rw [this, List.take_left' hRE]
      have e3 : (R ++ E ++ [k1] ++ V ++ [k2]).drop 17 = V ++ [k2] := by
        rw [List.append_assoc (R ++ E ++ [k1]), List.drop_left' (by simp [hR, hE])]
      rw [e1, e2, e3]
      refine ⟨isOk_true_of_ok hr1, ?_⟩
      rw [← List.append_assoc]
      exact isOk_true_of_ok hr2

/-- a number of at least 16 characters `0-9A-Z` is its own compact form: `validate` returns it unchanged -/
theorem isan_canon {x v : Str} (hx : AllIn isDU x) (h16 : 16 ≤ x.length)
    (h : Gen.isan.validate x false false = .ok v) : v = x := by
  obtain ⟨R', E', C1, V, C2, hs, rfl, _⟩ := isan_ok h
  have hdec : x = x.take 12 ++ (x.drop 12).take 4 ++ x.drop 16 := by
    conv => lhs; rw [← List.take_append_drop 12 x, ← List.take_append_drop 4 (x.drop 12), List.drop_drop]
    simp only [List.append_assoc]
  have hR : (x.take 12).length = 12 := by simp; omega
  have hE : ((x.drop 12).take 4).length = 4 := by simp; omega
  generalize x.take 12 = R at hdec hR
  generalize (x.drop 12).take 4 = E at hdec hE
  generalize x.drop 16 = T at hdec
  subst hdec
  rw [isan_split_tail R E T hx hR hE] at hs
  split at hs
  · cases hs
    simp only [List.append_assoc]
    have e : List.take 8 (List.drop 1 T) ++ List.drop 9 T = List.drop 1 T := by
      rw [show (9 : Nat) = 1 + 8 from rfl, ← List.drop_drop, List.take_append_drop]
    rw [e, List.take_append_drop]
  · split at hs
    · cases hs
      simp only [List.append_assoc, List.nil_append, List.take_append_drop]
    · cases hs
      simp only [List.append_assoc, List.append_nil]

theorem isan_wrap (x v : Str) (h : Gen.isan.validate x false false = .ok v) :
    (AllIn isDU x ∧ 16 ≤ x.length → v = x) ∧ IsanOk v :=
  ⟨fun ⟨hx, h16⟩ => isan_canon hx h16 h, isan_facts h⟩

theorem ichk_detects : Detects isDU ichk := by
  intro v i c hi hD hc hne hL
  exact isOk_false_of_error (gen_mod_37_36_set_detected a36 v i c hi (by decide)
    (fun x hx => mem_alpha36.mpr (hD x hx)) (mem_alpha36.mpr hc) hne hL)

/-- ISAN with at least one check character (17, 25 or 26 characters): replacing any character — of the root,
episode, version, or a check character — by any other character of `0-9A-Z` is rejected -/
theorem isan_single_error_partial (x v : Str) (h : Gen.isan.validate x false false = .ok v)
    (hlen : v.length = 17 ∨ v.length = 25 ∨ v.length = 26)
    (i c : Nat) (hi : i < v.length) (hc : isDU c = true) (hne : c ≠ v[i]) :
    isOk (Gen.isan.validate (v.set i c) false false) = false := by
  obtain ⟨hD, h1, h2⟩ := isan_facts h
  refine reject_of_ok isan_wrap ⟨allIn_set hD i c hc, by rw [List.length_set]; omega⟩ ?_
  intro ⟨_, h1', h2'⟩
  rw [List.length_set] at h1' h2'
  rcases hlen with hl | hl | hl
  · have := h1' (Or.inl hl)
    rw [ichk_detects v i c hi hD hc hne (h1 (Or.inl hl))] at this
    cases this
  · have := h1' (Or.inr hl)
    rw [ichk_detects v i c hi hD hc hne (h1 (Or.inr hl))] at this
    cases this
  · obtain ⟨ha, hb⟩ := h2 hl
    obtain ⟨ha', hb'⟩ := h2' hl
    by_cases h17 : i < 17
    · have hD17 : AllIn isDU (v.take 17) := fun k hk => hD k (List.mem_of_mem_take hk)
      rw [List.take_set, ichk_detects (v.take 17) i c (by simp; omega) hD17 hc
        (by rw [List.getElem_take]; exact hne) ha] at ha'
      cases ha'
    · have hDr : AllIn isDU (v.take 16 ++ v.drop 17) := by
        intro k hk
        rcases List.mem_append.mp hk with hk | hk
        · exact hD k (List.mem_of_mem_take hk)
        · exact hD k (List.mem_of_mem_drop hk)
      have hl16 : (v.take 16).length = 16 := by rw [List.length_take]; omega
      have e : (v.set i c).take 16 ++ (v.set i c).drop 17 = (v.take 16 ++ v.drop 17).set (i - 1) c := by
        have e1 : i - 1 - 16 = i - 17 := by omega
        rw [List.take_set_of_le (by omega), List.drop_set, if_neg (by omega),
          List.set_append_right _ _ (by rw [hl16]; omega), hl16, e1]
      have hj : i - 1 < (v.take 16 ++ v.drop 17).length := by
        rw [List.length_append, hl16, List.length_drop]; omega
      have hg : (v.take 16 ++ v.drop 17)[i - 1] = v[i] := by
        have e2 : 17 + (i - 1 - 16) = i := by omega
        rw [List.getElem_append_right (by rw [hl16]; omega), List.getElem_drop]
        simp only [hl16, e2]
      rw [e, ichk_detects _ (i - 1) c hj hDr hc (by rw [hg]; exact hne) hb] at hb'
      cases hb'

section Examples

theorem ex_isan26 : Gen.isan.validate (str% "0000-0001-8CFA-0000-I-0000-0000-K") false false =
    .ok (str% "000000018CFA0000I00000000K") := by decide +kernel
example : isOk (Gen.isan.validate (str% "000000018CFA0000A00000000K") false false) = false :=
  isan_single_error_partial _ _ ex_isan26 (by decide) 16 65 (by decide) (by decide) (by decide)
example : isOk (Gen.isan.validate (str% "000000018CFA0000I00000001K") false false) = false :=
  isan_single_error_partial _ _ ex_isan26 (by decide) 24 49 (by decide) (by decide) (by decide)
theorem ex_isan17 : Gen.isan.validate (str% "0000-0000-D07A-0090-Q") false false =
    .ok (str% "00000000D07A0090Q") := by decide +kernel
example : isOk (Gen.isan.validate (str% "00000000D07B0090Q") false false) = false :=
  isan_single_error_partial _ _ ex_isan17 (by decide) 11 66 (by decide) (by decide) (by decide)
theorem ex_isan25 : Gen.isan.validate (str% "000000018947000000000000D") false false =
    .ok (str% "000000018947000000000000D") := by decide +kernel
example : isOk (Gen.isan.validate (str% "000000018947000000000001D") false false) = false :=
  isan_single_error_partial _ _ ex_isan25 (by decide) 23 49 (by decide) (by decide) (by decide)

end Examples

/-- the full-strength statement is **false** of the code: an ISAN may be given without any check character
(16 or 24 hexadecimal digits), and then every digit can be changed.
`000000018947000000000000` → `000000018947000000000001`, both accepted. -/
theorem isan_single_error_false :
    ¬ ∀ (x v : Str), Gen.isan.validate x false false = .ok v → ∀ (i c : Nat) (hi : i < v.length),
      isDU c = true → c ≠ v[i] → isOk (Gen.isan.validate (v.set i c) false false) = false := by
  intro H
  have := H (str% "000000018947000000000000") (str% "000000018947000000000000") (by decide +kernel) 23 49
    (by decide) (by decide) (by decide)
  revert this
  decide +kernel

/-- known finding (documented option): with `strip_check_digits=True` the check characters are removed before
anything is checked, so an error in a check character is not noticed — here in the number *given* to `validate`
(the returned number has no check characters).
`0000000189470000800000000D` → `0000000189470000900000000D`, both accepted (and give the same result). -/
theorem isan_strip_single_error_false :
    ¬ ∀ (v : Str), isOk (Gen.isan.validate v false false) = true → ∀ (i c : Nat) (hi : i < v.length),
      isDU c = true → c ≠ v[i] → isOk (Gen.isan.validate (v.set i c) true false) = false := by
  intro H
  have := H (str% "0000000189470000800000000D") (by decide +kernel) 16 57 (by decide) (by decide) (by decide)
  revert this
  decide +kernel

end Props.C17

#print axioms Props.C17.isan_single_error_partial
#print axioms Props.C17.isan_single_error_false
#print axioms Props.C17.isan_strip_single_error_false
