import Gen.de_wkn
import Props.C08p
/-!
# C08 (part b) — national security identifiers to ISIN: `cusip.to_isin`, `gb.sedol.to_isin`, `de.wkn.to_isin`
(all through `isin.from_natid`)
-/
namespace Props.C08
open Py Spec.Checksum Lemmas.Refine Lemmas.Fold Props.C06 Props.C06Gen Props.C17 Props.C07
open Spec.Standards (Std_cusip Std_sedol Std_isin canon_cusip canon_sedol canon_isin cusipVal v36 digitSum fsum)

/-! ## `isin.calc_check_digit` / `isin.validate` on a well-formed payload -/

theorem isin_calc_digit (p : Str) (hp : AllIn isDU p) :
    ∃ k, Gen.isin.calc_check_digit p = .ok [k] ∧ isAsciiDigit k = true := by
  rw [isin_calc_eq p hp]
  generalize ((fsum (fun i c => digitSum (w21 i * (c - 48))) 0 (isinExpand p).reverse : Nat) : Int) = S
  have h0 : 0 ≤ (10 - S) % 10 := Int.emod_nonneg _ (by decide)
  have h9 : (10 - S) % 10 ≤ 9 := by omega
  refine ⟨48 + ((10 - S) % 10).toNat, by rw [strOfInt_digit _ ⟨h0, h9⟩], ?_⟩
  simp only [isAsciiDigit, Bool.and_eq_true, decide_eq_true_eq]
  omega

/-- eleven characters `0-9A-Z` that begin with a country code, followed by the computed check digit, are a valid ISIN -/
theorem isin_check_complete (p : Str) (hp : AllIn isDU p) (hl : p.length = 11)
    (hcc : Gen.isin._country_codes.contains (p.take 2) = true) :
    ∃ k, Gen.isin.calc_check_digit p = .ok [k] ∧ Gen.isin.validate (p ++ [k]) = .ok (p ++ [k]) := by
  obtain ⟨k, hk, hkd⟩ := isin_calc_digit p hp
  refine ⟨k, hk, ?_⟩
  have hw : AllIn isDU (p ++ [k]) := allIn_append hp (allIn_cons (du_of_digit hkd) (fun _ h => by simp at h))
  have hne : p ++ [k] ≠ [] := by simp
  unfold Gen.isin.validate Gen.isin.compact
  simp only [clean_eq, bind_ok, pure_ok, slice_none_neg_one, all_strIn]
  rw [du_compact_upper hw _ (by decide)]
  have hall : ((p ++ [k]).all fun c => C17.a36.contains c) = true := by
    apply all_iff_allIn.mpr
    intro c hc
    exact List.contains_iff_mem.mpr (C17.mem_alpha36.mpr (hw c hc))
  have h12 : (((p ++ [k]).length : Int) != 12) = false := by simp [hl]
  have htk : (p ++ [k]).take 2 = p.take 2 := by
    rw [List.take_append_of_le_length (by omega)]
  rw [slice_none_nonneg _ (by decide)]
  have h2 : (2 : Int).toNat = 2 := rfl
  simp only [hall, h12, h2, htk, hcc, Bool.not_true, Bool.false_eq_true, if_false, List.dropLast_concat, hk, bind_ok,
    getItem_neg_one _ hne]
  have hlast : (p ++ [k]).getLast hne = k := by simp
  rw [hlast]
  simp

/-- `isin.from_natid(cc, x)` for an upper-case country code `cc` of the list and a national number whose compact
form `v = upper(strip(clean(x, ' ')))` consists of at most nine characters `0-9A-Z`: the result is
`cc + '0'*(9-len(v)) + v + check` (identity) and `isin.validate` accepts it unchanged (target-valid) -/
theorem from_natid_valid (cc x : Str) (hccU : AllIn isAsciiUpper cc) (hccl : cc.length = 2)
    (hcc : Gen.isin._country_codes.contains cc = true)
    (hv : AllIn isDU (upper (strip (cleanP x [32])))) (hl : (upper (strip (cleanP x [32]))).length ≤ 9) :
    ∃ k, Gen.isin.from_natid cc x =
        .ok (cc ++ List.replicate (9 - (upper (strip (cleanP x [32]))).length) 48 ++ upper (strip (cleanP x [32])) ++ [k]) ∧
      Gen.isin.validate
          (cc ++ List.replicate (9 - (upper (strip (cleanP x [32]))).length) 48 ++ upper (strip (cleanP x [32])) ++ [k]) =
        .ok (cc ++ List.replicate (9 - (upper (strip (cleanP x [32]))).length) 48 ++ upper (strip (cleanP x [32])) ++ [k]) := by
  obtain ⟨v, hvdef⟩ : ∃ v, v = upper (strip (cleanP x [32])) := ⟨_, rfl⟩
  rw [← hvdef] at hv hl ⊢
  have hccDU : AllIn isDU cc := fun c hc => by unfold isDU; rw [hccU c hc]; exact Bool.or_true _
  have hup : upper cc = cc := upper_of_asciiDigitOrUpper hccDU
  have hz : Py.zfill v 9 = List.replicate (9 - v.length) 48 ++ v := by
    rw [zfill_eq_of_head]
    · rfl
    · intro c hc
      have := hv c (List.mem_of_mem_head? hc)
      simp only [isDU, isAsciiDigit, isAsciiUpper, Bool.or_eq_true, Bool.and_eq_true, decide_eq_true_eq] at this
      omega
  have hp : AllIn isDU (cc ++ List.replicate (9 - v.length) 48 ++ v) :=
    allIn_append (allIn_append hccDU (fun c hc => by rw [(List.mem_replicate.mp hc).2]; decide)) hv
  have hpl : (cc ++ List.replicate (9 - v.length) 48 ++ v).length = 11 := by
    simp only [List.length_append, List.length_replicate, hccl]; omega
  have htk : (cc ++ List.replicate (9 - v.length) 48 ++ v).take 2 = cc := by
    rw [List.append_assoc, List.take_append_of_le_length (by omega), List.take_of_length_le (by omega)]
  obtain ⟨k, hk, hval⟩ := isin_check_complete _ hp hpl (by rw [htk]; exact hcc)
  refine ⟨k, ?_, hval⟩
  unfold Gen.isin.from_natid Gen.isin.compact
  simp only [clean_eq, bind_ok, pure_ok, hup, ← hvdef, hz]
  rw [← List.append_assoc, hk]
  rfl

theorem cc_US : AllIn isAsciiUpper [85, 83] ∧ Gen.isin._country_codes.contains [85, 83] = true := by
  decide +kernel
theorem cc_GB : AllIn isAsciiUpper [71, 66] ∧ Gen.isin._country_codes.contains [71, 66] = true := by
  decide +kernel
theorem cc_DE : AllIn isAsciiUpper [68, 69] ∧ Gen.isin._country_codes.contains [68, 69] = true := by
  decide +kernel

/-! ## CUSIP → ISIN -/

/-- what `cusip.validate` accepts (from `Props.C07.cusip_agrees_with_standard`) -/
theorem cusip_shape {x v : Str} (h : Gen.cusip.validate x = .ok v) :
    v = upper (strip (cleanP x [32])) ∧ v.length = 9 ∧ AllIn isCusipChar v := by
  have := cusip_agrees_with_standard x
  rw [h, canon_cusip_eq] at this
  by_cases hs : Std_cusip (upper (strip (cleanP x [32]))) = true
  · rw [if_pos hs] at this
    have hv : v = upper (strip (cleanP x [32])) := by simpa [Except.toOption] using this
    rw [← hv] at hs
    unfold Std_cusip at hs
    simp only [Bool.and_eq_true, beq_iff_eq, isD_eq, all_iff_allIn] at hs
    obtain ⟨⟨⟨h1, h2⟩, h3⟩, _⟩ := hs
    have hne : v ≠ [] := by intro h0; subst h0; simp at h1
    refine ⟨hv, h1, ?_⟩
    intro c hc
    rw [← List.dropLast_concat_getLast hne] at hc
    rcases List.mem_append.mp hc with hc | hc
    · exact h2 c hc
    · rw [List.mem_singleton.mp hc, ← getD_last hne 8 h1]
      have hb := digit_bounds h3
      simp only [isCusipChar, Spec.Standards.isDU, Spec.Standards.isD, Bool.or_eq_true, Bool.and_eq_true,
        decide_eq_true_eq]
      omega
  · rw [if_neg hs] at this
    simp [Except.toOption] at this

theorem cusipChar_du {c : Nat} (h : isCusipChar c = true) (hs : c ≠ 42 ∧ c ≠ 64 ∧ c ≠ 35) : isDU c = true := by
  simp only [isCusipChar, Bool.or_eq_true, beq_iff_eq] at h
  rcases h with ((h | h) | h) | h
  · rw [← isDU_eq]; exact h
  · exact absurd h hs.1
  · exact absurd h hs.2.1
  · exact absurd h hs.2.2

/-- `cusip.to_isin`, alphanumeric CUSIPs (no `*`, `@`, `#`): the ISIN is `'US' + cusip + check` and is valid -/
theorem cusip_to_isin_partial (x v : Str) (h : Gen.cusip.validate x = .ok v)
    (hA : ∀ c ∈ v, c ≠ 42 ∧ c ≠ 64 ∧ c ≠ 35) :
    ∃ k, Gen.cusip.to_isin x = .ok ([85, 83] ++ v ++ [k]) ∧
      Gen.isin.validate ([85, 83] ++ v ++ [k]) = .ok ([85, 83] ++ v ++ [k]) := by
  obtain ⟨hv, hl, hC⟩ := cusip_shape h
  have hDU : AllIn isDU v := fun c hc => cusipChar_du (hC c hc) (hA c hc)
  rw [hv] at hDU hl
  obtain ⟨k, h1, h2⟩ := from_natid_valid [85, 83] x cc_US.1 rfl cc_US.2 hDU (by omega)
  rw [← hv] at h1 h2 hl
  rw [hl] at h1 h2
  exact ⟨k, by unfold Gen.cusip.to_isin; simpa using h1, by simpa using h2⟩

/-- `cusip.to_isin` on a valid CUSIP that contains `*`, `@` or `#` (legal in positions 1-8 for private placements):
`isin.calc_check_digit` looks every character up in `0-9A-Z` and raises `ValueError` -/
theorem cusip_to_isin_special (x v : Str) (h : Gen.cusip.validate x = .ok v)
    (hS : ∃ c ∈ v, c = 42 ∨ c = 64 ∨ c = 35) :
    Gen.cusip.to_isin x = .error .valueError := by
  obtain ⟨hv, hl, _⟩ := cusip_shape h
  unfold Gen.cusip.to_isin Gen.isin.from_natid Gen.isin.compact
  simp only [clean_eq, bind_ok, pure_ok, ← hv]
  rw [zfill_eq_self (by omega)]
  unfold Gen.isin.calc_check_digit
  have hm : (Py.chars (upper [85, 83] ++ v)).mapM
      (fun (n : Str) => do pure (Py.strOfInt (← Py.index C17.a36 n))) = .error .valueError := by
    apply mapM_error_of_mem
    · intro s _ e he
      cases hi : Py.index C17.a36 s with
      | ok i => rw [hi] at he; cases he
      | error e' =>
        rw [hi] at he
        have := index_error hi
        cases he
        exact this
    · obtain ⟨c, hc, hcs⟩ := hS
      refine ⟨[c], ?_, .valueError, ?_⟩
      · simp only [Py.chars, List.mem_map]
        exact ⟨c, List.mem_append_right _ hc, rfl⟩
      · have : strIn [c] C17.a36 = false := by
          rw [strIn_single]
          rcases hcs with rfl | rfl | rfl <;> decide
        rw [index_of_not_strIn this]
        rfl
  simp only [pure_ok] at hm ⊢
  rw [hm]
  rfl

/-- Full statement, false on the current tree (known finding):
  `∀ x v, cusip.validate x = ok v → ∃ w r, cusip.to_isin x = ok w ∧ isin.validate w = ok r` -/
theorem cusip_to_isin_witness :
    Gen.cusip.validate (str% "##13716#1") = .ok (str% "##13716#1") ∧
    Gen.cusip.to_isin (str% "##13716#1") = .error .valueError := by
  decide +kernel

theorem cusip_to_isin_full_false :
    ¬ (∀ x v, Gen.cusip.validate x = .ok v →
        ∃ w r, Gen.cusip.to_isin x = .ok w ∧ Gen.isin.validate w = .ok r) := by
  intro hall
  obtain ⟨h1, h2⟩ := cusip_to_isin_witness
  obtain ⟨w, r, hw, _⟩ := hall _ _ h1
  rw [h2] at hw
  cases hw

/-! ## SEDOL → ISIN -/

theorem sedol_shape {x v : Str} (h : Gen.gb_sedol.validate x = .ok v) :
    v = upper (strip (cleanP x [32])) ∧ v.length = 7 ∧ AllIn isDU v := by
  have := sedol_agrees_with_standard x
  rw [h, canon_sedol_eq] at this
  by_cases hs : Std_sedol (upper (strip (cleanP x [32]))) = true
  · rw [if_pos hs] at this
    have hv : v = upper (strip (cleanP x [32])) := by simpa [Except.toOption] using this
    rw [← hv] at hs
    unfold Std_sedol at hs
    simp only [Bool.and_eq_true, beq_iff_eq, isD_eq, all_iff_allIn] at hs
    obtain ⟨⟨⟨⟨h1, h2⟩, h3⟩, _⟩, _⟩ := hs
    have hne : v ≠ [] := by intro h0; subst h0; simp at h1
    refine ⟨hv, h1, ?_⟩
    intro c hc
    rw [← List.dropLast_concat_getLast hne] at hc
    rcases List.mem_append.mp hc with hc | hc
    · have := h2 c hc
      simp only [Bool.or_eq_true] at this
      rcases this with h | h
      · exact du_of_digit h
      · unfold Spec.Standards.isCons at h
        simp only [Bool.and_eq_true, isU_eq] at h
        unfold isDU; rw [h.1]; exact Bool.or_true _
    · rw [List.mem_singleton.mp hc, ← getD_last hne 6 h1]
      exact du_of_digit h3
  · rw [if_neg hs] at this
    simp [Except.toOption] at this

/-- `gb.sedol.to_isin`: the ISIN is `'GB00' + sedol + check` and is valid -/
theorem sedol_to_isin (x v : Str) (h : Gen.gb_sedol.validate x = .ok v) :
    ∃ k, Gen.gb_sedol.to_isin x = .ok ([71, 66, 48, 48] ++ v ++ [k]) ∧
      Gen.isin.validate ([71, 66, 48, 48] ++ v ++ [k]) = .ok ([71, 66, 48, 48] ++ v ++ [k]) := by
  obtain ⟨hv, hl, hDU⟩ := sedol_shape h
  rw [hv] at hDU hl
  obtain ⟨k, h1, h2⟩ := from_natid_valid [71, 66] x cc_GB.1 rfl cc_GB.2 hDU (by omega)
  rw [← hv] at h1 h2 hl
  rw [hl] at h1 h2
  exact ⟨k, by unfold Gen.gb_sedol.to_isin; simpa using h1, by simpa using h2⟩

/-! ## WKN → ISIN -/

/-- `'0123456789ABCDEFGH JKLMN PQRSTUVWXYZ'` -/
abbrev a36w : Str := [48, 49, 50, 51, 52, 53, 54, 55, 56, 57, 65, 66, 67, 68, 69, 70, 71, 72, 32, 74, 75, 76, 77, 78,
  32, 80, 81, 82, 83, 84, 85, 86, 87, 88, 89, 90]

theorem a36w_du : ∀ c ∈ a36w, c ≠ 32 → isDU c = true := by decide

theorem wkn_shape {x v : Str} (h : Gen.de_wkn.validate x = .ok v) :
    v = upper (strip (cleanP x [32])) ∧ v.length = 6 ∧ AllIn isDU v := by
  unfold Gen.de_wkn.validate Gen.de_wkn.compact at h
  simp only [clean_eq, bind_ok, pure_ok, all_strIn] at h
  have h32 := no_space_compact x
  generalize upper (strip (cleanP x [32])) = n at h h32
  cases hall : (n.all fun c => a36w.contains c) with
  | false =>
    simp only [hall, Bool.not_false, if_true] at h
    cases h
  | true =>
    simp only [hall, Bool.not_true, Bool.false_eq_true, if_false] at h
    split at h
    · cases h
    · rename_i hlen
      have hnv : n = v := by cases h; rfl
      subst hnv
      refine ⟨rfl, ?_, ?_⟩
      · apply Classical.byContradiction
        intro hh
        apply hlen
        simp only [bne_iff_ne, ne_eq]
        omega
      · intro c hc
        have hm : c ∈ a36w := by
          have := List.all_eq_true.mp hall c hc
          simpa using this
        exact a36w_du c hm (fun h0 => h32 (h0 ▸ hc))

/-- `de.wkn.to_isin`: the ISIN is `'DE000' + wkn + check` and is valid -/
theorem wkn_to_isin (x v : Str) (h : Gen.de_wkn.validate x = .ok v) :
    ∃ k, Gen.de_wkn.to_isin x = .ok ([68, 69, 48, 48, 48] ++ v ++ [k]) ∧
      Gen.isin.validate ([68, 69, 48, 48, 48] ++ v ++ [k]) = .ok ([68, 69, 48, 48, 48] ++ v ++ [k]) := by
  obtain ⟨hv, hl, hDU⟩ := wkn_shape h
  rw [hv] at hDU hl
  obtain ⟨k, h1, h2⟩ := from_natid_valid [68, 69] x cc_DE.1 rfl cc_DE.2 hDU (by omega)
  rw [← hv] at h1 h2 hl
  rw [hl] at h1 h2
  exact ⟨k, by unfold Gen.de_wkn.to_isin; simpa using h1, by simpa using h2⟩

/-! ## Non-vacuity: the docstring numbers -/
section Examples
open Props.C17

theorem ex_cusip : Gen.cusip.validate (str% "91324PAE2") = .ok (str% "91324PAE2") := by decide +kernel
theorem ex_sedol : Gen.gb_sedol.validate (str% "B15KXQ8") = .ok (str% "B15KXQ8") := by decide +kernel
theorem ex_wkn : Gen.de_wkn.validate (str% "skwm 02") = .ok (str% "SKWM02") := by decide +kernel

example : ∃ k, Gen.cusip.to_isin (str% "91324PAE2") = .ok (str% "US91324PAE2" ++ [k]) ∧
    Gen.isin.validate (str% "US91324PAE2" ++ [k]) = .ok (str% "US91324PAE2" ++ [k]) :=
  cusip_to_isin_partial _ _ ex_cusip (by decide)
example : Gen.cusip.to_isin (str% "91324PAE2") = .ok (str% "US91324PAE25") := by decide +kernel
example : Gen.cusip.to_isin (str% "##13716#1") = .error .valueError :=
  cusip_to_isin_special _ _ cusip_to_isin_witness.1 ⟨35, by decide, Or.inr (Or.inr rfl)⟩
example : ∃ k, Gen.gb_sedol.to_isin (str% "B15KXQ8") = .ok (str% "GB00B15KXQ8" ++ [k]) ∧
    Gen.isin.validate (str% "GB00B15KXQ8" ++ [k]) = .ok (str% "GB00B15KXQ8" ++ [k]) :=
  sedol_to_isin _ _ ex_sedol
example : Gen.gb_sedol.to_isin (str% "B15KXQ8") = .ok (str% "GB00B15KXQ89") := by decide +kernel
example : ∃ k, Gen.de_wkn.to_isin (str% "skwm 02") = .ok (str% "DE000SKWM02" ++ [k]) ∧
    Gen.isin.validate (str% "DE000SKWM02" ++ [k]) = .ok (str% "DE000SKWM02" ++ [k]) :=
  wkn_to_isin _ _ ex_wkn
example : Gen.de_wkn.to_isin (str% "skwm 02") = .ok (str% "DE000SKWM021") := by decide +kernel

end Examples

end Props.C08
