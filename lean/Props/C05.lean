import Props.C17
/-!
# C05 — check-digit generators and validators agree (on the generated functions)

For the modules treated in `Props/C17.lean`, with `payload v = v[:-1]` (`v.dropLast`) and `check v = v[-1]`
(`v.getLast`):

* `M.check_agrees`   : `Gen.M.validate x = .ok v → Gen.M.calc_check_digit v.dropLast = .ok [v.getLast]`
* `M.check_unique`   : `Gen.M.validate x = .ok v → c ≠ v.getLast → isOk (Gen.M.validate (v.dropLast ++ [c])) = false`
  for every `c` of the check alphabet (digits; digits and upper-case letters for the `X` schemes)
* `M.check_complete` : for a well-formed payload `p`, `Gen.M.calc_check_digit p = .ok cs` and
  `Gen.M.validate (p ++ cs) = .ok (p ++ cs)` (stronger than "not rejected with InvalidChecksum")

for `ean` (payloads of 7, 11, 12, 13 digits), `issn` (7 digits), `isbn` (ISBN-10; 9 digits,
`_calc_isbn10_check_digit`), and, in terms of the generic algorithm the module delegates to, `check_agrees` and
`check_unique` for `imei` (`luhn.calc_check_digit`, 15 digits), `in_.aadhaar` (`verhoeff.calc_check_digit`),
`grid` (`iso7064.mod_37_36.calc_check_digit`), `isni` (`iso7064.mod_11_2.calc_check_digit`).

Not stated for `lei`/`iso11649` (Mod 97-10): they expose no generator, and the two check digits are not unique
(`Props.C06Gen.gen_mod_97_10_check_digits_not_unique`).
-/
namespace Props.C05
open Py Spec.Checksum Lemmas.Refine Lemmas.Fold Props.C06 Props.C06Gen Props.C17

theorem set_last (v : Str) (c : Nat) (h : v ≠ []) : v.set (v.length - 1) c = v.dropLast ++ [c] := by
  have hl : 0 < v.length := List.length_pos_iff.mpr h
  conv => lhs; rw [← List.dropLast_concat_getLast h]
  rw [List.set_append_right _ _ (by simp)]
  simp

theorem getElem_last (v : Str) (h : v ≠ []) :
    v[v.length - 1]'(by have := List.length_pos_iff.mpr h; omega) = v.getLast h := by
  rw [List.getLast_eq_getElem]

/-! ## stdnum.ean -/

theorem ean_check_agrees (x v : Str) (h : Gen.ean.validate x = .ok v) :
    ∃ hne : v ≠ [], Gen.ean.calc_check_digit v.dropLast = .ok [v.getLast hne] := by
  unfold Gen.ean.validate Gen.ean.compact at h
  simp only [clean_eq, isdigits_eq, bind_ok, pure_ok, slice_none_neg_one] at h
  generalize strip (cleanP x [32, 45]) = n at h
  cases hd : isDigitsB n with
  | false => simp [hd] at h
  | true =>
    have hD := (isDigitsB_iff n).mp hd
    simp only [hd, Bool.not_true, Bool.false_eq_true, if_false] at h
    split at h
    · cases h
    · have hne : n ≠ [] := hD.1
      cases hc : Gen.ean.calc_check_digit n.dropLast with
      | error e => rw [hc] at h; cases h
      | ok cs =>
        rw [hc, getItem_neg_one n hne] at h
        simp only [bind_ok] at h
        by_cases heq : cs = [n.getLast hne]
        · have hnv : n = v := by simpa [heq] using h
          subst hnv
          exact ⟨hne, by rw [hc, heq]⟩
        · have : (cs != [n.getLast hne]) = true := by simpa using heq
          simp [this] at h

theorem ean_check_unique (x v : Str) (h : Gen.ean.validate x = .ok v) (c : Nat)
    (hc : isAsciiDigit c = true) (hne : ∀ hv : v ≠ [], c ≠ v.getLast hv) :
    isOk (Gen.ean.validate (v.dropLast ++ [c])) = false := by
  obtain ⟨hv, _⟩ := ean_check_agrees x v h
  have hl : 0 < v.length := List.length_pos_iff.mpr hv
  rw [← set_last v c hv]
  exact ean_single_error x v h (v.length - 1) c (by omega) hc (by rw [getElem_last v hv]; exact hne hv)

theorem ean_calc_digit (p : Str) (hp : AllIn isAsciiDigit p) :
    ∃ k, Gen.ean.calc_check_digit p = .ok [k] ∧ isAsciiDigit k = true := by
  rw [ean_calc_eq p hp]
  generalize wsum wtE 0 (p.reverse.map (· - 48)) = S
  have h0 : 0 ≤ (10 - S) % 10 := Int.emod_nonneg _ (by decide)
  have h9 : (10 - S) % 10 ≤ 9 := by omega
  refine ⟨48 + ((10 - S) % 10).toNat, by rw [strOfInt_digit _ ⟨h0, h9⟩], ?_⟩
  simp only [isAsciiDigit, Bool.and_eq_true, decide_eq_true_eq]
  omega

theorem ean_check_complete (p : Str) (hp : AllIn isAsciiDigit p)
    (hl : p.length = 7 ∨ p.length = 11 ∨ p.length = 12 ∨ p.length = 13) :
    ∃ k, Gen.ean.calc_check_digit p = .ok [k] ∧ Gen.ean.validate (p ++ [k]) = .ok (p ++ [k]) := by
  obtain ⟨k, hk, hkd⟩ := ean_calc_digit p hp
  refine ⟨k, hk, ?_⟩
  have hw : AllIn isAsciiDigit (p ++ [k]) := allIn_append hp (allIn_cons hkd (fun _ h => by simp at h))
  have hne : p ++ [k] ≠ [] := by simp
  unfold Gen.ean.validate Gen.ean.compact
  simp only [clean_eq, isdigits_eq, bind_ok, pure_ok, slice_none_neg_one]
  rw [digits_compact hw _ (by decide)]
  have hd : isDigitsB (p ++ [k]) = true := (isDigitsB_iff _).mpr ⟨hne, hw⟩
  have hlen : ([(14 : Int), 13, 12, 8].contains ((p ++ [k]).length : Int)) = true := by
    simp only [List.length_append, List.length_cons, List.length_nil]
    rcases hl with h | h | h | h <;> rw [h] <;> decide
  simp only [hd, hlen, Bool.not_true, Bool.false_eq_true, if_false, List.dropLast_concat, hk, bind_ok,
    getItem_neg_one _ hne]
  have hlast : (p ++ [k]).getLast hne = k := by simp
  rw [hlast]
  simp

/-! ## stdnum.issn -/

theorem issn_check_agrees (x v : Str) (h : Gen.issn.validate x = .ok v) :
    ∃ hne : v ≠ [], Gen.issn.calc_check_digit v.dropLast = .ok [v.getLast hne] := by
  unfold Gen.issn.validate Gen.issn.compact at h
  simp only [clean_eq, isdigits_eq, bind_ok, pure_ok, slice_none_neg_one] at h
  generalize upper (strip (cleanP x [32, 45])) = n at h
  cases hd : isDigitsB n.dropLast with
  | false => simp [hd] at h
  | true =>
    have hD := (isDigitsB_iff _).mp hd
    simp only [hd, Bool.not_true, Bool.false_eq_true, if_false] at h
    split at h
    · cases h
    · have hne : n ≠ [] := by intro h0; subst h0; exact hD.1 rfl
      cases hc : Gen.issn.calc_check_digit n.dropLast with
      | error e => rw [hc] at h; cases h
      | ok cs =>
        rw [hc, getItem_neg_one n hne] at h
        simp only [bind_ok] at h
        by_cases heq : cs = [n.getLast hne]
        · have hnv : n = v := by simpa [heq] using h
          subst hnv
          exact ⟨hne, by rw [hc, heq]⟩
        · have : (cs != [n.getLast hne]) = true := by simpa using heq
          simp [this] at h

/-- no other digit or upper-case letter (in particular not `X` for a digit, no digit for `X`) is accepted -/
theorem issn_check_unique (x v : Str) (h : Gen.issn.validate x = .ok v) (c : Nat)
    (hc : isDU c = true) (hne : ∀ hv : v ≠ [], c ≠ v.getLast hv) :
    isOk (Gen.issn.validate (v.dropLast ++ [c])) = false := by
  obtain ⟨hv, _⟩ := issn_check_agrees x v h
  have hl : 0 < v.length := List.length_pos_iff.mpr hv
  rw [← set_last v c hv]
  exact issn_single_error x v h (v.length - 1) c (by omega) hc (by rw [getElem_last v hv]; exact hne hv)

/-- the character for a check value `0 … 10` -/
theorem chk11_char (r : Int) (h0 : 0 ≤ r) (h10 : r ≤ 10) :
    ∃ k, (if (r == 10) = true then ([88] : Str) else Py.strOfInt r) = [k] ∧ isD11 k = true := by
  by_cases hr : r = 10
  · subst hr; exact ⟨88, rfl, rfl⟩
  · have hb : (r == 10) = false := by simpa using hr
    rw [hb]
    simp only [Bool.false_eq_true, if_false]
    refine ⟨48 + r.toNat, by rw [strOfInt_digit r ⟨h0, by omega⟩], ?_⟩
    apply d11_of_digit
    simp only [isAsciiDigit, Bool.and_eq_true, decide_eq_true_eq]
    omega

theorem issn_check_complete (p : Str) (hp : AllIn isAsciiDigit p) (hl : p.length = 7) :
    ∃ k, Gen.issn.calc_check_digit p = .ok [k] ∧ Gen.issn.validate (p ++ [k]) = .ok (p ++ [k]) := by
  obtain ⟨k, hk, hkd⟩ := chk11_char ((11 - wsum wtISSN 0 (p.map (· - 48))) % 11)
    (Int.emod_nonneg _ (by decide)) (by omega)
  have hcalc : Gen.issn.calc_check_digit p = .ok [k] := by rw [issn_calc_eq p hp, hk]
  refine ⟨k, hcalc, ?_⟩
  have hw : AllIn isDU (p ++ [k]) :=
    allIn_append (fun c hc => du_of_digit (hp c hc)) (allIn_cons (d11_du hkd) (fun _ h => by simp at h))
  have hne : p ++ [k] ≠ [] := by simp
  have hpne : p ≠ [] := by intro h0; subst h0; simp at hl
  unfold Gen.issn.validate Gen.issn.compact
  simp only [clean_eq, isdigits_eq, bind_ok, pure_ok, slice_none_neg_one]
  rw [du_compact_upper hw _ (by decide)]
  have hd : isDigitsB p = true := (isDigitsB_iff _).mpr ⟨hpne, hp⟩
  have hlen : (((p ++ [k]).length : Int) != 8) = false := by simp [hl]
  simp only [List.dropLast_concat, hd, hlen, Bool.not_true, Bool.false_eq_true, if_false, hcalc, bind_ok,
    getItem_neg_one _ hne]
  have hlast : (p ++ [k]).getLast hne = k := by simp
  rw [hlast]
  simp

/-! ## stdnum.isbn (ISBN-10) -/

theorem isbn10_check_agrees (x v : Str) (h : Gen.isbn.validate x false = .ok v) (hlen : v.length = 10) :
    ∃ hne : v ≠ [], Gen.isbn._calc_isbn10_check_digit v.dropLast = .ok [v.getLast hne] := by
  obtain ⟨_, _, hnil, hcase⟩ := isbn_ok h
  refine ⟨hnil, ?_⟩
  rcases hcase with ⟨_, hcalc⟩ | ⟨h13, _⟩
  · rw [hcalc, List.getLast?_eq_some_getLast hnil]; rfl
  · omega

theorem isbn10_check_unique (x v : Str) (h : Gen.isbn.validate x false = .ok v) (hlen : v.length = 10)
    (c : Nat) (hc : isDU c = true) (hne : ∀ hv : v ≠ [], c ≠ v.getLast hv) :
    isOk (Gen.isbn.validate (v.dropLast ++ [c]) false) = false := by
  have hv : v ≠ [] := by intro h0; subst h0; simp at hlen
  rw [← set_last v c hv]
  exact isbn10_single_error x v h hlen (v.length - 1) c (by omega) hc
    (by rw [getElem_last v hv]; exact hne hv)

theorem isbn10_check_complete (p : Str) (hp : AllIn isAsciiDigit p) (hl : p.length = 9) :
    ∃ k, Gen.isbn._calc_isbn10_check_digit p = .ok [k] ∧
      Gen.isbn.validate (p ++ [k]) false = .ok (p ++ [k]) := by
  obtain ⟨k, hk, hkd⟩ := chk11_char (wsum wt10 0 (p.map (· - 48)) % 11)
    (Int.emod_nonneg _ (by decide)) (by omega)
  have hcalc : Gen.isbn._calc_isbn10_check_digit p = .ok [k] := by rw [isbn10_calc_eq p hp, hk]
  refine ⟨k, hcalc, ?_⟩
  have hw : AllIn isDU (p ++ [k]) :=
    allIn_append (fun c hc => du_of_digit (hp c hc)) (allIn_cons (d11_du hkd) (fun _ h => by simp at h))
  have hne : p ++ [k] ≠ [] := by simp
  have hpne : p ≠ [] := by intro h0; subst h0; simp at hl
  unfold Gen.isbn.validate Gen.isbn.compact
  simp only [clean_eq, isdigits_eq, bind_ok, pure_ok, slice_none_neg_one, Bool.false_eq_true, if_false]
  rw [du_compact_upper hw _ (by decide)]
  have h9 : (((p ++ [k]).length : Int) == 9) = false := by simp [hl]
  have h10 : (((p ++ [k]).length : Int) == 10) = true := by simp [hl]
  have hd : isDigitsB p = true := (isDigitsB_iff _).mpr ⟨hpne, hp⟩
  simp only [h9, Bool.false_eq_true, if_false, bind_ok, List.dropLast_concat, hd, Bool.not_true, h10, if_true,
    hcalc, getItem_neg_one _ hne]
  have hlast : (p ++ [k]).getLast hne = k := by simp
  rw [hlast]
  simp

/-! ## modules that delegate to a generic algorithm: the generic generator agrees with the module's validator -/

theorem allIn_dropLast {q : Nat → Bool} {v : Str} (h : AllIn q v) : AllIn q v.dropLast :=
  fun c hc => h c (List.dropLast_subset _ hc)

theorem imei_check_agrees (x v : Str) (h : Gen.imei.validate x = .ok v) (hlen : v.length = 15) :
    ∃ hne : v ≠ [], Gen.luhn.calc_check_digit v.dropLast d10 = .ok [v.getLast hne] := by
  obtain ⟨hD, hne, hL⟩ := imei_ok h
  refine ⟨hne, ?_⟩
  have hV := hL hlen
  rw [← List.dropLast_concat_getLast hne] at hV
  exact (gen_luhn_check_unique d10 v.dropLast (v.getLast hne) (by decide)
    (fun c hc => mem_d10.mpr (allIn_dropLast hD c hc)) (mem_d10.mpr (hD _ (List.getLast_mem hne)))).mp hV

theorem imei_check_unique (x v : Str) (h : Gen.imei.validate x = .ok v) (hlen : v.length = 15) (c : Nat)
    (hc : isAsciiDigit c = true) (hne : ∀ hv : v ≠ [], c ≠ v.getLast hv) :
    isOk (Gen.imei.validate (v.dropLast ++ [c])) = false := by
  have hv : v ≠ [] := by intro h0; subst h0; simp at hlen
  rw [← set_last v c hv]
  exact imei_single_error x v h hlen (v.length - 1) c (by omega) hc (by rw [getElem_last v hv]; exact hne hv)

theorem aadhaar_check_agrees (x v : Str) (h : Gen.in__aadhaar.validate x = .ok v) :
    ∃ hne : v ≠ [], Gen.verhoeff.calc_check_digit v.dropLast = .ok [v.getLast hne] := by
  obtain ⟨hD, hV⟩ := aadhaar_ok h
  have hne : v ≠ [] := by
    intro h0; subst h0
    rw [verhoeff_validate_eq] at hV
    simp [Verhoeff.validate, isOk] at hV
  refine ⟨hne, ?_⟩
  rw [← List.dropLast_concat_getLast hne] at hV
  exact (gen_verhoeff_check_unique v.dropLast (v.getLast hne) (allIn_dropLast hD)
    (hD _ (List.getLast_mem hne))).mp hV

theorem aadhaar_check_unique (x v : Str) (h : Gen.in__aadhaar.validate x = .ok v) (c : Nat)
    (hc : isAsciiDigit c = true) (hne : ∀ hv : v ≠ [], c ≠ v.getLast hv) :
    isOk (Gen.in__aadhaar.validate (v.dropLast ++ [c])) = false := by
  obtain ⟨hv, _⟩ := aadhaar_check_agrees x v h
  have hl : 0 < v.length := List.length_pos_iff.mpr hv
  rw [← set_last v c hv]
  exact aadhaar_single_error x v h (v.length - 1) c (by omega) hc (by rw [getElem_last v hv]; exact hne hv)

theorem grid_check_agrees (x v : Str) (h : Gen.grid.validate x = .ok v) (hne : v ≠ []) :
    Gen.iso7064_mod_37_36.calc_check_digit v.dropLast a36 = .ok [v.getLast hne] := by
  obtain ⟨hD, hV⟩ := grid_ok h
  rw [← List.dropLast_concat_getLast hne] at hV
  exact (gen_mod_37_36_check_unique a36 v.dropLast (v.getLast hne) (by decide) (by decide)
    (fun c hc => mem_alpha36.mpr (allIn_dropLast hD c hc)) (mem_alpha36.mpr (hD _ (List.getLast_mem hne)))).mp hV

theorem grid_check_unique (x v : Str) (h : Gen.grid.validate x = .ok v) (hv : v ≠ []) (c : Nat)
    (hc : isDU c = true) (hne : c ≠ v.getLast hv) :
    isOk (Gen.grid.validate (v.dropLast ++ [c])) = false := by
  have hl : 0 < v.length := List.length_pos_iff.mpr hv
  rw [← set_last v c hv]
  exact grid_single_error x v h (v.length - 1) c (by omega) hc (by rw [getElem_last v hv]; exact hne)

theorem isni_check_agrees (x v : Str) (h : Gen.isni.validate x = .ok v) (hascii : AllIn isAscii v)
    (hne : v ≠ []) :
    Gen.iso7064_mod_11_2.calc_check_digit v.dropLast = .ok [v.getLast hne] := by
  obtain ⟨hD, hV⟩ := isni_ok h hascii
  rw [← List.dropLast_concat_getLast hne] at hV
  exact (gen_mod_11_2_check_unique v.dropLast (v.getLast hne) (allIn_dropLast hD)
    (hD _ (List.getLast_mem hne))).mp hV

theorem isni_check_unique (x v : Str) (h : Gen.isni.validate x = .ok v) (hascii : AllIn isAscii v)
    (hv : v ≠ []) (c : Nat) (hc : isD11 c = true) (hne : c ≠ v.getLast hv) :
    isOk (Gen.isni.validate (v.dropLast ++ [c])) = false := by
  have hl : 0 < v.length := List.length_pos_iff.mpr hv
  rw [← set_last v c hv]
  exact isni_single_error x v h hascii (v.length - 1) c (by omega) hc (by rw [getElem_last v hv]; exact hne)

/-! ## Non-vacuity -/
section Examples
/- `str% "ab"` (scoped in `Props.C17`) elaborates to the code-point list `[97, 98]` -/

example : Gen.ean.calc_check_digit (str% "978047111709") = .ok (str% "4") :=
  (ean_check_agrees _ _ ex_ean13).2
example : isOk (Gen.ean.validate (str% "9780471117095")) = false :=
  ean_check_unique _ _ ex_ean13 53 (by decide) (fun _ => by simp)
example : ∃ k, Gen.ean.calc_check_digit (str% "7351353") = .ok [k] ∧
    Gen.ean.validate (str% "7351353" ++ [k]) = .ok (str% "7351353" ++ [k]) :=
  ean_check_complete _ (by decide) (Or.inl rfl)
example : Gen.ean.calc_check_digit (str% "7351353") = .ok (str% "7") := by decide +kernel

example : Gen.issn.calc_check_digit (str% "0024931") = .ok (str% "9") :=
  (issn_check_agrees _ _ ex_issn).2
example : isOk (Gen.issn.validate (str% "0024931X")) = false :=
  issn_check_unique _ _ ex_issn 88 (by decide) (fun _ => by simp)
example : ∃ k, Gen.issn.calc_check_digit (str% "0317847") = .ok [k] ∧
    Gen.issn.validate (str% "0317847" ++ [k]) = .ok (str% "0317847" ++ [k]) :=
  issn_check_complete _ (by decide) rfl
example : Gen.issn.calc_check_digit (str% "0317847") = .ok (str% "1") := by decide +kernel

example : Gen.isbn._calc_isbn10_check_digit (str% "185798218") = .ok (str% "5") :=
  (isbn10_check_agrees _ _ ex_isbn10 rfl).2
example : isOk (Gen.isbn.validate (str% "185798218X") false) = false :=
  isbn10_check_unique _ _ ex_isbn10 rfl 88 (by decide) (fun _ => by simp)
example : ∃ k, Gen.isbn._calc_isbn10_check_digit (str% "080442957") = .ok [k] ∧
    Gen.isbn.validate (str% "080442957" ++ [k]) false = .ok (str% "080442957" ++ [k]) :=
  isbn10_check_complete _ (by decide) rfl
example : Gen.isbn._calc_isbn10_check_digit (str% "080442957") = .ok (str% "X") := by decide +kernel

example : Gen.luhn.calc_check_digit (str% "35209900176148") d10 = .ok (str% "1") :=
  (imei_check_agrees _ _ ex_imei rfl).2
example : isOk (Gen.imei.validate (str% "352099001761482")) = false :=
  imei_check_unique _ _ ex_imei rfl 50 (by decide) (fun _ => by simp)
example : Gen.verhoeff.calc_check_digit (str% "23412341234") = .ok (str% "6") :=
  (aadhaar_check_agrees _ _ ex_aadhaar).2
example : isOk (Gen.in__aadhaar.validate (str% "234123412347")) = false :=
  aadhaar_check_unique _ _ ex_aadhaar 55 (by decide) (fun _ => by simp)
example : Gen.iso7064_mod_37_36.calc_check_digit (str% "A12425GABC1234002") a36 = .ok (str% "M") :=
  grid_check_agrees _ _ ex_grid (by decide)
example : isOk (Gen.grid.validate (str% "A12425GABC12340020")) = false :=
  grid_check_unique _ _ ex_grid (by decide) 48 (by decide) (by decide)
example : Gen.iso7064_mod_11_2.calc_check_digit (str% "000000012146438") = .ok (str% "X") :=
  isni_check_agrees _ _ ex_isni (by decide) (by decide)
example : isOk (Gen.isni.validate (str% "0000000121464387")) = false :=
  isni_check_unique _ _ ex_isni (by decide) (by decide) 55 (by decide) (by decide)

end Examples
end Props.C05

#print axioms Props.C05.ean_check_agrees
#print axioms Props.C05.ean_check_unique
#print axioms Props.C05.ean_check_complete
#print axioms Props.C05.issn_check_agrees
#print axioms Props.C05.issn_check_unique
#print axioms Props.C05.issn_check_complete
#print axioms Props.C05.isbn10_check_agrees
#print axioms Props.C05.isbn10_check_unique
#print axioms Props.C05.isbn10_check_complete
#print axioms Props.C05.imei_check_agrees
#print axioms Props.C05.imei_check_unique
#print axioms Props.C05.aadhaar_check_agrees
#print axioms Props.C05.aadhaar_check_unique
#print axioms Props.C05.grid_check_agrees
#print axioms Props.C05.grid_check_unique
#print axioms Props.C05.isni_check_agrees
#print axioms Props.C05.isni_check_unique
