import Lemmas.Util
import Lemmas.Unicode
import Lemmas.Strip
/-!
# C07 (auxiliary) — `upper()` after `strip(clean())`: what a second `strip(clean())` can do to a compact number

`isbn.validate` and `ismn.validate` hand the number they have already compacted (`upper(strip(clean(x)))`) to
`ean.validate`, which compacts once more (`strip(clean(·))`).  The second pass is NOT the identity in general:
`'ŉ'.upper()` is `'ʼN'` and `clean` maps `ʼ` (U+02BC) to an apostrophe.  What matters for the agreement theorems is
weaker and true: upper-casing a character that `clean` leaves alone never yields a character that `clean` turns
into a digit, a hyphen or white space (`badKey`), and never yields white space.  Both facts are checked by the
kernel over the generated tables (`Uni.Data.upper1Tab`, `Uni.Data.upperFullTab`, `Gen.util._char_map`,
`Uni.Data.spaceTab`).  `Tame` collects what is then known about a compact number, `tame_of_compact` proves it.
-/
namespace Props.C07
open Py

/-- `clean` changes `k` into a digit, a hyphen or white space -/
def badKey (k : Nat) : Bool := cm k != k && (isAsciiDigit (cm k) || cm k == 45 || Uni.isSpace (cm k))

/-! ## table checks -/

theorem upperFullTab_check :
    Uni.Data.upperFullTab.toList.all (fun e =>
      !e.2.isEmpty && e.2.all (fun u => !badKey u && !Uni.isSpace u)) = true := by
  decide +kernel

/-- the keys of `_char_map` with `badKey` (none of them is a letter) -/
def badKeys : List Nat :=
  [1418, 1470, 8208, 8209, 8210, 8211, 8212, 8213, 65123, 65293, 6154, 8254, 8259, 175, 727, 65507, 5760, 8315, 8331,
   8722, 9135, 9146, 9147, 9148, 9149, 9188, 160, 8192, 8193, 8194, 8195, 8196, 8197, 8198, 8199, 8200, 8201, 8202,
   8239, 8287, 12288, 65296, 120782, 120792, 120802, 120812, 120822, 65297, 120783, 120793, 120803, 120813, 120823,
   65298, 120784, 120794, 120804, 120814, 120824, 65299, 120785, 120795, 120805, 120815, 120825, 65300, 120786,
   120796, 120806, 120816, 120826, 65301, 120787, 120797, 120807, 120817, 120827, 65302, 120788, 120798, 120808,
   120818, 120828, 65303, 120789, 120799, 120809, 120819, 120829, 65304, 120790, 120800, 120810, 120820, 120830,
   65305, 120791, 120801, 120811, 120821, 120831]

theorem badKeys_complete :
    Gen.util._char_map.all (fun p =>
      match p.1 with
      | [k] => !badKey k || badKeys.contains k
      | _ => true) = true := by
  decide +kernel

/-- a run `(lo, hi, v)` of the simple upper-case table maps `lo + j ↦ v + j`; no image is a `badKey` -/
theorem upper1Tab_cm_check :
    Uni.Data.upper1Tab.toList.all (fun e =>
      badKeys.all (fun k => decide (k < e.2.2) || decide (e.2.2 + (e.2.1 - e.1) < k))) = true := by
  decide +kernel

/-- the white space ranges do not meet the image of any run -/
theorem upper1Tab_space_check :
    Uni.Data.upper1Tab.toList.all (fun e =>
      (Uni.Data.spaceTab.toList).all (fun r =>
        decide (r.2 < e.2.2) || decide (e.2.2 + (e.2.1 - e.1) < r.1))) = true := by
  decide +kernel

theorem isSpace_range {c : Nat} (h : Uni.isSpace c = true) : ∃ r ∈ Uni.Data.spaceTab.toList, r.1 ≤ c ∧ c ≤ r.2 := by
  unfold Uni.isSpace at h
  split at h
  · simp only [Bool.or_eq_true, Bool.and_eq_true, decide_eq_true_eq] at h
    rcases h with h | h
    · exact ⟨(9, 13), by decide, h.1, h.2⟩
    · exact ⟨(28, 32), by decide, h.1, h.2⟩
  · exact Uni.inRanges_true h

/-! ## per character -/

theorem upperC_cases (d : Nat) :
    (d < 128 ∧ Uni.upperC d = [asciiUpper d]) ∨
    (128 ≤ d ∧ ∃ l, (d, l) ∈ Uni.Data.upperFullTab.toList ∧ Uni.upperC d = l) ∨
    (128 ≤ d ∧ Uni.upperC d = [d]) ∨
    (128 ≤ d ∧ ∃ e ∈ Uni.Data.upper1Tab.toList, e.1 ≤ d ∧ d ≤ e.2.1 ∧ Uni.upperC d = [e.2.2 + (d - e.1)]) := by
  by_cases h : d < 128
  · exact Or.inl ⟨h, Uni.upperC_ascii' h⟩
  · right
    unfold Uni.upperC
    rw [if_neg h]
    cases hp : Uni.pointVal Uni.Data.upperFullTab d with
    | some l => exact Or.inl ⟨by omega, l, Uni.pointVal_some hp, rfl⟩
    | none =>
      right
      cases hr : Uni.runVal Uni.Data.upper1Tab d with
      | none => exact Or.inl ⟨by omega, rfl⟩
      | some r =>
        obtain ⟨e, he, h1, h2, h3⟩ := Uni.runVal_some hr
        exact Or.inr ⟨by omega, e, he, h1, h2, by simp [h3]⟩

theorem upperC_ne_nil (d : Nat) : Uni.upperC d ≠ [] := by
  rcases upperC_cases d with ⟨_, h⟩ | ⟨_, l, hm, h⟩ | ⟨_, h⟩ | ⟨_, e, _, _, _, h⟩
  · rw [h]; simp
  · rw [h]
    have := List.all_eq_true.mp upperFullTab_check _ hm
    simp only [Bool.and_eq_true, Bool.not_eq_true', List.isEmpty_eq_false_iff] at this
    exact this.1
  · rw [h]; simp
  · rw [h]; simp

/-- upper-casing a character that `clean` leaves alone never yields a character that `clean` turns into a digit, a
hyphen or white space -/
theorem badKey_upperC {d u : Nat} (hd : cm d = d) (hu : u ∈ Uni.upperC d) : badKey u = false := by
  rcases upperC_cases d with ⟨hlt, h⟩ | ⟨_, l, hm, h⟩ | ⟨_, h⟩ | ⟨_, e, he, h1, h2, h⟩
  · rw [h] at hu
    have hu' : u = asciiUpper d := by simpa using hu
    have hult : u < 128 := by rw [hu']; exact asciiUpper_lt hlt
    have h96 : u ≠ 96 := by
      intro h0
      rw [hu', asciiUpper_eq] at h0
      split at h0
      · rename_i hl
        simp only [isAsciiLower, Bool.and_eq_true, decide_eq_true_eq] at hl
        omega
      · subst h0; simp at hd
    unfold badKey
    rw [cm_of_ascii_ne hult h96]
    simp
  · rw [h] at hu
    have := List.all_eq_true.mp upperFullTab_check _ hm
    simp only [Bool.and_eq_true, List.all_eq_true, Bool.not_eq_true'] at this
    exact (this.2 u hu).1
  · rw [h] at hu
    have : u = d := by simpa using hu
    subst this
    unfold badKey
    rw [hd]; simp
  · rw [h] at hu
    have hu' : u = e.2.2 + (d - e.1) := by simpa using hu
    cases hb : badKey u with
    | false => rfl
    | true =>
      exfalso
      have hne : cm u ≠ u := by
        unfold badKey at hb
        simp only [Bool.and_eq_true, bne_iff_ne, ne_eq] at hb
        exact hb.1
      rcases cm_cases u with h' | hm
      · exact hne h'
      · have hk := List.all_eq_true.mp badKeys_complete _ hm
        simp only [hb, Bool.not_true, Bool.false_or, List.contains_iff_mem] at hk
        have := List.all_eq_true.mp (List.all_eq_true.mp upper1Tab_cm_check e he) u hk
        simp only [Bool.or_eq_true, decide_eq_true_eq] at this
        omega

/-- upper-casing never yields white space from a character that is not white space -/
theorem isSpace_upperC {d u : Nat} (hu : u ∈ Uni.upperC d) (hs : Uni.isSpace u = true) : u = d := by
  rcases upperC_cases d with ⟨hlt, h⟩ | ⟨_, l, hm, h⟩ | ⟨_, h⟩ | ⟨_, e, he, h1, h2, h⟩
  · rw [h] at hu
    have hu' : u = asciiUpper d := by simpa using hu
    rw [hu', asciiUpper_eq] at hs ⊢
    split
    · rename_i hl
      rw [if_pos hl] at hs
      simp only [isAsciiLower, Bool.and_eq_true, decide_eq_true_eq] at hl
      obtain ⟨r, hr, h1, h2⟩ := isSpace_range hs
      have : ∀ r ∈ Uni.Data.spaceTab.toList, r = (9, 13) ∨ r = (28, 32) ∨ 128 ≤ r.1 := by decide
      rcases this r hr with rfl | rfl | h3
      · simp at h1 h2; omega
      · simp at h1 h2; omega
      · omega
    · rfl
  · rw [h] at hu
    have := List.all_eq_true.mp upperFullTab_check _ hm
    simp only [Bool.and_eq_true, List.all_eq_true, Bool.not_eq_true'] at this
    have := (this.2 u hu).2
    rw [hs] at this; cases this
  · rw [h] at hu
    simpa using hu
  · rw [h] at hu
    have hu' : u = e.2.2 + (d - e.1) := by simpa using hu
    exfalso
    obtain ⟨r, hr, hr1, hr2⟩ := isSpace_range hs
    have := List.all_eq_true.mp (List.all_eq_true.mp upper1Tab_space_check e he) r hr
    simp only [Bool.or_eq_true, decide_eq_true_eq] at this
    omega

/-! ## strings -/

theorem mem_upper {s : Str} {u : Nat} : u ∈ upper s ↔ ∃ d ∈ s, u ∈ Uni.upperC d := by
  unfold upper
  exact List.mem_flatMap

theorem upper_cons (d : Nat) (s : Str) : upper (d :: s) = Uni.upperC d ++ upper s := by
  unfold upper; simp

theorem upper_head? {s : Str} {c : Nat} (h : (upper s).head? = some c) :
    ∃ d, s.head? = some d ∧ c ∈ Uni.upperC d := by
  cases s with
  | nil => simp [upper] at h
  | cons d t =>
    refine ⟨d, rfl, ?_⟩
    rw [upper_cons] at h
    cases hu : Uni.upperC d with
    | nil => exact absurd hu (upperC_ne_nil d)
    | cons a l =>
      rw [hu] at h
      have : a = c := by simpa using h
      rw [← this]; simp

theorem upper_getLast? {s : Str} {c : Nat} (h : (upper s).getLast? = some c) :
    ∃ d, s.getLast? = some d ∧ c ∈ Uni.upperC d := by
  rcases List.eq_nil_or_concat s with rfl | ⟨t, d, rfl⟩
  · simp [upper] at h
  · rw [List.concat_eq_append] at h ⊢
    refine ⟨d, by simp, ?_⟩
    rw [upper_append] at h
    have hd : upper [d] = Uni.upperC d := by unfold upper; simp
    rw [hd, List.getLast?_append] at h
    cases hl : (Uni.upperC d).getLast? with
    | none =>
      rw [List.getLast?_eq_none_iff] at hl
      exact absurd hl (upperC_ne_nil d)
    | some l =>
      rw [hl] at h
      have : l = c := by simpa using h
      rw [← this]
      exact List.mem_of_getLast? hl

/-- what is known about the characters of a compact number `upper(strip(clean(x, d)))` -/
def Tame (n : Str) : Prop :=
  (∀ c ∈ n, badKey c = false ∧ c ≠ 32 ∧ c ≠ 45) ∧
  (∀ c, n.head? = some c → Uni.isSpace c = false) ∧ (∀ c, n.getLast? = some c → Uni.isSpace c = false)

theorem tame_of_compact (x d : Str) (h32 : 32 ∈ d) (h45 : 45 ∈ d) :
    Tame (upper (strip (cleanP x d))) := by
  refine ⟨?_, ?_, ?_⟩
  · intro c hc
    obtain ⟨e, he, hce⟩ := mem_upper.mp hc
    have he' := mem_of_mem_strip _ _ he
    obtain ⟨_, c0, _, rfl⟩ := mem_cleanP.mp he'
    refine ⟨badKey_upperC (cm_idem c0) hce, ?_, ?_⟩
    · intro h0
      subst h0
      have := upper_ascii_nonupper_origin _ 32 hc (by decide) (by decide)
      exact not_mem_of_mem_cleanP (mem_of_mem_strip _ _ this) h32
    · intro h0
      subst h0
      have := upper_ascii_nonupper_origin _ 45 hc (by decide) (by decide)
      exact not_mem_of_mem_cleanP (mem_of_mem_strip _ _ this) h45
  · intro c hc
    obtain ⟨e, he, hce⟩ := upper_head? hc
    have hne := strip_head_not_space _ e he
    cases hs : Uni.isSpace c with
    | false => rfl
    | true => rw [isSpace_upperC hce hs, hne] at hs; cases hs
  · intro c hc
    obtain ⟨e, he, hce⟩ := upper_getLast? hc
    have hne := strip_getLast?_not_space _ e he
    cases hs : Uni.isSpace c with
    | false => rfl
    | true => rw [isSpace_upperC hce hs, hne] at hs; cases hs

/-- a second `strip(clean(·, [' ', '-']))` on a tame string only applies `cm` character by character -/
theorem Tame.second_compact {n : Str} (h : Tame n) : strip (cleanP n [32, 45]) = n.map cm := by
  have hc : cleanP n [32, 45] = n.map cm := by
    unfold cleanP
    apply List.filter_eq_self.mpr
    intro a ha
    obtain ⟨c, hc, rfl⟩ := List.mem_map.mp ha
    obtain ⟨hb, h32, h45⟩ := h.1 c hc
    by_cases hcm : cm c = c
    · rw [hcm]
      simp only [List.contains_cons, List.contains_nil, Bool.or_false, Bool.not_eq_true', Bool.or_eq_false_iff,
        beq_eq_false_iff_ne, ne_eq]
      exact ⟨h32, h45⟩
    · unfold badKey at hb
      have hb' : (isAsciiDigit (cm c) || cm c == 45 || Uni.isSpace (cm c)) = false := by
        have : (cm c != c) = true := by simpa using hcm
        rw [this, Bool.true_and] at hb
        exact hb
      simp only [Bool.or_eq_false_iff, beq_eq_false_iff_ne, ne_eq] at hb'
      simp only [List.contains_cons, List.contains_nil, Bool.or_false, Bool.not_eq_true', Bool.or_eq_false_iff,
        beq_eq_false_iff_ne, ne_eq]
      refine ⟨?_, hb'.1.2⟩
      intro h0
      rw [h0] at hb'
      exact absurd hb'.2 (by decide)
  rw [hc]
  have key : ∀ c ∈ n, Uni.isSpace c = false → Uni.isSpace (cm c) = false := by
    intro c hc hs
    by_cases hcm : cm c = c
    · rw [hcm]; exact hs
    · have hb := (h.1 c hc).1
      unfold badKey at hb
      have : (cm c != c) = true := by simpa using hcm
      rw [this, Bool.true_and] at hb
      simp only [Bool.or_eq_false_iff] at hb
      exact hb.2
  apply strip_eq_self'
  · intro c hc
    cases n with
    | nil => simp at hc
    | cons a t =>
      have : cm a = c := by simpa using hc
      rw [← this]
      exact key a List.mem_cons_self (h.2.1 a rfl)
  · intro c hc
    rw [List.getLast?_map] at hc
    cases hl : n.getLast? with
    | none => rw [hl] at hc; simp at hc
    | some l =>
      rw [hl] at hc
      have : cm l = c := by simpa using hc
      rw [← this]
      exact key l (List.mem_of_getLast? hl) (h.2.2 l hl)

/-- on a tame string, `clean` produces an ASCII digit only from that ASCII digit -/
theorem Tame.digit_of_cm_digit {n : Str} (h : Tame n) {c : Nat} (hc : c ∈ n) (hd : isAsciiDigit (cm c) = true) :
    cm c = c := by
  by_cases hcm : cm c = c
  · exact hcm
  · have hb := (h.1 c hc).1
    unfold badKey at hb
    have : (cm c != c) = true := by simpa using hcm
    rw [this, Bool.true_and, hd] at hb
    simp at hb

end Props.C07

#print axioms Props.C07.tame_of_compact
#print axioms Props.C07.Tame.second_compact
