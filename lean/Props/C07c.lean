import Props.C07b
/-!
# C07 (part c) — LEI, ISO 11649, ISNI, GRid (the ISO 7064 formats)

For each of these formats the real code is knowingly more lenient than the published rule (it never checks the shape
of the check digits / the length / the scheme element).  Per format:
* `M_agrees_with_code_rule` — the full equivalence (∀ x) with the rule the code implements, stated declaratively
  (a congruence over the whole number);
* `M_disagrees` — the negation of the full equivalence with the published rule, by a concrete witness evaluated on
  the generated function;
* `M_agrees_with_standard_partial` — the equivalence with the published rule under the hypothesis that excludes
  exactly that leniency.
-/
namespace Props.C07
open Py Spec.Checksum Lemmas.Refine Lemmas.Fold Props.C06 Props.C06Gen Props Spec.Standards

/-! ## ISO 7064 MOD 97-10: "compute the remainder digit by digit" is "the whole numeral ≡ 1 (mod 97)" -/

theorem numeral_cons (v : Nat) (l : List Nat) :
    numeral (v :: l) = v * 10 ^ Mod9710.width l + numeral l := rfl

/-- the running remainder of the code (`vstep`: one or two decimal digits per character) is the remainder of the
whole decimal numeral -/
theorem m9710_fold_numeral (l : List Nat) : ∀ s : Nat, s < 97 →
    l.foldl Mod9710.vstep s = (s * 10 ^ Mod9710.width l + numeral l) % 97 := by
  induction l with
  | nil => intro s hs; simp [Mod9710.width, numeral, Nat.mod_eq_of_lt hs]
  | cons v l ih =>
    intro s _
    rw [List.foldl_cons, ih _ (by unfold Mod9710.vstep; split <;> exact Nat.mod_lt _ (by decide)),
      C17.m9710_vstep_eq, C17.mod_mul_add, numeral_cons, C06.width_cons]
    congr 1
    split
    · rw [Nat.pow_add]; simp only [Nat.pow_one]
      rw [Nat.add_mul, Nat.mul_assoc]; omega
    · rw [Nat.pow_add]
      rw [Nat.add_mul, Nat.mul_assoc]; omega

theorem vchecksum_numeral (l : List Nat) : Mod9710.vchecksum l = numeral l % 97 := by
  unfold Mod9710.vchecksum
  rw [m9710_fold_numeral l 0 (by decide), Nat.zero_mul, Nat.zero_add]

/-- the rule `mod_97_10.validate` implements on a string without lower-case letters: non-empty, digits and upper-case
letters, at most 4300 decimal digits after the replacement of letters (CPython's `int()` limit), numeral ≡ 1 -/
def m9710 (w : Str) : Bool :=
  !w.isEmpty && w.all C17.isDU && decide (Mod9710.width (w.map v36) ≤ 4300) && numeral (w.map v36) % 97 == 1

theorem v36_eq_b36Val {c : Nat} (h : C17.isDU c = true) : b36Val c = v36 c := by
  unfold b36Val asciiB36 v36
  simp only [C17.isDU, isAsciiDigit, isAsciiUpper, Bool.or_eq_true, Bool.and_eq_true, decide_eq_true_eq] at h
  rcases h with h | h
  · rw [if_pos h, if_pos (by omega)]; rfl
  · rw [if_neg (by omega), if_pos h, if_neg (by omega)]; rfl

theorem gen_mod_97_10_validate_iff (w : Str) (hlow : ∀ c ∈ w, isAsciiLower c = false) :
    (Gen.iso7064_mod_97_10.validate w).toOption = if m9710 w = true then some w else none := by
  by_cases hal : AllIn isAsciiAlnum w
  · have hDU : AllIn C17.isDU w := fun c hc => C17.du_of_alnum_not_lower (hal c hc) (hlow c hc)
    rw [mod_97_10_validate_eq]
    unfold Mod9710.validate
    rw [Mod9710.checksum_eq pyB36 defaultMaxDigits v36 w (fun c hc => by
      have h1 := asciiB36_spec c (hal c hc)
      rw [pyB36_extends c (hal c hc), h1.1, v36_eq_b36Val (hDU c hc)]
      exact ⟨rfl, by rw [← v36_eq_b36Val (hDU c hc)]; exact h1.2⟩)]
    unfold m9710
    rw [all_iff_allIn.mpr hDU]
    by_cases hnil : w = []
    · subst hnil; rfl
    · have he : w.isEmpty = false := by cases w with | nil => exact absurd rfl hnil | cons _ _ => rfl
      rw [if_neg hnil, he]
      have hmax : defaultMaxDigits = 4300 := rfl
      rw [hmax]
      by_cases hw : Mod9710.width (w.map v36) ≤ 4300
      · rw [if_neg (by omega), decide_eq_true hw, vchecksum_numeral]
        unfold validateBody tryExcept
        simp only [ok_bind, pure_eq_ok, Bool.not_false, Bool.and_self, Bool.true_and]
        cases (numeral (w.map v36) % 97 == 1) <;> rfl
      · rw [if_pos ⟨by decide, by omega⟩, decide_eq_false hw]
        simp only [Bool.and_false, Bool.false_and]
        rfl
  · have hm : m9710 w = false := by
      apply bool_false_of
      intro h
      unfold m9710 at h
      simp only [Bool.and_eq_true] at h
      exact hal (fun c hc => C17.alnum_of_du (all_iff_allIn.mp h.1.1.2 c hc))
    rw [hm]
    cases hv : Gen.iso7064_mod_97_10.validate w with
    | error e => rfl
    | ok r => exact absurd (C17.gen_mod_97_10_validate_ok hv).2 hal


theorem toOption_bind_const {α : Type} (v : R α) (n : Str) :
    (v >>= fun _ => (Except.ok n : R Str)).toOption = v.toOption.map (fun _ => n) := by
  cases v <;> rfl

/-! ## LEI -/

theorem canon_lei_eq (x : Str) : canon_lei x = upper (strip (cleanP x [32, 45])) := by
  unfold canon_lei Gen.lei.compact
  simp only [clean_eq, bind_ok, pure_ok]
  rfl

/-- LEI, the rule the code implements: any non-empty string of digits and upper-case letters whose numeral is
`≡ 1 (mod 97)` — no length, no shape of the check digits -/
theorem lei_agrees_with_code_rule (x : Str) :
    (Gen.lei.validate x).toOption = if m9710 (canon_lei x) = true then some (canon_lei x) else none := by
  rw [canon_lei_eq]
  unfold Gen.lei.validate Gen.lei.compact
  simp only [clean_eq, bind_ok, pure_ok]
  have hlow : ∀ c ∈ upper (strip (cleanP x [32, 45])), isAsciiLower c = false :=
    fun c hc => C17.upper_no_asciiLower _ c hc
  generalize upper (strip (cleanP x [32, 45])) = n at hlow ⊢
  rw [toOption_bind_const, gen_mod_97_10_validate_iff n hlow]
  cases m9710 n <;> rfl

/- LEI, the full statement
     ∀ x, (Gen.lei.validate x).toOption = if Std_lei (canon_lei x) then some (canon_lei x) else none
   is FALSE on the current tree (no length check; the check digits may be letters): -/
open Props.C17 in
theorem lei_disagrees :
    ¬ ∀ x, (Gen.lei.validate x).toOption =
      if Std_lei (canon_lei x) = true then some (canon_lei x) else none := by
  intro h
  have := h (str% "1")
  rw [lei_agrees_with_code_rule] at this
  revert this
  decide +kernel

open Props.C17 in
/-- the witnesses, evaluated on the generated function: a one-character "LEI", and check "digits" `H7` -/
theorem lei_witness : Gen.lei.validate (str% "1") = .ok (str% "1") ∧ Std_lei (str% "1") = false ∧
    Gen.lei.validate (str% "1091851P2WI4YEZFH8H7") = .ok (str% "1091851P2WI4YEZFH8H7") ∧
    Std_lei (str% "1091851P2WI4YEZFH8H7") = false := by decide +kernel

/-- LEI: agreement with ISO 17442 for every input of 20 characters (after clean-up) whose last two are digits -/
theorem lei_agrees_with_standard_partial (x : Str) (hlen : (canon_lei x).length = 20)
    (hchk : ((canon_lei x).drop 18).all Spec.Standards.isD = true) :
    (Gen.lei.validate x).toOption = if Std_lei (canon_lei x) = true then some (canon_lei x) else none := by
  rw [lei_agrees_with_code_rule]
  generalize canon_lei x = n at hlen hchk
  have : m9710 n = Std_lei n := by
    unfold m9710 Std_lei
    have he : n.isEmpty = false := by cases n with | nil => simp at hlen | cons _ _ => rfl
    have hw : Mod9710.width (n.map v36) ≤ 4300 := by
      have := C17.width_le (n.map v36)
      rw [List.length_map, hlen] at this
      omega
    have hl : (n.length == 20) = true := by simp [hlen]
    rw [he, decide_eq_true hw, hl, hchk, isDU_eq]
    simp
  rw [this]


/-! ## ISO 11649 -/

theorem canon_iso11649_eq (x : Str) : canon_iso11649 x = strip (upper (cleanP x [32, 45, 46, 44, 47, 58])) := by
  unfold canon_iso11649 Gen.iso11649.compact
  simp only [clean_eq, bind_ok, pure_ok]
  rfl

/-- the rule the code implements: length 5..25, `RF` in front, `number[4:] + number[:4]` ≡ 1 (mod 97); the two
characters after `RF` may be letters -/
def iso11649_code (t : Str) : Bool :=
  decide (5 ≤ t.length) && decide (t.length ≤ 25) && startswith t [82, 70] && m9710 (C17.rot4 t)

theorem iso11649_agrees_with_code_rule (x : Str) :
    (Gen.iso11649.validate x).toOption =
      if iso11649_code (canon_iso11649 x) = true then some (canon_iso11649 x) else none := by
  rw [canon_iso11649_eq]
  unfold Gen.iso11649.validate Gen.iso11649.compact
  simp only [clean_eq, bind_ok, pure_ok, C17.rot4_eq]
  have hlow : ∀ c ∈ strip (upper (cleanP x [32, 45, 46, 44, 47, 58])), isAsciiLower c = false :=
    fun c hc => C17.mem_strip_upper hc
  generalize strip (upper (cleanP x [32, 45, 46, 44, 47, 58])) = n at hlow ⊢
  unfold iso11649_code
  by_cases hl : 5 ≤ n.length ∧ n.length ≤ 25
  · have e1 : (decide ((n.length : Int) < 5) || decide ((n.length : Int) > 25)) = false := by
      simp only [Bool.or_eq_false_iff, decide_eq_false_iff_not]; omega
    simp only [e1, Bool.false_eq_true, if_false, decide_eq_true hl.1, decide_eq_true hl.2, Bool.true_and]
    cases hs : startswith n [82, 70] with
    | false => rfl
    | true =>
      simp only [Bool.not_true, Bool.false_eq_true, if_false, Bool.true_and]
      rw [toOption_bind_const, gen_mod_97_10_validate_iff _ (fun c hc => hlow c (C17.mem_rot4.mp hc))]
      cases m9710 (C17.rot4 n) <;> rfl
  · have e1 : (decide ((n.length : Int) < 5) || decide ((n.length : Int) > 25)) = true := by
      simp only [Bool.or_eq_true, decide_eq_true_eq]; omega
    have e2 : (decide (5 ≤ n.length) && decide (n.length ≤ 25)) = false := by
      simp only [Bool.and_eq_false_iff, decide_eq_false_iff_not]; omega
    simp only [e1, if_true, e2, Bool.false_and]
    rfl

/- ISO 11649, the full statement
     ∀ x, (Gen.iso11649.validate x).toOption = if Std_iso11649 (canon_iso11649 x) then some … else none
   is FALSE on the current tree (the check digits may be letters): -/
open Props.C17 in
theorem iso11649_disagrees :
    ¬ ∀ x, (Gen.iso11649.validate x).toOption =
      if Std_iso11649 (canon_iso11649 x) = true then some (canon_iso11649 x) else none := by
  intro h
  have := h (str% "RFCXY")
  rw [iso11649_agrees_with_code_rule] at this
  revert this
  decide +kernel

open Props.C17 in
theorem iso11649_witness : Gen.iso11649.validate (str% "RFCXY") = .ok (str% "RFCXY") ∧
    Std_iso11649 (str% "RFCXY") = false := by decide +kernel

/-- ISO 11649: agreement with the standard for every input whose two characters after `RF` are digits -/
theorem iso11649_agrees_with_standard_partial (x : Str)
    (hchk : (((canon_iso11649 x).drop 2).take 2).all Spec.Standards.isD = true) :
    (Gen.iso11649.validate x).toOption =
      if Std_iso11649 (canon_iso11649 x) = true then some (canon_iso11649 x) else none := by
  rw [iso11649_agrees_with_code_rule]
  generalize canon_iso11649 x = n at hchk
  have : iso11649_code n = Std_iso11649 n := by
    unfold iso11649_code Std_iso11649 m9710
    rw [hchk]
    by_cases hl : 5 ≤ n.length ∧ n.length ≤ 25
    · have he : (C17.rot4 n).isEmpty = false := by
        have := C17.rot4_length n
        cases h : C17.rot4 n with
        | nil => rw [h] at this; simp at this; omega
        | cons _ _ => rfl
      have hw : Mod9710.width ((C17.rot4 n).map v36) ≤ 4300 := by
        have := C17.width_le ((C17.rot4 n).map v36)
        rw [List.length_map, C17.rot4_length] at this
        omega
      have hall : (C17.rot4 n).all C17.isDU = n.all Spec.Standards.isDU := by
        rw [Bool.eq_iff_iff, all_iff_allIn, all_iff_allIn, isDU_eq]
        exact ⟨fun h c hc => h c (C17.mem_rot4.mpr hc), fun h c hc => h c (C17.mem_rot4.mp hc)⟩
      have hst : startswith n [82, 70] = (n.take 2 == [82, 70]) := by
        rw [Bool.eq_iff_iff, startswith_eq_take]
        simp only [List.length_cons, List.length_nil, beq_iff_eq]
        constructor
        · exact fun h => h.1
        · exact fun h => ⟨h, by omega⟩
      have hrot : C17.rot4 n = n.drop 4 ++ n.take 4 := rfl
      rw [he, decide_eq_true hw, hall, hst, hrot, decide_eq_true hl.1, decide_eq_true hl.2]
      simp only [Bool.not_false, Bool.true_and, Bool.and_true]
      cases (n.take 2 == [82, 70]) <;> cases (n.all Spec.Standards.isDU) <;> simp
    · have e2 : (decide (5 ≤ n.length) && decide (n.length ≤ 25)) = false := by
        simp only [Bool.and_eq_false_iff, decide_eq_false_iff_not]; omega
      rw [e2]
      simp
  rw [this]


/-! ## ISNI (ISO 7064 MOD 11-2): the running remainder is `Σ aᵢ·2^(n−i) mod 11` -/

theorem mod_mul_add' (m a P c : Nat) : ((a % m) * P + c) % m = (a * P + c) % m := by
  rw [Nat.add_mod, Nat.mul_mod, Nat.mod_mod, ← Nat.mul_mod, ← Nat.add_mod]

theorem pure_fold_pval (l : List Nat) : ∀ s : Nat, s < 11 →
    l.foldl (pureStep 11) s = (s * 2 ^ l.length + pval 2 l) % 11 := by
  induction l with
  | nil => intro s hs; simp [pval, Nat.mod_eq_of_lt hs]
  | cons v l ih =>
    intro s _
    rw [List.foldl_cons, ih _ (by unfold pureStep; exact Nat.mod_lt _ (by decide))]
    unfold pureStep
    rw [mod_mul_add']
    simp only [pval, List.length_cons, Nat.pow_succ]
    congr 1
    rw [Nat.add_mul, Nat.mul_assoc]
    generalize 2 ^ l.length = P
    have : s * (P * 2) = 2 * (s * P) := by rw [← Nat.mul_assoc, Nat.mul_comm]
    omega

theorem pureChecksum_pval (l : List Nat) : pureChecksum 11 l = pval 2 l % 11 := by
  unfold pureChecksum
  rw [pure_fold_pval l 0 (by decide), Nat.zero_mul, Nat.zero_add]

theorem canon_isni_eq (x : Str) : canon_isni x = upper (strip (cleanP x [32, 45])) := by
  unfold canon_isni Gen.isni.compact
  simp only [clean_eq, bind_ok, pure_ok]
  rfl

/- ISNI, the full statement
     ∀ x, (Gen.isni.validate x).toOption = if Std_isni (canon_isni x) then some (canon_isni x) else none
   is FALSE on the current tree: `isdigits` is applied to `number[:-1]` only and `int()` accepts every Unicode decimal
   digit, so a non-ASCII digit is accepted as LAST character (ARABIC-INDIC DIGIT ZERO below): -/
theorem isni_disagrees :
    ¬ ∀ x, (Gen.isni.validate x).toOption =
      if Std_isni (canon_isni x) = true then some (canon_isni x) else none := by
  intro h
  have := h [48, 50, 49, 48, 50, 55, 54, 49, 50, 50, 51, 53, 53, 51, 55, 1632]
  revert this
  decide +kernel

theorem isni_witness :
    Gen.isni.validate [48, 50, 49, 48, 50, 55, 54, 49, 50, 50, 51, 53, 53, 51, 55, 1632] =
      .ok [48, 50, 49, 48, 50, 55, 54, 49, 50, 50, 51, 53, 53, 51, 55, 1632] ∧
    Std_isni [48, 50, 49, 48, 50, 55, 54, 49, 50, 50, 51, 53, 53, 51, 55, 1632] = false := by decide +kernel

/-- ISNI: agreement with ISO 27729 for every input whose last character (after clean-up) is ASCII -/
theorem isni_agrees_with_standard_partial (x : Str)
    (hascii : ∀ c, (canon_isni x).getLast? = some c → c < 128) :
    (Gen.isni.validate x).toOption = if Std_isni (canon_isni x) = true then some (canon_isni x) else none := by
  rw [canon_isni_eq] at hascii ⊢
  unfold Gen.isni.validate Gen.isni.compact
  simp only [clean_eq, isdigits_eq, bind_ok, pure_ok, C17.slice_none_neg_one]
  generalize upper (strip (cleanP x [32, 45])) = n at hascii ⊢
  have hstd : Std_isni n = true ↔ n.length = 16 ∧ AllIn isAsciiDigit n.dropLast ∧ AllIn isD11 n ∧
      pval 2 (n.map val112) % 11 = 1 := by
    unfold Std_isni
    simp only [Bool.and_eq_true, beq_iff_eq, isD_eq, isDX_eq, vX_eq, all_iff_allIn, and_assoc]
  cases hd : isDigitsB n.dropLast with
  | false =>
    have : Std_isni n = false := by
      apply bool_false_of
      intro h
      obtain ⟨hl, hp, _, _⟩ := hstd.mp h
      have : isDigitsB n.dropLast = true := (isDigitsB_iff _).mpr ⟨by
        intro h0
        have : n.dropLast.length = 15 := by simp [hl]
        rw [h0] at this; simp at this, hp⟩
      rw [this] at hd; cases hd
    rw [this]; rfl
  | true =>
    obtain ⟨hpne, hp⟩ := (isDigitsB_iff _).mp hd
    have hne : n ≠ [] := by intro h0; subst h0; exact hpne rfl
    simp only [Bool.not_true, Bool.false_eq_true, if_false]
    by_cases h16 : n.length = 16
    · have e16 : ((n.length : Int) != 16) = false := by simp [h16]
      simp only [e16, Bool.false_eq_true, if_false]
      rw [toOption_bind_const, mod_11_2_validate_eq]
      by_cases hk : isD11 (n.getLast hne) = true
      · have hD : AllIn isD11 n := by
          intro c hc
          rw [← List.dropLast_concat_getLast hne] at hc
          rcases List.mem_append.mp hc with h | h
          · exact C17.d11_of_digit (hp c h)
          · rw [List.mem_singleton.mp h]; exact hk
        rw [m112_validate_eq pyDec pyDec_extends n hD, pureChecksum_pval]
        by_cases hT : pval 2 (n.map val112) % 11 = 1
        · rw [if_pos hT, (hstd.mpr ⟨h16, hp, hD, hT⟩ : Std_isni n = true)]; rfl
        · rw [if_neg hT, (bool_false_of (fun h => hT (hstd.mp h).2.2.2) : Std_isni n = false)]; rfl
      · have : Std_isni n = false :=
          bool_false_of (fun h => hk ((hstd.mp h).2.2.1 _ (List.getLast_mem hne)))
        rw [this]
        cases hv : Mod112.validate pyDec n with
        | error e => rfl
        | ok r =>
          exfalso
          rw [← mod_11_2_validate_eq] at hv
          exact hk ((C17.gen_mod_11_2_validate_ok hv).2 _ (List.getLast_mem hne)
            (hascii _ (List.getLast?_eq_some_getLast hne)))
    · have e16 : ((n.length : Int) != 16) = true := by
        simp only [bne_iff_ne, ne_eq]; omega
      have : Std_isni n = false := bool_false_of (fun h => h16 (hstd.mp h).1)
      rw [this]
      simp only [e16, if_true]
      rfl


/-! ## GRid (ISO 7064 MOD 37,36): the code's single running value against the recursion of the standard -/

/-- `Pⱼ` of the standard from the code's running value: `2·(check ‖ 36) mod 37` -/
def hybP (check : Nat) : Nat := ((if check = 0 then 36 else check) * 2) % 37

/-- the code keeps `Sⱼ mod 36` only and recomputes `Pⱼ₊₁` at the next step -/
theorem hybrid_sim (vals : List Nat) : ∀ check : Nat,
    hybrid3736 (hybP check) vals check = vals.foldl (hybridStep 36) check := by
  induction vals with
  | nil => intro check; rfl
  | cons a l ih =>
    intro check
    rw [List.foldl_cons, ← ih]
    rfl

theorem hybrid_checksum_spec (vals : List Nat) (hne : vals ≠ []) :
    hybridChecksum 36 vals = hybrid3736 36 vals 0 := by
  unfold hybridChecksum
  rw [← hybrid_sim]
  cases vals with
  | nil => exact absurd rfl hne
  | cons a l => rfl

theorem canon_grid_eq (x : Str) :
    canon_grid x = (if startswith (upper (strip (cleanP x [32, 45]))) [71, 82, 73, 68, 58] = true
      then (upper (strip (cleanP x [32, 45]))).drop 5 else upper (strip (cleanP x [32, 45]))) := by
  unfold canon_grid Gen.grid.compact
  simp only [clean_eq, bind_ok, pure_ok]
  split
  · rw [slice_nonneg_none _ (by decide)]; rfl
  · rfl

/-- the rule the code implements: 18 alphanumerics with a valid MOD 37,36 check character (any scheme element) -/
def grid_code (t : Str) : Bool :=
  t.length == 18 && t.all Spec.Standards.isDU && hybrid3736 36 (t.map v36) 0 == 1

theorem grid_agrees_with_code_rule (x : Str) :
    (Gen.grid.validate x).toOption =
      if grid_code (canon_grid x) = true then some (canon_grid x) else none := by
  rw [canon_grid_eq]
  unfold Gen.grid.validate Gen.grid.compact
  simp only [clean_eq, bind_ok, pure_ok]
  have hc : (if startswith (upper (strip (cleanP x [32, 45]))) [71, 82, 73, 68, 58] = true then
        (Except.ok (slice (upper (strip (cleanP x [32, 45]))) (some 5) none) : R Str)
      else Except.ok (upper (strip (cleanP x [32, 45])))) =
      .ok (if startswith (upper (strip (cleanP x [32, 45]))) [71, 82, 73, 68, 58] = true
        then (upper (strip (cleanP x [32, 45]))).drop 5 else upper (strip (cleanP x [32, 45]))) := by
    split
    · rw [slice_nonneg_none _ (by decide)]; rfl
    · rfl
  rw [hc]
  simp only [bind_ok]
  generalize (if startswith (upper (strip (cleanP x [32, 45]))) [71, 82, 73, 68, 58] = true
    then (upper (strip (cleanP x [32, 45]))).drop 5 else upper (strip (cleanP x [32, 45]))) = n
  unfold grid_code
  by_cases h18 : n.length = 18
  · have e18 : ((n.length : Int) != 18) = false := by simp [h18]
    have e18' : (n.length == 18) = true := by simp [h18]
    simp only [e18, Bool.false_eq_true, if_false, e18', Bool.true_and]
    have ha : ([48, 49, 50, 51, 52, 53, 54, 55, 56, 57, 65, 66, 67, 68, 69, 70, 71, 72, 73, 74, 75, 76, 77, 78, 79, 80,
      81, 82, 83, 84, 85, 86, 87, 88, 89, 90] : Str) = C17.a36 := rfl
    rw [ha]
    by_cases hD : AllIn C17.isDU n
    · have hmem : ∀ c ∈ n, c ∈ C17.a36 := fun c hc => C17.mem_alpha36.mpr (hD c hc)
      have hne : n.map (C17.a36.idxOf ·) ≠ [] := by
        intro h0
        have : (n.map (C17.a36.idxOf ·)).length = 18 := by rw [List.length_map, h18]
        rw [h0] at this; simp at this
      have hvals : n.map (C17.a36.idxOf ·) = n.map v36 :=
        List.map_congr_left (fun c hc => (a36_spec c (hmem c hc)).1)
      have hl : C17.a36.length = 36 := rfl
      rw [mod_37_36_validate_eq, m3736_validate_eq C17.a36 n hmem, hl, hybrid_checksum_spec _ hne, hvals,
        isDU_eq, all_iff_allIn.mpr hD]
      by_cases hT : hybrid3736 36 (n.map v36) 0 = 1
      · rw [if_pos hT]; simp [hT, Except.toOption]
      · rw [if_neg hT]
        have : (hybrid3736 36 (n.map v36) 0 == 1) = false := by simpa using hT
        simp [this, Except.toOption]
    · have : n.all Spec.Standards.isDU = false := by
        apply bool_false_of
        intro h
        rw [isDU_eq] at h
        exact hD (all_iff_allIn.mp h)
      rw [this]
      cases hv : Gen.iso7064_mod_37_36.validate n C17.a36 with
      | error e => rfl
      | ok r =>
        exfalso
        exact hD (fun c hc => C17.mem_alpha36.mp ((C17.gen_mod_37_36_validate_ok hv).2 c hc))
  · have e18 : ((n.length : Int) != 18) = true := by
      simp only [bne_iff_ne, ne_eq]; omega
    have e18' : (n.length == 18) = false := by simpa using h18
    simp only [e18, if_true, e18', Bool.false_and]
    rfl

/- GRid, the full statement
     ∀ x, (Gen.grid.validate x).toOption = if Std_grid (canon_grid x) then some (canon_grid x) else none
   is FALSE on the current tree (the identifier scheme element `A1` is not checked): -/
open Props.C17 in
theorem grid_disagrees :
    ¬ ∀ x, (Gen.grid.validate x).toOption =
      if Std_grid (canon_grid x) = true then some (canon_grid x) else none := by
  intro h
  have := h (str% "0XHLU6CFWVVMZHUG3T")
  rw [grid_agrees_with_code_rule] at this
  revert this
  decide +kernel

open Props.C17 in
theorem grid_witness : Gen.grid.validate (str% "0XHLU6CFWVVMZHUG3T") = .ok (str% "0XHLU6CFWVVMZHUG3T") ∧
    Std_grid (str% "0XHLU6CFWVVMZHUG3T") = false := by decide +kernel

/-- GRid: agreement with the standard for every input whose first two characters (after clean-up) are `A1` -/
theorem grid_agrees_with_standard_partial (x : Str) (hA1 : (canon_grid x).take 2 = [65, 49]) :
    (Gen.grid.validate x).toOption =
      if Std_grid (canon_grid x) = true then some (canon_grid x) else none := by
  rw [grid_agrees_with_code_rule]
  have : grid_code (canon_grid x) = Std_grid (canon_grid x) := by
    unfold grid_code Std_grid
    rw [hA1]
    simp
  rw [this]

/-! ## Non-vacuity: the partial theorems applied to the docstring numbers (their hypotheses hold there) -/
section Examples
open Props.C17 in
example : (Gen.lei.validate (str% "213800KUD8LAJWSQ9D15")).toOption = some (str% "213800KUD8LAJWSQ9D15") := by
  rw [lei_agrees_with_standard_partial _ (by decide +kernel) (by decide +kernel)]; decide +kernel
open Props.C17 in
example : (Gen.lei.validate (str% "213800KUD8LXJWSQ9D15")).toOption = none := by
  rw [lei_agrees_with_standard_partial _ (by decide +kernel) (by decide +kernel)]; decide +kernel
open Props.C17 in
example : (Gen.iso11649.validate (str% "RF18 5390 0754 7034")).toOption = some (str% "RF18539007547034") := by
  rw [iso11649_agrees_with_standard_partial _ (by decide +kernel)]; decide +kernel
open Props.C17 in
example : (Gen.iso11649.validate (str% "RF17 5390 0754 7034")).toOption = none := by
  rw [iso11649_agrees_with_standard_partial _ (by decide +kernel)]; decide +kernel
open Props.C17 in
example : (Gen.isni.validate (str% "0000 0001 2281 955X")).toOption = some (str% "000000012281955X") := by
  rw [isni_agrees_with_standard_partial _ (by decide +kernel)]; decide +kernel
open Props.C17 in
example : (Gen.isni.validate (str% "0000 0001 1111 955X")).toOption = none := by
  rw [isni_agrees_with_standard_partial _ (by decide +kernel)]; decide +kernel
open Props.C17 in
example : (Gen.grid.validate (str% "Grid: A1-2425G-ABC1234002-M")).toOption = some (str% "A12425GABC1234002M") := by
  rw [grid_agrees_with_standard_partial _ (by decide +kernel)]; decide +kernel
open Props.C17 in
example : (Gen.grid.validate (str% "A1-2425G-ABC1234002-Q")).toOption = none := by
  rw [grid_agrees_with_standard_partial _ (by decide +kernel)]; decide +kernel
end Examples

end Props.C07

#print axioms Props.C07.gen_mod_97_10_validate_iff
#print axioms Props.C07.lei_agrees_with_code_rule
#print axioms Props.C07.lei_disagrees
#print axioms Props.C07.lei_witness
#print axioms Props.C07.lei_agrees_with_standard_partial
#print axioms Props.C07.iso11649_agrees_with_code_rule
#print axioms Props.C07.iso11649_disagrees
#print axioms Props.C07.iso11649_witness
#print axioms Props.C07.iso11649_agrees_with_standard_partial
#print axioms Props.C07.isni_disagrees
#print axioms Props.C07.isni_witness
#print axioms Props.C07.isni_agrees_with_standard_partial
#print axioms Props.C07.grid_agrees_with_code_rule
#print axioms Props.C07.grid_disagrees
#print axioms Props.C07.grid_witness
#print axioms Props.C07.grid_agrees_with_standard_partial
