import Gen.gn_nifp
import Gen.za_tin
import Gen.il_hp
import Gen.il_idnr
import Gen.rs_pib
import Gen.it_iva
import Gen.gr_amka
import Gen.za_idnr
import Gen.in__gstin
import Gen.ma_ice
import Gen.ca_bn
import Gen.do_cedula
import Gen.fr_siret
import Gen.in__epic
import Gen.se_personnummer
import Props.C17
/-!
# C17, continued — national numbers that delegate to Luhn / ISO 7064 (on the generated `validate` functions)

Same theorem shapes as `Props/C17.lean`: hypothesis `Gen.M.validate x = .ok v` (any presentation `x`; `v` the
compact number), conclusion `isOk (Gen.M.validate (v.set i c)) = false` for a replacement character `c` of the
same kind as `v[i]`.  (No further Verhoeff/Damm users exist in the library besides `in_.aadhaar`/`in_.vid`, so there
are no new `adjacent_swap` theorems.)

Where the full-strength statement (every position of every accepted number) is false of the code it is kept
visible as `M_single_error_false` (its negation, with a witness evaluated by the kernel) next to
`M_single_error_partial`, whose extra hypothesis is named in the table.

| module | theorems | algorithm; extra hypothesis of `_partial` |
|---|---|---|
| `gn.nifp`, `za.tin`, `il.hp`, `il.idnr`, `it.iva`, `gr.amka` | `gn_nifp_single_error`, `za_tin_…`, `il_hp_…`, `il_idnr_…`, `it_iva_…`, `gr_amka_…` | Luhn, all positions |
| `za.idnr` | `za_idnr_single_error` (any `today`, also a different one for the second call) | Luhn |
| `rs.pib` | `rs_pib_single_error` | Mod 11,10 |
| `in_.gstin` | `gstin_single_error` (any other character of `0-9A-Z`) | Luhn over 36 characters |
| `ma.ice` | `ma_ice_single_error` | Mod 97-10 sum with target 0 |
| `ca.bn` | `ca_bn_single_error_partial`, `ca_bn_single_error_false` | Luhn; `i < 9` (BN15 suffix unprotected) |
| `do.cedula` | `do_cedula_single_error_partial`, `do_cedula_single_error_false` | Luhn; neither number on the whitelist |
| `fr.siret` | `fr_siret_single_error_partial`, `fr_siret_single_error_false`, `fr_siret_laposte_single_error_false` | Luhn; neither number in the La Poste family |
| `in_.epic` | `epic_single_error_partial`, `epic_single_error_false` | Luhn; `3 ≤ i` (letters unprotected) |
| `se.personnummer` (`C17c`) | `se_personnummer_single_error_partial`, `…_false` | Luhn; `|v| ≤ i + 11` (century digits unprotected) |
| `eu.at_02` (`C17c`) | `at02_single_error_partial`, `at02_single_error_false` | Mod 97-10; `i < 4 ∨ 7 ≤ i`, business code alphanumeric |
| `at.uid` (`C17c`) | `at_uid_single_error` (all positions, `U` included) | own formula around `luhn.checksum` |
| `nl.btw` (`C17c`) | `nl_btw_single_error_partial`, `nl_btw_single_error_false` | Mod 97-10; neither number accepted as BSN |
| `es.cif` (`C17c`) | `es_cif_single_error_partial`, `es_cif_single_error_false` | own code around `luhn.calc_check_digit`; `1 ≤ i` |
| `isan` (`C17d`) | `isan_single_error_partial`, `isan_single_error_false`, `isan_strip_single_error_false` | Mod 37,36; 17, 25 or 26 characters |
| `no.kontonr` (`C17e`) | `no_kontonr7_single_error`, `no_kontonr_single_error_partial`, `no_kontonr_single_error_false` | Luhn / own mod 11; no `0000` prefix |

`de.idnr` and `id.npwp` are in `C17f`, `iban` in `C17i`.  Not covered: `meid` (decimal/hex conversion).

## the recurring glue, factored

Every module has the form "`number = compact(number)`; a few format checks; `ALGO.validate(number)`; `return
number`".  The per-module work is one lemma

  `M_ok : Wraps Gen.M.validate cls chk`
  (`validate x = .ok v → (AllIn cls x → v = x) ∧ AllIn cls v ∧ isOk (chk v) = true`)

proved by `unfold …; invert_validate h; obtain ⟨…⟩ := h; exact ⟨…⟩` — `invert_validate` (a `simp only` set:
`raise_bind`, `ite_error_ok`, `bind_eq_ok`, `ite_any_ok`, …) turns the monadic body into the conjunction of the
conditions along the success path, whatever the order of the checks.  No "reject" lemma per module is needed:
`single_error_of` derives the rejection of the changed number `w` from `M_ok` itself (`reject_of_ok`: if
`validate w = ok v'` then `v' = w` passes `chk`), given the detection property `Detects cls chk` of the algorithm
(`luhn_detects`, `luhn36_detects`, `mod_11_10_detects`, `verhoeff_detects` … from `Props/C06Gen.lean`).
`WrapsSel`/`single_error_sel_of` are the variants for a check that covers a part `sel v` of the number.
-/
namespace Props.C17
open Py Spec.Checksum Lemmas.Refine Lemmas.Fold Props.C06 Props.C06Gen

/-! ## inversion of generated `validate` bodies -/

theorem raise_bind {α β : Type} (e : Exc) (f : α → R β) : ((Py.raise e : R α) >>= f) = .error e := rfl

theorem ite_error_ok {α : Type} {c : Prop} [Decidable c] {e : Exc} {m : R α} {v : α} :
    (if c then (.error e : R α) else m) = .ok v ↔ ¬ c ∧ m = .ok v := by
  by_cases h : c <;> simp [h]

theorem ite_raise_ok {α : Type} {c : Prop} [Decidable c] {e : Exc} {m : R α} {v : α} :
    (if c then (Py.raise e : R α) else m) = .ok v ↔ ¬ c ∧ m = .ok v := ite_error_ok

theorem ite_ok_ok {α : Type} {c : Prop} [Decidable c] {a : α} {m : R α} {v : α} :
    (if c then (.ok a : R α) else m) = .ok v ↔ (c ∧ a = v) ∨ (¬ c ∧ m = .ok v) := by
  by_cases h : c <;> simp [h]

theorem bind_eq_ok {α β : Type} {m : R α} {f : α → R β} {b : β} :
    (m >>= f) = .ok b ↔ ∃ a, m = .ok a ∧ f a = .ok b := by
  cases m <;> simp [bind, Except.bind]

theorem error_ne_ok {α : Type} {e : Exc} {v : α} : ((.error e : R α) = .ok v) ↔ False := by simp

theorem raise_ne_ok {α : Type} {e : Exc} {v : α} : ((Py.raise e : R α) = .ok v) ↔ False := by
  constructor
  · intro h; cases h
  · exact False.elim

theorem ite_any_ok {α : Type} {c : Prop} [Decidable c] {m₁ m₂ : R α} {v : α} :
    (if c then m₁ else m₂) = .ok v ↔ (c ∧ m₁ = .ok v) ∨ (¬ c ∧ m₂ = .ok v) := by
  by_cases h : c <;> simp [h]

/-- turn `h : (generated body) = .ok v` into the conjunction of the conditions along the success path
(second pass: `if`s both of whose branches can succeed become disjunctions) -/
macro "invert_validate" h:ident : tactic =>
  `(tactic| (
    simp only [clean_eq, isdigits_eq, bind_ok, pure_ok, raise_bind, ite_error_ok, ite_raise_ok, ite_ok_ok,
      bind_eq_ok, error_ne_ok, raise_ne_ok, Except.ok.injEq, Bool.not_eq_true', Bool.not_eq_true,
      Bool.not_eq_false, bne_iff_ne, ne_eq, Decidable.not_not, exists_eq_left', false_and, and_false, or_false,
      false_or, exists_false] at $h:ident
    try simp only [ite_any_ok, clean_eq, isdigits_eq, bind_ok, pure_ok, raise_bind, ite_error_ok, ite_raise_ok,
      ite_ok_ok, bind_eq_ok, error_ne_ok, raise_ne_ok, Except.ok.injEq, Bool.not_eq_true', Bool.not_eq_true,
      Bool.not_eq_false, bne_iff_ne, ne_eq, Decidable.not_not, exists_eq_left', false_and, and_false, or_false,
      false_or, exists_false, beq_iff_eq, Bool.and_eq_true] at $h:ident))

theorem len_eq_of_cast {l : Str} {k : Nat} (h : (l.length : Int) = (k : Int)) : l.length = k := by omega

/-! ## generic rejection / detection -/

/-- if `validate` returns canonical input unchanged and guarantees `P`, a canonical `w` without `P` is rejected -/
theorem reject_of_ok {f : Str → R Str} {Q P : Str → Prop}
    (hok : ∀ x v, f x = .ok v → (Q x → v = x) ∧ P v) {w : Str} (hQ : Q w) (hP : ¬ P w) :
    isOk (f w) = false := by
  cases hv : f w with
  | error e => rfl
  | ok v' =>
    obtain ⟨h1, h2⟩ := hok w v' hv
    have := h1 hQ
    subst this
    exact absurd h2 hP

/-- `chk` notices every replacement of one character of class `cls` by another one of that class -/
def Detects (cls : Nat → Bool) (chk : Str → R Str) : Prop :=
  ∀ (v : Str) (i c : Nat) (hi : i < v.length), AllIn cls v → cls c = true → c ≠ v[i] →
    isOk (chk v) = true → isOk (chk (v.set i c)) = false

/-- `chk` notices every exchange of two adjacent different characters -/
def DetectsSwap (cls : Nat → Bool) (chk : Str → R Str) : Prop :=
  ∀ (v : Str) (i : Nat) (hi : i + 1 < v.length), AllIn cls v → v[i] ≠ v[i + 1] →
    isOk (chk v) = true → isOk (chk (swapAdj v i)) = false

theorem luhn_detects : Detects isAsciiDigit (Gen.luhn.validate · d10) := by
  intro v i c hi hD hc hne hL
  exact isOk_false_of_error (gen_luhn_set_detected d10 v i c hi (by decide) (fun x hx => mem_d10.mpr (hD x hx))
    (mem_d10.mpr hc) hne hL)

theorem luhn36_detects : Detects isDU (Gen.luhn.validate · a36) := by
  intro v i c hi hD hc hne hL
  exact isOk_false_of_error (gen_luhn_set_detected a36 v i c hi (by decide)
    (fun x hx => mem_alpha36.mpr (hD x hx)) (mem_alpha36.mpr hc) hne hL)

theorem mod_11_10_detects : Detects isAsciiDigit Gen.iso7064_mod_11_10.validate := by
  intro v i c hi hD hc hne hL
  exact isOk_false_of_error (gen_mod_11_10_set_detected v i c hi hD hc hne hL)

theorem verhoeff_detects : Detects isAsciiDigit Gen.verhoeff.validate := by
  intro v i c hi hD hc hne hL
  exact isOk_false_of_error (gen_verhoeff_set_detected v i c hi hD hc hne hL)

theorem verhoeff_detects_swap : DetectsSwap isAsciiDigit Gen.verhoeff.validate := by
  intro v i hi hD hne hL
  exact isOk_false_of_error (gen_verhoeff_swapAdj_detected v i hi hD hne hL)

/-- what a per-module `M_ok` lemma says: `validate` returns a canonical input (all characters of class `cls`)
unchanged, and whatever it returns is of class `cls` and passes `chk` -/
def Wraps (f : Str → R Str) (cls : Nat → Bool) (chk : Str → R Str) : Prop :=
  ∀ x v, f x = .ok v → (AllIn cls x → v = x) ∧ AllIn cls v ∧ isOk (chk v) = true

/-- the C17 statement for a wrapper `f` around a check `chk` that covers the whole compact number -/
theorem single_error_of {f : Str → R Str} {cls : Nat → Bool} {chk : Str → R Str}
    (hdet : Detects cls chk) (hok : Wraps f cls chk)
    (x v : Str) (h : f x = .ok v) (i c : Nat) (hi : i < v.length) (hc : cls c = true) (hne : c ≠ v[i]) :
    isOk (f (v.set i c)) = false := by
  obtain ⟨_, hD, hL⟩ := hok x v h
  refine reject_of_ok hok (allIn_set hD i c hc) ?_
  intro ⟨_, hL'⟩
  rw [hdet v i c hi hD hc hne hL] at hL'
  cases hL'

theorem adjacent_swap_of {f : Str → R Str} {cls : Nat → Bool} {chk : Str → R Str}
    (hdet : DetectsSwap cls chk) (hok : Wraps f cls chk)
    (x v : Str) (h : f x = .ok v) (i : Nat) (hi : i + 1 < v.length) (hne : v[i] ≠ v[i + 1]) :
    isOk (f (swapAdj v i)) = false := by
  obtain ⟨_, hD, hL⟩ := hok x v h
  refine reject_of_ok hok (allIn_swapAdj hD i hi) ?_
  intro ⟨_, hL'⟩
  rw [hdet v i hi hD hne hL] at hL'
  cases hL'

/-- `d10` as it appears in the generated code -/
theorem d10_eq : ([48, 49, 50, 51, 52, 53, 54, 55, 56, 57] : Str) = d10 := rfl

theorem digits_of_isDigitsB {n : Str} (h : isDigitsB n = true) : AllIn isAsciiDigit n :=
  ((isDigitsB_iff n).mp h).2

theorem digits_compact_us {w : Str} (hw : AllIn isAsciiDigit w) (d : Str)
    (hd : ∀ c ∈ d, isAsciiAlnum c = false) : strip (upper (cleanP w d)) = w :=
  digits_compact_su hw d hd

theorem digits_clean {w : Str} (hw : AllIn isAsciiDigit w) (d : Str)
    (hd : ∀ c ∈ d, isAsciiAlnum c = false) : cleanP w d = w :=
  cleanP_of_alnum (fun c hc => digit_alnum (hw c hc)) hd

/-! ## stdnum.gn.nifp (9 digits, Luhn) -/

theorem gn_nifp_ok : Wraps Gen.gn_nifp.validate isAsciiDigit (Gen.luhn.validate · d10) := by
  intro x v h
  unfold Gen.gn_nifp.validate Gen.gn_nifp.compact at h
  invert_validate h
  obtain ⟨_, hd, a, hl, rfl⟩ := h
  exact ⟨fun hx => digits_compact hx _ (by decide), digits_of_isDigitsB hd, isOk_true_of_ok hl⟩

theorem gn_nifp_single_error (x v : Str) (h : Gen.gn_nifp.validate x = .ok v)
    (i c : Nat) (hi : i < v.length) (hc : isAsciiDigit c = true) (hne : c ≠ v[i]) :
    isOk (Gen.gn_nifp.validate (v.set i c)) = false :=
  single_error_of luhn_detects gn_nifp_ok x v h i c hi hc hne

theorem ex_nifp : Gen.gn_nifp.validate (str% "693-770-885") = .ok (str% "693770885") := by decide +kernel
example : isOk (Gen.gn_nifp.validate (str% "693770880")) = false :=
  gn_nifp_single_error _ _ ex_nifp 8 48 (by decide) (by decide) (by decide)

/-! ## stdnum.za.tin (10 digits, first digit in `01239`, Luhn) -/

theorem za_tin_ok : Wraps Gen.za_tin.validate isAsciiDigit (Gen.luhn.validate · d10) := by
  intro x v h
  unfold Gen.za_tin.validate Gen.za_tin.compact at h
  invert_validate h
  obtain ⟨_, hd, a, _, _, hl⟩ := h
  obtain rfl := gen_luhn_validate_ok hl
  exact ⟨fun hx => digits_compact_us hx _ (by decide), digits_of_isDigitsB hd, isOk_true_of_ok hl⟩

theorem za_tin_single_error (x v : Str) (h : Gen.za_tin.validate x = .ok v)
    (i c : Nat) (hi : i < v.length) (hc : isAsciiDigit c = true) (hne : c ≠ v[i]) :
    isOk (Gen.za_tin.validate (v.set i c)) = false :=
  single_error_of luhn_detects za_tin_ok x v h i c hi hc hne

theorem ex_za_tin : Gen.za_tin.validate (str% "0001339050") = .ok (str% "0001339050") := by decide +kernel
example : isOk (Gen.za_tin.validate (str% "1001339050")) = false :=
  za_tin_single_error _ _ ex_za_tin 0 49 (by decide) (by decide) (by decide)

/-! ## stdnum.il.hp (9 digits starting with `5`, Luhn) -/

theorem il_hp_ok : Wraps Gen.il_hp.validate isAsciiDigit (Gen.luhn.validate · d10) := by
  intro x v h
  unfold Gen.il_hp.validate Gen.il_hp.compact at h
  invert_validate h
  obtain ⟨_, b, (⟨_, rfl⟩ | ⟨hd, _⟩), hb, _, _, _, a, hl, rfl⟩ := h
  · cases hb
  · exact ⟨fun hx => digits_compact hx _ (by decide), digits_of_isDigitsB hd, isOk_true_of_ok hl⟩

theorem il_hp_single_error (x v : Str) (h : Gen.il_hp.validate x = .ok v)
    (i c : Nat) (hi : i < v.length) (hc : isAsciiDigit c = true) (hne : c ≠ v[i]) :
    isOk (Gen.il_hp.validate (v.set i c)) = false :=
  single_error_of luhn_detects il_hp_ok x v h i c hi hc hne

theorem ex_il_hp : Gen.il_hp.validate (str% "516179157") = .ok (str% "516179157") := by decide +kernel
example : isOk (Gen.il_hp.validate (str% "516179150")) = false :=
  il_hp_single_error _ _ ex_il_hp 8 48 (by decide) (by decide) (by decide)

/-! ## stdnum.il.idnr (up to 9 digits, zero-padded to 9 by `compact`; Luhn)

`v` is the zero-padded 9-digit number that `validate` returns; the error is made in it. -/

theorem il_idnr_ok (x v : Str) (h : Gen.il_idnr.validate x = .ok v) :
    (AllIn isAsciiDigit x ∧ x.length = 9 → v = x) ∧
      (AllIn isAsciiDigit v ∧ v.length = 9 ∧ isOk (Gen.luhn.validate v d10) = true) := by
  unfold Gen.il_idnr.validate Gen.il_idnr.compact at h
  invert_validate h
  obtain ⟨hlen, b, (⟨_, rfl⟩ | ⟨hd, _⟩), hb, a, hl, rfl⟩ := h
  · cases hb
  · refine ⟨fun ⟨hx, h9⟩ => ?_, digits_of_isDigitsB hd, ?_, isOk_true_of_ok hl⟩
    · rw [digits_compact hx _ (by decide)]
      exact zfill_eq_self (by omega)
    · have := zfill_length (strip (cleanP x [32, 45])) 9
      simp only [decide_eq_false_iff_not, gt_iff_lt, Int.not_lt] at hlen
      omega

theorem il_idnr_single_error (x v : Str) (h : Gen.il_idnr.validate x = .ok v)
    (i c : Nat) (hi : i < v.length) (hc : isAsciiDigit c = true) (hne : c ≠ v[i]) :
    isOk (Gen.il_idnr.validate (v.set i c)) = false := by
  obtain ⟨_, hD, h9, hL⟩ := il_idnr_ok x v h
  refine reject_of_ok il_idnr_ok ⟨allIn_set hD i c hc, by simpa using h9⟩ ?_
  intro ⟨_, _, hL'⟩
  rw [luhn_detects v i c hi hD hc hne hL] at hL'
  cases hL'

theorem ex_il_idnr : Gen.il_idnr.validate (str% "3933742-3") = .ok (str% "039337423") := by decide +kernel
example : isOk (Gen.il_idnr.validate (str% "139337423")) = false :=
  il_idnr_single_error _ _ ex_il_idnr 0 49 (by decide) (by decide) (by decide)

/-! ## stdnum.rs.pib (9 digits, ISO 7064 Mod 11,10) -/

theorem rs_pib_ok : Wraps Gen.rs_pib.validate isAsciiDigit Gen.iso7064_mod_11_10.validate := by
  intro x v h
  unfold Gen.rs_pib.validate Gen.rs_pib.compact at h
  invert_validate h
  obtain ⟨hd, _, a, hl, rfl⟩ := h
  exact ⟨fun hx => digits_compact hx _ (by decide), digits_of_isDigitsB hd, isOk_true_of_ok hl⟩

theorem rs_pib_single_error (x v : Str) (h : Gen.rs_pib.validate x = .ok v)
    (i c : Nat) (hi : i < v.length) (hc : isAsciiDigit c = true) (hne : c ≠ v[i]) :
    isOk (Gen.rs_pib.validate (v.set i c)) = false :=
  single_error_of mod_11_10_detects rs_pib_ok x v h i c hi hc hne

theorem ex_pib : Gen.rs_pib.validate (str% "101134702") = .ok (str% "101134702") := by decide +kernel
example : isOk (Gen.rs_pib.validate (str% "101134703")) = false :=
  rs_pib_single_error _ _ ex_pib 8 51 (by decide) (by decide) (by decide)

/-! ## stdnum.it.iva (11 digits, office code in positions 7-9, Luhn) -/

theorem it_iva_ok : Wraps Gen.it_iva.validate isAsciiDigit (Gen.luhn.validate · d10) := by
  intro x v h
  unfold Gen.it_iva.validate Gen.it_iva.compact at h
  invert_validate h
  obtain ⟨n, hn, b, (⟨_, rfl⟩ | ⟨hd, _⟩), hb, _, _, a, hl, rfl⟩ := h
  · cases hb
  · refine ⟨fun hx => ?_, digits_of_isDigitsB hd, isOk_true_of_ok hl⟩
    rw [digits_compact_us hx _ (by decide), digits_not_startswith hx ⟨73, by simp, by decide⟩] at hn
    rcases hn with ⟨h1, _⟩ | ⟨_, h2⟩
    · cases h1
    · exact h2.symm

theorem it_iva_single_error (x v : Str) (h : Gen.it_iva.validate x = .ok v)
    (i c : Nat) (hi : i < v.length) (hc : isAsciiDigit c = true) (hne : c ≠ v[i]) :
    isOk (Gen.it_iva.validate (v.set i c)) = false :=
  single_error_of luhn_detects it_iva_ok x v h i c hi hc hne

theorem ex_iva : Gen.it_iva.validate (str% "IT 00743110157") = .ok (str% "00743110157") := by decide +kernel
example : isOk (Gen.it_iva.validate (str% "00743110158")) = false :=
  it_iva_single_error _ _ ex_iva 10 56 (by decide) (by decide) (by decide)

/-! ## stdnum.gr.amka (11 digits: date of birth, serial, Luhn check digit over everything) -/

theorem gr_amka_ok : Wraps Gen.gr_amka.validate isAsciiDigit (Gen.luhn.validate · d10) := by
  intro x v h
  unfold Gen.gr_amka.validate Gen.gr_amka.compact at h
  invert_validate h
  obtain ⟨hd, _, a, hl, _, _, rfl⟩ := h
  exact ⟨fun hx => digits_compact hx _ (by decide), digits_of_isDigitsB hd, isOk_true_of_ok hl⟩

theorem gr_amka_single_error (x v : Str) (h : Gen.gr_amka.validate x = .ok v)
    (i c : Nat) (hi : i < v.length) (hc : isAsciiDigit c = true) (hne : c ≠ v[i]) :
    isOk (Gen.gr_amka.validate (v.set i c)) = false :=
  single_error_of luhn_detects gr_amka_ok x v h i c hi hc hne

theorem ex_amka : Gen.gr_amka.validate (str% "01013099997") = .ok (str% "01013099997") := by decide +kernel
example : isOk (Gen.gr_amka.validate (str% "01013099999")) = false :=
  gr_amka_single_error _ _ ex_amka 10 57 (by decide) (by decide) (by decide)

/-! ## stdnum.za.idnr (13 digits: date of birth, …, citizenship, Luhn check digit over everything)

`validate` depends on today's date (century of the birth date); the theorem holds for every `today`, even a
different one for the second call. -/

theorem za_idnr_ok (t : Date) : Wraps (Gen.za_idnr.validate t) isAsciiDigit (Gen.luhn.validate · d10) := by
  intro x v h
  unfold Gen.za_idnr.validate Gen.za_idnr.compact at h
  invert_validate h
  obtain ⟨hd, _, _, _, _, _, hl⟩ := h
  obtain rfl := gen_luhn_validate_ok hl
  exact ⟨fun hx => digits_clean hx _ (by decide), digits_of_isDigitsB hd, isOk_true_of_ok hl⟩

theorem za_idnr_single_error (today today' : Date) (x v : Str) (h : Gen.za_idnr.validate today x = .ok v)
    (i c : Nat) (hi : i < v.length) (hc : isAsciiDigit c = true) (hne : c ≠ v[i]) :
    isOk (Gen.za_idnr.validate today' (v.set i c)) = false := by
  obtain ⟨_, hD, hL⟩ := za_idnr_ok today x v h
  refine reject_of_ok (za_idnr_ok today') (allIn_set hD i c hc) ?_
  intro ⟨_, hL'⟩
  rw [luhn_detects v i c hi hD hc hne hL] at hL'
  cases hL'

theorem ex_za_idnr : Gen.za_idnr.validate ⟨2026, 9, 27⟩ (str% "7503305044089") = .ok (str% "7503305044089") := by
  decide +kernel
example : isOk (Gen.za_idnr.validate ⟨2031, 1, 1⟩ (str% "8503305044089")) = false :=
  za_idnr_single_error _ _ _ _ ex_za_idnr 0 56 (by decide) (by decide) (by decide)

/-! ## stdnum.in_.gstin (15 characters of `0-9A-Z`; Luhn over the 36-character alphabet, all positions) -/

theorem gen_luhn_validate_mem {w a r : Str} (h : Gen.luhn.validate w a = .ok r) :
    r = w ∧ ∀ c ∈ w, c ∈ a := by
  refine ⟨gen_luhn_validate_ok h, ?_⟩
  rw [Props.C06Gen.luhn_validate_eq] at h
  unfold Luhn.validate at h
  split at h
  · cases h
  · obtain ⟨_, h2⟩ := validateBody_ok h
    unfold Luhn.checksum at h2
    cases hm : w.reverse.mapM (Spec.Checksum.index a) with
    | error e => simp [hm] at h2
    | ok l =>
      intro c hc
      obtain ⟨k, hk⟩ := mapM_ok_forall _ _ _ hm c (List.mem_reverse.mpr hc)
      exact index_ok_mem hk

theorem gstin_ok : Wraps Gen.in__gstin.validate isDU (Gen.luhn.validate · a36) := by
  intro x v h
  unfold Gen.in__gstin.validate Gen.in__gstin.compact at h
  invert_validate h
  obtain ⟨_, _, _, _, _, _, _, a, hl, rfl⟩ := h
  obtain ⟨_, hm⟩ := gen_luhn_validate_mem hl
  exact ⟨fun hx => du_compact_upper' hx _ (by decide), fun c hc => mem_alpha36.mp (hm c hc), isOk_true_of_ok hl⟩

/-- GSTIN: replacing any character by any other character of `0-9A-Z` (in particular digit for digit, letter
for letter) -/
theorem gstin_single_error (x v : Str) (h : Gen.in__gstin.validate x = .ok v)
    (i c : Nat) (hi : i < v.length) (hc : isDU c = true) (hne : c ≠ v[i]) :
    isOk (Gen.in__gstin.validate (v.set i c)) = false :=
  single_error_of luhn36_detects gstin_ok x v h i c hi hc hne

theorem ex_gstin : Gen.in__gstin.validate (str% "27AAPFU0939F1ZV") = .ok (str% "27AAPFU0939F1ZV") := by
  decide +kernel
example : isOk (Gen.in__gstin.validate (str% "27AAPFU0939F1ZO")) = false :=
  gstin_single_error _ _ ex_gstin 14 79 (by decide) (by decide) (by decide)
example : isOk (Gen.in__gstin.validate (str% "27ABPFU0939F1ZV")) = false :=
  gstin_single_error _ _ ex_gstin 3 66 (by decide) (by decide) (by decide)

/-! ## stdnum.ma.ice (15 digits, `int(number) % 97 == 0`: the ISO 7064 Mod 97-10 sum with target 0) -/

theorem ice_checksum {w : Str} (hD : AllIn isAsciiDigit w) (hl : w.length = 15) :
    Gen.iso7064_mod_97_10.checksum w = .ok ((Mod9710.vchecksum (w.map b36Val) : Nat) : Int) := by
  have hA : AllIn isAsciiAlnum w := fun c hc => digit_alnum (hD c hc)
  have hne : w ≠ [] := by intro h; subst h; simp at hl
  have hwd := width_le (w.map b36Val)
  rw [List.length_map, hl] at hwd
  rw [mod_97_10_checksum_eq w (ascii_of_alnum hA),
    Mod9710.checksum_eq pyB36 defaultMaxDigits b36Val w (alnum_spec pyB36_extends hA), if_neg hne,
    if_neg (by unfold defaultMaxDigits; omega)]
  rfl

theorem ma_ice_ok (x v : Str) (h : Gen.ma_ice.validate x = .ok v) :
    (AllIn isAsciiDigit x → v = x) ∧
      (AllIn isAsciiDigit v ∧ v.length = 15 ∧ Mod9710.vchecksum (v.map b36Val) = 0) := by
  unfold Gen.ma_ice.validate Gen.ma_ice.compact at h
  invert_validate h
  obtain ⟨hlen, hd, a, hck, ha, rfl⟩ := h
  have hD := digits_of_isDigitsB hd
  have hl : (cleanP x [32]).length = 15 := by omega
  rw [ice_checksum hD hl] at hck
  refine ⟨fun hx => digits_clean hx _ (by decide), hD, hl, ?_⟩
  have : ((Mod9710.vchecksum ((cleanP x [32]).map b36Val) : Nat) : Int) = a := by simpa using hck
  omega

theorem ma_ice_single_error (x v : Str) (h : Gen.ma_ice.validate x = .ok v)
    (i c : Nat) (hi : i < v.length) (hc : isAsciiDigit c = true) (hne : c ≠ v[i]) :
    isOk (Gen.ma_ice.validate (v.set i c)) = false := by
  obtain ⟨_, hD, h15, hck⟩ := ma_ice_ok x v h
  refine reject_of_ok ma_ice_ok (allIn_set hD i c hc) ?_
  intro ⟨_, _, hck'⟩
  have h0 := split_at v i hi
  rw [set_eq_split v i c hi] at hck'
  rw [h0] at hck hD
  obtain ⟨hu, ha, ht⟩ := allIn_split hD
  simp only [List.map_append, List.map_cons] at hck hck'
  have hva := b36Val_of_digit ha
  have hvc := b36Val_of_digit hc
  have hba := digit_bounds ha
  have hbc := digit_bounds hc
  refine m9710_v_subst _ _ (b36Val v[i]) (b36Val c) (map_b36_lt fun x hx => digit_alnum (hu x hx))
    (map_b36_lt fun x hx => digit_alnum (ht x hx)) (by omega) (by omega) (by omega) (by omega)
    (hck.trans hck'.symm)

theorem ex_ice : Gen.ma_ice.validate (str% "00 21 36 09 30 00 040") = .ok (str% "002136093000040") := by
  decide +kernel
example : isOk (Gen.ma_ice.validate (str% "002136093000041")) = false :=
  ma_ice_single_error _ _ ex_ice 14 49 (by decide) (by decide) (by decide)

/-! # Checks that cover a part of the number only, or have a documented alternative

For these the full-strength statement (every position / every valid number) is **false** of the code; it is kept
visible as `M_single_error_false` (negation, with a concrete witness evaluated by the kernel), next to the
`M_single_error_partial` theorem that names the extra hypothesis. -/

/-- `validate` returns canonical input unchanged; the result is of class `cls`; its part `sel v` is of class
`scls` and passes `chk` -/
def WrapsSel (f : Str → R Str) (cls : Nat → Bool) (sel : Str → Str) (scls : Nat → Bool) (chk : Str → R Str) :
    Prop :=
  ∀ x v, f x = .ok v → (AllIn cls x → v = x) ∧ AllIn cls v ∧ AllIn scls (sel v) ∧ isOk (chk (sel v)) = true

theorem single_error_sel_of {f : Str → R Str} {cls scls : Nat → Bool} {sel : Str → Str} {chk : Str → R Str}
    (hdet : Detects scls chk) (hok : WrapsSel f cls sel scls chk)
    (x v : Str) (h : f x = .ok v) (i c j : Nat) (hc : cls c = true) (hsc : scls c = true)
    (hj : j < (sel v).length) (hsel : sel (v.set i c) = (sel v).set j c) (hne : c ≠ (sel v)[j]) :
    isOk (f (v.set i c)) = false := by
  obtain ⟨_, hD, hS, hL⟩ := hok x v h
  refine reject_of_ok hok (allIn_set hD i c hc) ?_
  intro ⟨_, _, hL'⟩
  rw [hsel, hdet (sel v) j c hj hS hsc hne hL] at hL'
  cases hL'

/-! ## stdnum.ca.bn (9 digits with Luhn; BN15 adds a program identifier and a reference number) -/

theorem alnum_compact {w : Str} (hw : AllIn isAsciiAlnum w) (d : Str)
    (hd : ∀ c ∈ d, isAsciiAlnum c = false) : strip (cleanP w d) = w := by
  rw [cleanP_of_alnum hw hd, strip_eq_self_of_asciiAlnum w hw]

theorem take9 (s : Str) : slice s none (some 9) = s.take 9 := slice_none_nonneg s (by decide)

theorem ca_bn_ok :
    WrapsSel Gen.ca_bn.validate isAsciiAlnum (·.take 9) isAsciiDigit (Gen.luhn.validate · d10) := by
  intro x v h
  unfold Gen.ca_bn.validate Gen.ca_bn.compact at h
  invert_validate h
  generalize hn : strip (cleanP x [45, 32]) = n at h
  rw [take9, slice_nonneg_nonneg n (by decide) (by decide), slice_nonneg_none n (by decide)] at h
  simp only [Int.reduceToNat, Nat.reduceSub] at h
  obtain ⟨hlen, hd, a, hl, hcase⟩ := h
  have hv : n = v := by
    rcases hcase with ⟨_, _, _, h⟩ | ⟨_, h⟩ <;> exact h
  subst hv
  refine ⟨fun hx => ?_, ?_, digits_of_isDigitsB hd, isOk_true_of_ok hl⟩
  · rw [← hn, alnum_compact hx _ (by decide)]
  · intro c hc
    rw [← List.take_append_drop 9 n] at hc
    rcases List.mem_append.mp hc with h1 | h1
    · exact digit_alnum (digits_of_isDigitsB hd c h1)
    · rcases hcase with ⟨h15, hcont, hd2, _⟩ | ⟨hn15, _⟩
      · rw [← List.take_append_drop 2 (n.drop 9)] at h1
        rcases List.mem_append.mp h1 with h2 | h2
        · simp only [List.contains_eq_mem, List.mem_cons, List.not_mem_nil, or_false, decide_eq_true_eq] at hcont
          rcases hcont with e | e | e | e <;> rw [e] at h2 <;> simp at h2 <;> rcases h2 with rfl | rfl <;> rfl
        · rw [List.drop_drop] at h2
          exact digit_alnum (digits_of_isDigitsB hd2 c h2)
      · have : n.length = 9 := by
          simp only [List.contains_eq_mem, List.mem_cons, List.not_mem_nil, or_false, decide_eq_true_eq] at hlen
          omega
        rw [List.drop_of_length_le (by omega)] at h1
        cases h1

/-- BN / BN15: the Luhn digit protects the first nine digits -/
theorem ca_bn_single_error_partial (x v : Str) (h : Gen.ca_bn.validate x = .ok v)
    (i c : Nat) (hi : i < v.length) (h9 : i < 9) (hc : isAsciiDigit c = true) (hne : c ≠ v[i]) :
    isOk (Gen.ca_bn.validate (v.set i c)) = false := by
  have hj : i < (v.take 9).length := by simp; omega
  refine single_error_sel_of luhn_detects ca_bn_ok x v h i c i (digit_alnum hc) hc hj List.take_set ?_
  rw [List.getElem_take]
  exact hne

theorem ex_ca_bn : Gen.ca_bn.validate (str% "12302 6635 RC 0001") = .ok (str% "123026635RC0001") := by
  decide +kernel
example : isOk (Gen.ca_bn.validate (str% "123026735RC0001")) = false :=
  ca_bn_single_error_partial _ _ ex_ca_bn 6 55 (by decide) (by decide) (by decide) (by decide)

/-- the full-strength statement is **false** of the code: the reference number `0001` (and the program
identifier `RC`/`RM`/`RP`/`RT`) of a BN15 is not covered by the check digit.
`123026635RC0001` → `123026635RC0002`, both accepted. -/
theorem ca_bn_single_error_false :
    ¬ ∀ (x v : Str), Gen.ca_bn.validate x = .ok v → ∀ (i c : Nat) (hi : i < v.length), SameKind v[i] c →
      c ≠ v[i] → isOk (Gen.ca_bn.validate (v.set i c)) = false := by
  intro H
  have := H _ _ ex_ca_bn 14 50 (by decide) (Or.inl ⟨by decide, by decide⟩) (by decide)
  revert this
  decide +kernel

/-! ## stdnum.do.cedula (11 digits, Luhn — or a member of a whitelist of 700 known-bad numbers) -/

theorem do_cedula_ok (x v : Str) (h : Gen.do_cedula.validate x = .ok v) :
    (AllIn isAsciiDigit x → v = x) ∧
      (AllIn isAsciiDigit v ∧
        (Gen.do_cedula.whitelist.contains v = true ∨ isOk (Gen.luhn.validate v d10) = true)) := by
  unfold Gen.do_cedula.validate Gen.do_cedula.compact at h
  invert_validate h
  generalize hn : strip (cleanP x [32, 45]) = n at h
  obtain ⟨hd, hcase⟩ := h
  have hv : n = v := by
    rcases hcase with ⟨_, h⟩ | ⟨_, _, h⟩
    · exact h
    · exact (gen_luhn_validate_ok h).symm
  subst hv
  refine ⟨fun hx => ?_, digits_of_isDigitsB hd, ?_⟩
  · rw [← hn, digits_compact hx _ (by decide)]
  · rcases hcase with ⟨h, _⟩ | ⟨_, _, h⟩
    · exact Or.inl h
    · exact Or.inr (isOk_true_of_ok h)

/-- cedula: when neither the number nor the changed number is on the whitelist -/
theorem do_cedula_single_error_partial (x v : Str) (h : Gen.do_cedula.validate x = .ok v)
    (hv : Gen.do_cedula.whitelist.contains v = false)
    (i c : Nat) (hi : i < v.length) (hc : isAsciiDigit c = true) (hne : c ≠ v[i])
    (hw : Gen.do_cedula.whitelist.contains (v.set i c) = false) :
    isOk (Gen.do_cedula.validate (v.set i c)) = false := by
  obtain ⟨_, hD, hL⟩ := do_cedula_ok x v h
  rw [hv] at hL
  have hL : isOk (Gen.luhn.validate v d10) = true := by
    rcases hL with h | h
    · cases h
    · exact h
  refine reject_of_ok do_cedula_ok (allIn_set hD i c hc) ?_
  intro ⟨_, hL'⟩
  rw [hw, luhn_detects v i c hi hD hc hne hL] at hL'
  rcases hL' with h | h <;> cases h

theorem ex_cedula : Gen.do_cedula.validate (str% "001-1391820-5") = .ok (str% "00113918205") := by
  decide +kernel
example : isOk (Gen.do_cedula.validate (str% "00113918215")) = false :=
  do_cedula_single_error_partial _ _ ex_cedula (by decide +kernel) 9 49 (by decide) (by decide) (by decide)
    (by decide +kernel)

/-- the full-strength statement is **false** of the code: the Luhn-valid `70000021249` becomes the whitelisted
(not Luhn-valid) `00000021249` by one substitution, and both are accepted -/
theorem do_cedula_single_error_false :
    ¬ ∀ (x v : Str), Gen.do_cedula.validate x = .ok v → ∀ (i c : Nat) (hi : i < v.length),
      isAsciiDigit c = true → c ≠ v[i] → isOk (Gen.do_cedula.validate (v.set i c)) = false := by
  intro H
  have := H (str% "70000021249") (str% "70000021249") (by decide +kernel) 0 48 (by decide) (by decide)
    (by decide)
  revert this
  decide +kernel


/-! ## stdnum.fr.siret (14 digits, Luhn; La Poste special case) -/

/-- the documented special case of `fr.siret`: La Poste establishments (SIREN 356000000) other than the head
office are checked by "digit sum divisible by 5" instead of Luhn -/
def LaPoste (n : Str) : Prop :=
  startswith n [51, 53, 54, 48, 48, 48, 48, 48, 48] = true ∧
    ¬ n = [51, 53, 54, 48, 48, 48, 48, 48, 48, 48, 48, 48, 52, 56]

theorem fr_siret_ok (x v : Str) (h : Gen.fr_siret.validate x = .ok v) :
    (AllIn isAsciiDigit x → v = x) ∧
      (AllIn isAsciiDigit v ∧ (LaPoste v ∨ isOk (Gen.luhn.validate v d10) = true)) := by
  unfold Gen.fr_siret.validate Gen.fr_siret.compact at h
  invert_validate h
  generalize hn : strip (cleanP x [32, 46]) = n at h
  obtain ⟨hd, _, hcase⟩ := h
  have hv : n = v := by
    rcases hcase with ⟨_, _, _, _, _, _, h⟩ | ⟨_, _, _, _, _, h⟩ <;> exact h
  subst hv
  refine ⟨fun hx => ?_, digits_of_isDigitsB hd, ?_⟩
  · rw [← hn, digits_compact hx _ (by decide)]
  · rcases hcase with ⟨h, _⟩ | ⟨_, _, h, _⟩
    · exact Or.inl h
    · exact Or.inr (isOk_true_of_ok h)

/-- SIRET: outside the documented La Poste special case -/
theorem fr_siret_single_error_partial (x v : Str) (h : Gen.fr_siret.validate x = .ok v) (hv : ¬ LaPoste v)
    (i c : Nat) (hi : i < v.length) (hc : isAsciiDigit c = true) (hne : c ≠ v[i])
    (hw : ¬ LaPoste (v.set i c)) :
    isOk (Gen.fr_siret.validate (v.set i c)) = false := by
  obtain ⟨_, hD, hL⟩ := fr_siret_ok x v h
  have hL : isOk (Gen.luhn.validate v d10) = true := hL.resolve_left hv
  refine reject_of_ok fr_siret_ok (allIn_set hD i c hc) ?_
  intro ⟨_, hL'⟩
  have := hL'.resolve_left hw
  rw [luhn_detects v i c hi hD hc hne hL] at this
  cases this

instance (n : Str) : Decidable (LaPoste n) := by unfold LaPoste; infer_instance

theorem ex_siret : Gen.fr_siret.validate (str% "73282932000074") = .ok (str% "73282932000074") := by
  decide +kernel
example : isOk (Gen.fr_siret.validate (str% "73282932000084")) = false :=
  fr_siret_single_error_partial _ _ ex_siret (by decide) 12 56 (by decide) (by decide) (by decide) (by decide)

/-- the full-strength statement is **false** of the code (documented exception): the head office of La Poste
`35600000000048` is Luhn-valid; `35600000000038` has digit sum 25 and is accepted by the alternative rule -/
theorem fr_siret_single_error_false :
    ¬ ∀ (x v : Str), Gen.fr_siret.validate x = .ok v → ∀ (i c : Nat) (hi : i < v.length),
      isAsciiDigit c = true → c ≠ v[i] → isOk (Gen.fr_siret.validate (v.set i c)) = false := by
  intro H
  have := H (str% "35600000000048") (str% "35600000000048") (by decide +kernel) 12 51 (by decide) (by decide)
    (by decide)
  revert this
  decide +kernel

/-- … and inside the La Poste family the digit-sum rule does not notice a change by 5:
`35600000049837` → `35600000049832` -/
theorem fr_siret_laposte_single_error_false :
    ¬ ∀ (x v : Str), Gen.fr_siret.validate x = .ok v → LaPoste v → ∀ (i c : Nat) (hi : i < v.length),
      isAsciiDigit c = true → c ≠ v[i] → isOk (Gen.fr_siret.validate (v.set i c)) = false := by
  intro H
  have := H (str% "35600000049837") (str% "35600000049837") (by decide +kernel) (by decide) 13 50 (by decide)
    (by decide) (by decide)
  revert this
  decide +kernel

/-! ## stdnum.in_.epic (3 letters, 7 digits; Luhn over the digits) -/

theorem epic_re_du {n : Str} (hl : n.length = 10)
    (h : (Re.match_ Gen.in__epic._EPIC_RE n).isSome = true) : AllIn isDU n := by
  obtain ⟨m, hm⟩ := Option.isSome_iff_exists.mp h
  obtain ⟨core, h1, _, _, _, h4, h5⟩ := Re.match_shape_eol (p := Gen.in__epic._EPIC_RE) rfl hm
  have hc : core.length = 10 := by
    have := h5
    simp [Gen.in__epic._EPIC_RE, Re.Regex.lenBound, Re.LenIn, Re.optAdd, Re.optMul] at this
    omega
  have : n = core := by
    rcases h1 with h1 | h1
    · exact h1
    · rw [h1] at hl; simp at hl; omega
  subst this
  intro c hc
  have := h4 c hc
  simp [Gen.in__epic._EPIC_RE, Re.Regex.charPred, Re.classMatch, Re.itemMatch] at this
  simp only [isDU, isAsciiDigit, isAsciiUpper, Bool.or_eq_true, Bool.and_eq_true, decide_eq_true_eq]
  omega


theorem epic_ok :
    WrapsSel Gen.in__epic.validate isDU (·.drop 3) isAsciiDigit (Gen.luhn.validate · d10) := by
  intro x v h
  unfold Gen.in__epic.validate Gen.in__epic.compact at h
  invert_validate h
  generalize hn : strip (upper (cleanP x [32, 45])) = n at h
  rw [slice_nonneg_none n (by decide)] at h
  simp only [Int.reduceToNat] at h
  obtain ⟨hlen, hre, a, hl, rfl⟩ := h
  obtain ⟨_, hm⟩ := gen_luhn_validate_mem hl
  refine ⟨fun hx => ?_, epic_re_du (by omega) hre, fun c hc => mem_d10.mp (hm c hc), isOk_true_of_ok hl⟩
  rw [← hn, du_compact_upper' hx _ (by decide)]

/-- EPIC: the Luhn digit protects the seven digits -/
theorem epic_single_error_partial (x v : Str) (h : Gen.in__epic.validate x = .ok v)
    (i c : Nat) (hi : i < v.length) (h3 : 3 ≤ i) (hc : isAsciiDigit c = true) (hne : c ≠ v[i]) :
    isOk (Gen.in__epic.validate (v.set i c)) = false := by
  have hj : i - 3 < (v.drop 3).length := by simp; omega
  refine single_error_sel_of luhn_detects epic_ok x v h i c (i - 3) (du_of_digit hc) hc hj ?_ ?_
  · show (v.set i c).drop 3 = (v.drop 3).set (i - 3) c
    rw [List.drop_set, if_neg (by omega)]
  · rw [List.getElem_drop]
    have : 3 + (i - 3) = i := by omega
    simp only [this]
    exact hne

theorem ex_epic : Gen.in__epic.validate (str% "WKH1186253") = .ok (str% "WKH1186253") := by decide +kernel
example : isOk (Gen.in__epic.validate (str% "WKH1186263")) = false :=
  epic_single_error_partial _ _ ex_epic 8 54 (by decide) (by decide) (by decide) (by decide)

/-- the full-strength statement is **false** of the code: the three letters are not covered by the check digit.
`WKH1186253` → `WKJ1186253`, both accepted. -/
theorem epic_single_error_false :
    ¬ ∀ (x v : Str), Gen.in__epic.validate x = .ok v → ∀ (i c : Nat) (hi : i < v.length), SameKind v[i] c →
      c ≠ v[i] → isOk (Gen.in__epic.validate (v.set i c)) = false := by
  intro H
  have := H _ _ ex_epic 2 74 (by decide) (Or.inr ⟨by decide, by decide⟩) (by decide)
  revert this
  decide +kernel

end Props.C17

#print axioms Props.C17.gn_nifp_single_error
#print axioms Props.C17.za_tin_single_error
#print axioms Props.C17.il_hp_single_error
#print axioms Props.C17.il_idnr_single_error
#print axioms Props.C17.rs_pib_single_error
#print axioms Props.C17.it_iva_single_error
#print axioms Props.C17.gr_amka_single_error
#print axioms Props.C17.za_idnr_single_error
#print axioms Props.C17.gstin_single_error
#print axioms Props.C17.ma_ice_single_error
#print axioms Props.C17.ca_bn_single_error_partial
#print axioms Props.C17.ca_bn_single_error_false
#print axioms Props.C17.do_cedula_single_error_partial
#print axioms Props.C17.do_cedula_single_error_false
#print axioms Props.C17.fr_siret_single_error_partial
#print axioms Props.C17.fr_siret_single_error_false
#print axioms Props.C17.fr_siret_laposte_single_error_false
#print axioms Props.C17.epic_single_error_partial
#print axioms Props.C17.epic_single_error_false
