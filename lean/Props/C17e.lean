import Gen.no_kontonr
import Props.C17b
/-!
# C17, continued (4) — `no.kontonr` (7 digits: Luhn; 11 digits: own weighted sum modulo 11)

`no_kontonr7_single_error` (7-digit numbers, no further hypothesis), `no_kontonr_single_error_partial` (both
lengths; hypothesis: neither number starts with `0000`), `no_kontonr_single_error_false` (the full statement is
false: `compact` strips a leading `0000` from whatever it is given), `no_kontonr_validate_not_idempotent`.
-/
namespace Props.C17
open Py Spec.Checksum Lemmas.Refine Lemmas.Fold Props.C06 Props.C06Gen

/-! ## stdnum.no.kontonr (7-digit accounts: Luhn; 11-digit accounts: own weighted sum mod 11) -/

theorem no_kontonr_ok (x v : Str) (h : Gen.no_kontonr.validate x = .ok v) :
    (AllIn isAsciiDigit x → v = if startswith x [48, 48, 48, 48] = true then x.drop 4 else x) ∧
      (AllIn isAsciiDigit v ∧ (v.length = 7 ∨ v.length = 11) ∧
        (v.length = 7 → isOk (Gen.luhn.validate v d10) = true)) := by
  unfold Gen.no_kontonr.validate Gen.no_kontonr.compact at h
  invert_validate h
  generalize hn : strip (cleanP x [32, 46, 45]) = n at h
  obtain ⟨a, hc, hd, hcase⟩ := h
  have hv : a = v := by
    rcases hcase with ⟨_, _, _, h⟩ | ⟨_, _, _, _, _, _, _, h⟩ <;> exact h
  subst hv
  refine ⟨fun hx => ?_, digits_of_isDigitsB hd, ?_, ?_⟩
  · rw [digits_compact hx _ (by decide)] at hn
    subst hn
    rcases hc with ⟨h1, h2⟩ | ⟨h1, h2⟩
    · rw [if_pos h1, ← h2, slice_nonneg_none _ (by decide)]; rfl
    · rw [if_neg (by rw [h1]; decide), h2]
  · rcases hcase with ⟨h, _⟩ | ⟨_, h, _⟩ <;> omega
  · intro h7
    rcases hcase with ⟨_, r, hl, _⟩ | ⟨h, _⟩
    · exact isOk_true_of_ok hl
    · omega

/-- 7-digit account numbers: Luhn over all seven digits (no further hypothesis) -/
theorem no_kontonr7_single_error (x v : Str) (h : Gen.no_kontonr.validate x = .ok v) (h7 : v.length = 7)
    (i c : Nat) (hi : i < v.length) (hc : isAsciiDigit c = true) (hne : c ≠ v[i]) :
    isOk (Gen.no_kontonr.validate (v.set i c)) = false := by
  obtain ⟨_, hD, _, hL⟩ := no_kontonr_ok x v h
  cases hv' : Gen.no_kontonr.validate (v.set i c) with
  | error e => rfl
  | ok v' =>
    exfalso
    obtain ⟨hC, _, hlen', hL'⟩ := no_kontonr_ok _ _ hv'
    have := hC (allIn_set hD i c hc)
    split at this
    · subst this
      simp only [List.length_drop, List.length_set] at hlen'
      omega
    · subst this
      have := hL' (by simpa using h7)
      rw [luhn_detects v i c hi hD hc hne (hL h7)] at this
      cases this

theorem len11 {a : Str} (h : a.length = 11) :
    ∃ c0 c1 c2 c3 c4 c5 c6 c7 c8 c9 c10, a = [c0, c1, c2, c3, c4, c5, c6, c7, c8, c9, c10] := by
  match a, h with
  | [c0, c1, c2, c3, c4, c5, c6, c7, c8, c9, c10], _ => exact ⟨_, _, _, _, _, _, _, _, _, _, _, rfl⟩

/-- the weighted sum of `no.kontonr._calc_check_digit` -/
def kSum (c0 c1 c2 c3 c4 c5 c6 c7 c8 c9 : Nat) : Int :=
  6 * ((c0 : Int) - 48) + 7 * ((c1 : Int) - 48) + 8 * ((c2 : Int) - 48) + 9 * ((c3 : Int) - 48) +
    4 * ((c4 : Int) - 48) + 5 * ((c5 : Int) - 48) + 6 * ((c6 : Int) - 48) + 7 * ((c7 : Int) - 48) +
    8 * ((c8 : Int) - 48) + 9 * ((c9 : Int) - 48)

theorem kontonr_calc (c0 c1 c2 c3 c4 c5 c6 c7 c8 c9 c10 : Nat)
    (hD : AllIn isAsciiDigit [c0, c1, c2, c3, c4, c5, c6, c7, c8, c9, c10]) :
    Gen.no_kontonr._calc_check_digit [c0, c1, c2, c3, c4, c5, c6, c7, c8, c9, c10] =
      .ok (Py.strOfInt (kSum c0 c1 c2 c3 c4 c5 c6 c7 c8 c9 % 11)) := by
  have h0 := hD c0 (by simp)
  have h1 := hD c1 (by simp)
  have h2 := hD c2 (by simp)
  have h3 := hD c3 (by simp)
  have h4 := hD c4 (by simp)
  have h5 := hD c5 (by simp)
  have h6 := hD c6 (by simp)
  have h7 := hD c7 (by simp)
  have h8 := hD c8 (by simp)
  have h9 := hD c9 (by simp)
  unfold Gen.no_kontonr._calc_check_digit
  simp only [Py.chars, List.map_cons, List.map_nil, List.zip_cons_cons, List.zip_nil_left, List.mapM_cons,
    List.mapM_nil, intOf_singleton_digit _ h0, intOf_singleton_digit _ h1, intOf_singleton_digit _ h2,
    intOf_singleton_digit _ h3, intOf_singleton_digit _ h4, intOf_singleton_digit _ h5,
    intOf_singleton_digit _ h6, intOf_singleton_digit _ h7, intOf_singleton_digit _ h8,
    intOf_singleton_digit _ h9, bind_ok, pure_ok]
  have e : sumInt [6 * ((c0 : Int) - 48), 7 * ((c1 : Int) - 48), 8 * ((c2 : Int) - 48), 9 * ((c3 : Int) - 48),
      4 * ((c4 : Int) - 48), 5 * ((c5 : Int) - 48), 6 * ((c6 : Int) - 48), 7 * ((c7 : Int) - 48),
      8 * ((c8 : Int) - 48), 9 * ((c9 : Int) - 48)] = kSum c0 c1 c2 c3 c4 c5 c6 c7 c8 c9 := by
    simp only [sumInt_cons, sumInt_nil, kSum]
    omega
  rw [e]

theorem strOfInt_le9 {r : Int} {k : Nat} (h0 : 0 ≤ r) (h10 : r ≤ 10) (h : Py.strOfInt r = [k]) : r ≤ 9 := by
  by_cases h' : r = 10
  · subst h'
    have : Py.strOfInt 10 = [49, 48] := by decide
    rw [this] at h
    cases h
  · omega

/-- what `validate` accepts as an 11-digit account number -/
def KOk11 (v : Str) : Prop :=
  ∃ c0 c1 c2 c3 c4 c5 c6 c7 c8 c9 c10, v = [c0, c1, c2, c3, c4, c5, c6, c7, c8, c9, c10] ∧
    kSum c0 c1 c2 c3 c4 c5 c6 c7 c8 c9 % 11 = (c10 : Int) - 48

theorem no_kontonr_ok11 (x v : Str) (h : Gen.no_kontonr.validate x = .ok v) (h11 : v.length = 11) : KOk11 v := by
  have hD := (no_kontonr_ok x v h).2.1
  unfold Gen.no_kontonr.validate at h
  invert_validate h
  obtain ⟨a, _, _, hcase⟩ := h
  rcases hcase with ⟨h7, _, _, rfl⟩ | ⟨_, _, chk, hcalc, l, hl, rfl, rfl⟩
  · omega
  · obtain ⟨c0, c1, c2, c3, c4, c5, c6, c7, c8, c9, c10, rfl⟩ := len11 h11
    have eg : Py.getItem [c0, c1, c2, c3, c4, c5, c6, c7, c8, c9, c10] (-1) = .ok [c10] := rfl
    rw [eg] at hl
    cases hl
    rw [kontonr_calc _ _ _ _ _ _ _ _ _ _ _ hD] at hcalc
    have hs : Py.strOfInt (kSum c0 c1 c2 c3 c4 c5 c6 c7 c8 c9 % 11) = [c10] := Except.ok.inj hcalc
    have h0 : 0 ≤ kSum c0 c1 c2 c3 c4 c5 c6 c7 c8 c9 % 11 := Int.emod_nonneg _ (by decide)
    have h10 : kSum c0 c1 c2 c3 c4 c5 c6 c7 c8 c9 % 11 ≤ 10 := by omega
    obtain ⟨hk, hd10⟩ := strOfInt_single h0 (strOfInt_le9 h0 h10 hs) hs
    have := digit_bounds hd10
    exact ⟨c0, c1, c2, c3, c4, c5, c6, c7, c8, c9, c10, rfl, by omega⟩

/-- account numbers of both lengths, when neither the number nor the changed number starts with `0000` (which
`compact` would strip; see `no_kontonr_single_error_false`) -/
theorem no_kontonr_single_error_partial (x v : Str) (h : Gen.no_kontonr.validate x = .ok v)
    (hv0 : startswith v [48, 48, 48, 48] = false)
    (i c : Nat) (hi : i < v.length) (hc : isAsciiDigit c = true) (hne : c ≠ v[i])
    (hw0 : startswith (v.set i c) [48, 48, 48, 48] = false) :
    isOk (Gen.no_kontonr.validate (v.set i c)) = false := by
  obtain ⟨_, hD, hlen, _⟩ := no_kontonr_ok x v h
  rcases hlen with h7 | h11
  · exact no_kontonr7_single_error x v h h7 i c hi hc hne
  · cases hv' : Gen.no_kontonr.validate (v.set i c) with
    | error e => rfl
    | ok v' =>
      exfalso
      have := (no_kontonr_ok _ _ hv').1 (allIn_set hD i c hc)
      rw [if_neg (by rw [hw0]; decide)] at this
      subst this
      obtain ⟨c0, c1, c2, c3, c4, c5, c6, c7, c8, c9, c10, rfl, hk⟩ := no_kontonr_ok11 x v h h11
      obtain ⟨d0, d1, d2, d3, d4, d5, d6, d7, d8, d9, d10, he, hk'⟩ :=
        no_kontonr_ok11 _ _ hv' (by simp)
      have b0 := digit_bounds (hD c0 (by simp))
      have b1 := digit_bounds (hD c1 (by simp))
      have b2 := digit_bounds (hD c2 (by simp))
      have b3 := digit_bounds (hD c3 (by simp))
      have b4 := digit_bounds (hD c4 (by simp))
      have b5 := digit_bounds (hD c5 (by simp))
      have b6 := digit_bounds (hD c6 (by simp))
      have b7 := digit_bounds (hD c7 (by simp))
      have b8 := digit_bounds (hD c8 (by simp))
      have b9 := digit_bounds (hD c9 (by simp))
      have b10 := digit_bounds (hD c10 (by simp))
      have bc := digit_bounds hc
      have hi11 : i = 0 ∨ i = 1 ∨ i = 2 ∨ i = 3 ∨ i = 4 ∨ i = 5 ∨ i = 6 ∨ i = 7 ∨ i = 8 ∨ i = 9 ∨ i = 10 := by
        simp only [List.length_cons, List.length_nil] at hi
        omega
      rcases hi11 with rfl | rfl | rfl | rfl | rfl | rfl | rfl | rfl | rfl | rfl | rfl <;> (
        simp only [List.set_cons_zero, List.set_cons_succ, List.cons.injEq, and_true] at he
        obtain ⟨rfl, rfl, rfl, rfl, rfl, rfl, rfl, rfl, rfl, rfl, rfl⟩ := he
        simp only [List.getElem_cons_zero, List.getElem_cons_succ] at hne
        unfold kSum at hk hk'
        omega)

theorem ex_kontonr7 : Gen.no_kontonr.validate (str% "0000 75 30520") = .ok (str% "7530520") := by decide +kernel
example : isOk (Gen.no_kontonr.validate (str% "7530521")) = false :=
  no_kontonr7_single_error _ _ ex_kontonr7 rfl 6 49 (by decide) (by decide) (by decide)

/-- the full-strength statement is **false** of the code, because `compact` drops a leading `0000` (the old
postgiro bank code) from *whatever* it is given: the valid 11-digit number `00010000505` becomes `00000000505` by
one substitution, which is read as the 7-digit account `0000505` and passes the Luhn check. -/
theorem no_kontonr_single_error_false :
    ¬ ∀ (x v : Str), Gen.no_kontonr.validate x = .ok v → ∀ (i c : Nat) (hi : i < v.length),
      isAsciiDigit c = true → c ≠ v[i] → isOk (Gen.no_kontonr.validate (v.set i c)) = false := by
  intro H
  have := H (str% "00010000505") (str% "00010000505") (by decide +kernel) 3 48 (by decide) (by decide) (by decide)
  revert this
  decide +kernel

/-- a related defect: `validate` can return a number that it does not accept itself
(`'000000000000019'` ↦ `'00000000019'`, which is then read as `'0000019'` and fails the Luhn check) -/
theorem no_kontonr_validate_not_idempotent :
    Gen.no_kontonr.validate (str% "000000000000019") = .ok (str% "00000000019") ∧
      isOk (Gen.no_kontonr.validate (str% "00000000019")) = false := by decide +kernel

theorem ex_kontonr11 : Gen.no_kontonr.validate (str% "8601 11 17947") = .ok (str% "86011117947") := by
  decide +kernel
example : isOk (Gen.no_kontonr.validate (str% "86011117957")) = false :=
  no_kontonr_single_error_partial _ _ ex_kontonr11 (by decide) 9 53 (by decide) (by decide) (by decide) (by decide)

end Props.C17

#print axioms Props.C17.no_kontonr7_single_error
#print axioms Props.C17.no_kontonr_single_error_partial
#print axioms Props.C17.no_kontonr_single_error_false
#print axioms Props.C17.no_kontonr_validate_not_idempotent
